// C07 — refresh tokens stay bound to their client and can only narrow scope.
//
// Random histories: original grants (code exchange with offline_access, device
// flow) for seven clients, followed by arbitrary chains of refresh requests
// (own / foreign / public / unregistered client, every credential kind, current /
// rotated-away / expired / unknown tokens, thirteen kinds of scope lists, refresh
// support enabled and disabled at the provider, the refresh grant removed from a
// client's registration mid-history, faults injected at single storage calls of a
// request, a second request with the same token forced between a request's look-up
// and its rotation call, a storage whose look-up hands the record of a rejected token
// back together with its error, stock and application-defined providers) are executed
// against a fresh world on both routers and judged, request by request, by a
// sequential reference model written from the property statement and by the journal
// of the controlled storage. A second stratum (overlap.go) parks one refresh request
// at each of its yield points while another one is served by the same provider.
package main

import (
	"fmt"
	"math/rand/v2"
	"net/http"
	"net/url"
	"os"
	"slices"
	"strings"
	"syscall"
	"time"

	jose "github.com/go-jose/go-jose/v4"

	"github.com/zitadel/oidc/v3/pkg/oidc"
	"github.com/zitadel/oidc/v3/pkg/op"

	"verif/internal/ev"
	"verif/internal/keys"
	"verif/internal/opdrv"
	"verif/internal/sched"
	"verif/internal/vclient"
	"verif/internal/vstore"
)

const gtDevice = "urn:ietf:params:oauth:grant-type:device_code"

type opLog struct {
	Op      string            `json:"op"`
	Request map[string]string `json:"request,omitempty"`
	Detail  string            `json:"detail,omitempty"`
	Result  string            `json:"result"`
	Journal []string          `json:"journal,omitempty"`
}

var ownerIDs = []string{"web", "web2", "post", "native", "jwt", "dev", "devpub"}
var presenterIDs = []string{"web", "web2", "post", "native", "jwt", "dev", "devpub", "svc", "ghost"}
var originScopes = []string{
	"openid offline_access",
	"openid profile offline_access",
	"openid email profile offline_access",
	"openid email phone address offline_access",
	"openid profile api:read api:write offline_access",
	"offline_access openid email",
}

func pick[T any](r *rand.Rand, xs ...T) T { return xs[r.IntN(len(xs))] }

type hist struct {
	run        *ev.Run
	caseIdx    int
	router     int
	rn         string
	r          *rand.Rand
	w          *opdrv.World // the primary world
	wOff       *opdrv.World // same storage, refresh grant disabled at the provider
	allOff     bool         // the primary world itself has the refresh grant disabled
	cl         map[string]*vclient.Client
	dereg      map[string]bool
	chains     []*chain
	toks       []*tok
	last       *chain
	log        []opLog
	dead       bool              // a violation was reported: stop
	benign     bool              // a mostly well-behaved population: long chains with occasional attacks
	alias      bool              // the storage's RefreshTokenRequest aliases the stored token (vstore.AliasRefresh), as the example storage does
	lax        bool              // the storage's refresh look-up returns the record it found together with the error that rejects it (vstore.SetLaxRefresh)
	follow     *tok              // the next refresh is a plain request of the owner with this token (it follows a scope refusal)
	provKind   string            // "stock" | "kept-verifier" | "verifier-per-request" (overlap.go: appProvider)
	jwtOK      map[string]string // honest client assertions by client id
	jwtBad     string
	forged     map[string]string // assertions of overlap.go by (iss, signer, kid kind)
	assertedAt time.Time         // overlap.go: when the cached assertions were (last) dropped
	sigKey     *keys.Key
}

func (h *hist) violated(key, what string) {
	h.dead = true
	h.run.Violation("C07:"+h.rn+":"+key, int64(h.caseIdx), what, h.witness(h.log))
}

func (h *hist) witness(log []opLog) map[string]any {
	if h.caseIdx >= overlapBase && len(log) > 16 {
		// overlap stratum: hundreds of requests of the same few shapes; the original grants and the tail tell the story
		// (the whole history is a function of seed and case index: --replay re-runs it)
		var short []opLog
		for _, e := range log[:len(log)-10] {
			if e.Op == "mint" {
				short = append(short, e)
			}
		}
		short = append(short, opLog{Op: "...", Detail: fmt.Sprintf("%d requests of this case omitted (sequential baselines and earlier forced preemptions, all judged and held)", len(log)-10-len(short))})
		log = append(short, log[len(log)-10:]...)
	}
	return map[string]any{"router": h.rn, "refresh_disabled_world": h.allOff, "storage_request_aliases_stored_token": h.alias,
		"storage_lookup_returns_request_with_error": h.lax, "provider": h.provKind, "history": log}
}

// flag reports a violation that does not invalidate the model (the history goes on, so that what follows it is still judged).
func (h *hist) flag(key, what string) {
	h.run.Violation("C07:"+h.rn+":"+key, int64(h.caseIdx), what, h.witness(slices.Clone(h.log)))
}

// panicked handles a recovered panic of a request; true = stop.
func (h *hist) panicked(resp *opdrv.Resp) bool {
	if resp.Panic == nil {
		return false
	}
	if resp.Panic.Harness {
		h.run.HarnessBug("panic in harness code: " + resp.Panic.Value + " at " + resp.Panic.Frame)
		h.dead = true
		return true
	}
	h.violated("panic:"+resp.Panic.Site(), "handler panicked: "+resp.Panic.Value)
	return true
}

func (h *hist) sample(kind string) {
	// the tail of the history (the whole history is a function of seed and case index)
	tail := h.log
	if len(tail) > 3 {
		tail = tail[len(tail)-3:]
	}
	h.run.SampleKind(kind, map[string]any{"router": h.rn, "case": h.caseIdx, "ops_before": len(h.log) - len(tail), "history_tail": slices.Clone(tail)})
}

func setup(w *opdrv.World) map[string]*vclient.Client {
	cl := opdrv.StdClients(w.Store)
	for _, id := range ownerIDs {
		cl[id].ExtraScopes = []string{"api:read", "api:write"}
	}
	cl["web2"].TokenType = op.AccessTokenTypeJWT
	cl["devpub"].TokenType = op.AccessTokenTypeJWT
	// a second private_key_jwt client (overlap.go); both also register their key under one common key id, as
	// applications that number their keys do
	jwt2 := vclient.Confidential("jwt2", "", "https://jwt2.example/cb")
	jwt2.Auth = oidc.AuthMethodPrivateKeyJWT
	jwt2.ExtraScopes = []string{"api:read", "api:write"}
	w.Store.AddClient(jwt2)
	w.Store.AddClientKey("jwt2", opdrv.ClientKey("jwt2"))
	cl["jwt2"] = jwt2
	for _, id := range []string{"jwt", "jwt2"} {
		w.Store.AddClientKey(id, opdrv.ClientKey(id).With(sharedKid, jose.RS256, "sig"))
	}
	return cl
}

func newHist(run *ev.Run, caseIdx, router int) *hist {
	h := &hist{run: run, caseIdx: caseIdx, router: router, rn: opdrv.RouterNames[router], r: run.CaseRand(7, caseIdx), dereg: map[string]bool{}, jwtOK: map[string]string{}}
	h.allOff = h.r.IntN(12) == 0
	h.provKind = pick(h.r, provKinds...)
	h.build()
	return h
}

// build draws the storage dimensions and creates the primary world (allOff and provKind are set by the caller).
func (h *hist) build() {
	h.benign = h.r.IntN(3) == 0
	h.alias = h.r.IntN(3) == 0
	h.lax = h.r.IntN(3) == 0
	cfg := opdrv.DefaultConfig()
	cfg.GrantTypeRefreshToken = !h.allOff
	// the provider's signing key: mostly ES256 (cheap), RS256 for one history in eight
	h.sigKey = keys.Get("op-sig-es256", jose.ES256)
	if h.r.IntN(8) == 0 {
		h.sigKey = keys.Get("op-sig-1", jose.RS256)
	}
	h.w = opdrv.MustWorld(opdrv.Options{Config: cfg, Caps: vstore.Full, SigningKey: h.sigKey, WrapProvider: wrapFor(h.provKind)})
	h.w.Store.AliasRefresh = h.alias
	h.w.Store.SetLaxRefresh(h.lax)
	h.cl = setup(h.w)
}

// close drops what the history registered outside its own objects.
func (h *hist) close() {
	h.w.Store.SetLaxRefresh(false)
	h.w.Store.SetGate(nil)
}

func (h *hist) offWorld() *opdrv.World {
	if h.allOff {
		return h.w
	}
	if h.wOff == nil {
		cfg := opdrv.DefaultConfig()
		cfg.GrantTypeRefreshToken = false
		h.wOff = opdrv.MustWorld(opdrv.Options{Config: cfg, Caps: vstore.Full, Store: h.w.Store, SigningKey: h.sigKey, WrapProvider: wrapFor(h.provKind)})
	}
	return h.wOff
}

func (h *hist) authFor(c *vclient.Client) opdrv.ClientAuth {
	if c.Auth == oidc.AuthMethodPrivateKeyJWT {
		if h.jwtOK[c.ID] == "" {
			h.jwtOK[c.ID] = h.w.ClientAssertion(opdrv.ClientKey(c.ID), c.ID)
		}
		return opdrv.AssertionAuth(h.jwtOK[c.ID])
	}
	return h.w.AuthFor(c)
}

// ---------- original grants ----------

func (h *hist) mint() { h.mintFor(pick(h.r, ownerIDs...)) }

func (h *hist) mintFor(clientID string) {
	r, w := h.r, h.w
	c := h.cl[clientID]
	user := pick(r, "user-1", "user-2")
	scope := pick(r, originScopes...)
	k := len(h.chains)
	authTime := time.Now().Add(-time.Duration(10+7*k) * time.Minute).Truncate(time.Second)
	extraAud := fmt.Sprintf("api-%d", k)
	via := "code"
	var resp *opdrv.Resp
	if len(c.Redirects) == 0 {
		via = "device"
		resp = w.Post(h.router, "/device_authorization", url.Values{"scope": {scope}}, h.authFor(c))
		if h.panicked(resp) {
			return
		}
		dc := resp.Str("device_code")
		if dc == "" {
			h.run.Count("ops", "mint_failed:device_authorization")
			h.log = append(h.log, opLog{Op: "mint", Detail: "device client=" + c.ID, Result: resp.Brief()})
			return
		}
		w.Store.ApproveDevice(dc, user)
		w.Store.EditDevice(dc, func(d *vstore.Device) { d.AuthTime = authTime })
		resp = w.Token(h.router, url.Values{"grant_type": {gtDevice}, "device_code": {dc}}, h.authFor(c))
	} else {
		p := opdrv.AuthParams{ClientID: c.ID, RedirectURI: c.Redirects[0], ResponseType: "code", Scope: scope, State: "st", Nonce: fmt.Sprintf("n%d", k)}
		verifier := ""
		if c.Auth == oidc.AuthMethodNone {
			verifier = fmt.Sprintf("verifier-%d-0123456789012345678901234567890123456789", k)
			p.Challenge, p.ChallengeMethod = opdrv.S256(verifier), "S256"
		}
		id, aresp := w.Authorize(h.router, p)
		if h.panicked(aresp) {
			return
		}
		if id == "" {
			h.run.Count("ops", "mint_failed:authorize")
			h.log = append(h.log, opLog{Op: "mint", Detail: "code client=" + c.ID, Result: aresp.Brief()})
			return
		}
		w.Store.CompleteLogin(id, user)
		w.Store.EditAuthReq(id, func(a *vstore.AuthReq) { a.AuthTime = authTime; a.Audience = []string{c.ID, extraAud} })
		cb := w.Callback(h.router, id)
		if h.panicked(cb) {
			return
		}
		code := opdrv.DecodeAuthResponse(cb).Params.Get("code")
		if code == "" {
			h.run.Count("ops", "mint_failed:callback")
			h.log = append(h.log, opLog{Op: "mint", Detail: "code client=" + c.ID, Result: cb.Brief()})
			return
		}
		resp = w.ExchangeCode(h.router, code, c.Redirects[0], verifier, h.authFor(c))
	}
	if h.panicked(resp) {
		return
	}
	toks := opdrv.DecodeTokens(resp)
	detail := fmt.Sprintf("%s client=%s user=%s scope=%q", via, c.ID, user, scope)
	if toks == nil || toks.Refresh == "" {
		if h.dereg[c.ID] {
			h.run.Count("ops", "mint_no_refresh_token:deregistered")
		} else {
			h.run.Count("ops", "mint_failed:token")
		}
		h.log = append(h.log, opLog{Op: "mint", Detail: detail, Result: resp.Brief()})
		return
	}
	rec, ok := w.Store.RefreshRecord(toks.Refresh)
	if !ok {
		h.violated("refresh-token-not-from-storage", "the refresh_token of an original grant is not one the storage minted")
		return
	}
	ch := &chain{id: k, client: c.ID, via: via, sub: rec.Subject, aud: sortedSet(rec.Audience), authTime: rec.AuthTime, origin: noEmpty(rec.Scopes)}
	t := &tok{s: toks.Refresh, ch: ch, granted: noEmpty(rec.Scopes), live: true, access: toks.Access}
	ch.toks = append(ch.toks, t)
	h.chains = append(h.chains, ch)
	h.toks = append(h.toks, t)
	h.last = ch
	h.run.Count("ops", "mint:"+via)
	h.run.Count("minted_for", c.ID)
	h.log = append(h.log, opLog{Op: "mint", Detail: detail, Result: fmt.Sprintf("refresh_token=%s sub=%s aud=%v auth_time=%d granted=%v", toks.Refresh, rec.Subject, rec.Audience, rec.AuthTime.Unix(), rec.Scopes)})
	if rec.Subject != user || rec.ClientID != c.ID || !rec.AuthTime.Equal(authTime) {
		// not the subject of C07 (C04/C06/C16 judge original grants); the model simply takes what the storage recorded
		h.run.Count("ops", "mint_record_differs_from_login")
	}
}

// ---------- credentials ----------

type cred struct {
	kind    string
	auth    opdrv.ClientAuth
	formID  string   // additional client_id form member
	authn   []string // clients for which a valid credential is presented
	named   []string // client ids named anywhere in the request
	plain   bool     // the one registered method, nothing else
	literal string
}

func (h *hist) genCred(presenter, owner string) cred {
	r := h.r
	pc := h.cl[presenter]
	if pc == nil {
		if r.IntN(2) == 0 {
			return cred{kind: "unknown-client-idonly", auth: opdrv.IDOnly(presenter), named: []string{presenter}}
		}
		return cred{kind: "unknown-client-basic", auth: opdrv.BasicAuth(presenter, "secret-web"), named: []string{presenter}}
	}
	wrongSecret := func() string {
		if oc := h.cl[owner]; oc != nil && oc.Secret != "" && oc.Secret != pc.Secret && r.IntN(2) == 0 {
			return oc.Secret
		}
		return "not-the-secret"
	}
	var k string
	switch pc.Auth {
	case oidc.AuthMethodNone:
		k = pick(r, "ok", "ok", "ok", "ok", "superfluous-secret")
		if k == "ok" {
			return cred{kind: k, auth: opdrv.IDOnly(pc.ID), named: []string{pc.ID}, plain: true}
		}
		return cred{kind: k, auth: opdrv.PostAuth(pc.ID, "some-secret"), named: []string{pc.ID}}
	case oidc.AuthMethodPrivateKeyJWT:
		k = pick(r, "ok", "ok", "ok", "ok", "wrong-key", "none", "ok+owner-id")
		if k == "ok+owner-id" && (owner == "" || owner == presenter) {
			k = "ok"
		}
		switch k {
		case "ok":
			return cred{kind: k, auth: h.authFor(pc), authn: []string{pc.ID}, named: []string{pc.ID}, plain: true}
		case "wrong-key":
			if h.jwtBad == "" {
				h.jwtBad = h.w.ClientAssertion(opdrv.ClientKey("svc").With(opdrv.ClientKey(pc.ID).Kid, "RS256", "sig"), pc.ID)
			}
			return cred{kind: k, auth: opdrv.AssertionAuth(h.jwtBad), named: []string{pc.ID}}
		case "none":
			return cred{kind: k, auth: opdrv.IDOnly(pc.ID), named: []string{pc.ID}}
		}
		return cred{kind: k, auth: h.authFor(pc), formID: owner, authn: []string{pc.ID}, named: []string{pc.ID, owner}}
	}
	k = pick(r, "ok", "ok", "ok", "ok", "ok", "wrong-secret", "none", "other-method", "ok+owner-id")
	if k == "ok+owner-id" && (owner == "" || owner == presenter) {
		k = "ok"
	}
	own := func(secret string) opdrv.ClientAuth {
		if pc.Auth == oidc.AuthMethodPost {
			return opdrv.PostAuth(pc.ID, secret)
		}
		return opdrv.BasicAuth(pc.ID, secret)
	}
	switch k {
	case "ok":
		return cred{kind: k, auth: own(pc.Secret), authn: []string{pc.ID}, named: []string{pc.ID}, plain: true}
	case "wrong-secret":
		return cred{kind: k, auth: own(wrongSecret()), named: []string{pc.ID}}
	case "none":
		return cred{kind: k, auth: opdrv.IDOnly(pc.ID), named: []string{pc.ID}}
	case "other-method":
		if pc.Auth == oidc.AuthMethodPost {
			return cred{kind: k, auth: opdrv.BasicAuth(pc.ID, pc.Secret), authn: []string{pc.ID}, named: []string{pc.ID}}
		}
		return cred{kind: k, auth: opdrv.PostAuth(pc.ID, pc.Secret), authn: []string{pc.ID}, named: []string{pc.ID}}
	}
	// valid Basic credentials of the presenter plus the owner's client_id in the form
	return cred{kind: k, auth: opdrv.BasicAuth(pc.ID, pc.Secret), formID: owner, authn: []string{pc.ID}, named: []string{pc.ID, owner}}
}

// entitled: the set of clients the request is authenticated as, or (public clients) identified as.
func (h *hist) entitled(c cred) []string {
	out := slices.Clone(c.authn)
	for _, n := range c.named {
		if pc := h.cl[n]; pc != nil && pc.Auth == oidc.AuthMethodNone && !slices.Contains(out, n) {
			out = append(out, n)
		}
	}
	return out
}

func hasGrant(c *vclient.Client, g oidc.GrantType) bool {
	return c != nil && slices.Contains(c.Grants, g)
}

// ---------- harness-side events ----------

func (h *hist) deregister() {
	var cands []string
	for _, t := range h.toks {
		if t.live && !h.dereg[t.ch.client] && !slices.Contains(cands, t.ch.client) {
			cands = append(cands, t.ch.client)
		}
	}
	if len(cands) == 0 {
		return
	}
	id := pick(h.r, cands...)
	cp := *h.cl[id]
	cp.Grants = slices.DeleteFunc(slices.Clone(cp.Grants), func(g oidc.GrantType) bool { return g == oidc.GrantTypeRefreshToken })
	h.w.Store.AddClient(&cp)
	h.cl[id] = &cp
	h.dereg[id] = true
	h.run.Count("ops", "deregister_refresh_grant")
	h.log = append(h.log, opLog{Op: "deregister", Detail: "client " + id + " re-registered without the refresh_token grant", Result: fmt.Sprint(cp.Grants)})
}

// ---------- one refresh request ----------

func (h *hist) liveToks() []*tok {
	var out []*tok
	for _, t := range h.toks {
		if t.live {
			out = append(out, t)
		}
	}
	return out
}

func (h *hist) refresh() {
	r := h.r
	// --- the token ---
	var t *tok
	tokKind := "current"
	presented := ""
	live := h.liveToks()
	var deadToks []*tok
	for _, x := range h.toks {
		if !x.live {
			deadToks = append(deadToks, x)
		}
	}
	calm := func() bool { return h.benign && r.IntN(5) != 0 }
	follow := h.follow
	h.follow = nil
	if follow != nil && !follow.live {
		follow = nil
	}
	if follow != nil {
		t = follow
	} else if calm() {
		// keep the default: a current token
	} else if c := r.IntN(100); c < 9 {
		tokKind = pick(r, "unknown:garbage", "unknown:nearmiss", "unknown:access-token", "unknown:missing", "unknown:suffix")
	} else if c < 22 {
		if len(deadToks) > 0 {
			t = pick(r, deadToks...)
			tokKind = t.dead
		}
	} else if c < 25 && len(live) > 0 {
		t = pick(r, live...)
		h.w.Store.ExpireRefresh(t.s)
		t.live, t.dead = false, "expired"
		tokKind = "expired"
		h.run.Count("ops", "expire_refresh_token")
		h.log = append(h.log, opLog{Op: "expire", Detail: "the storage's expiry of refresh token " + t.s + " is moved into the past", Result: "ok"})
	}
	if t == nil && !strings.HasPrefix(tokKind, "unknown") {
		if len(live) == 0 {
			tokKind = "unknown:garbage"
		} else if h.last != nil && h.last.toks[len(h.last.toks)-1].live && r.IntN(100) < 55 {
			t = h.last.toks[len(h.last.toks)-1]
		} else {
			t = pick(r, live...)
		}
	}
	// reference token for unknown kinds (decides the nominal owner and the scope lists)
	ref := t
	if ref == nil {
		ref = pick(r, h.toks...)
		switch tokKind {
		case "unknown:garbage":
			presented = "rt-999999-QUFBQUFBQUE"
		case "unknown:nearmiss":
			b := []byte(ref.s)
			if b[len(b)-1] == 'A' {
				b[len(b)-1] = 'B'
			} else {
				b[len(b)-1] = 'A'
			}
			presented = string(b)
		case "unknown:access-token":
			presented = ref.access
		case "unknown:suffix":
			presented = ref.s + " "
		case "unknown:missing":
			presented = ""
		}
	} else {
		presented = t.s
	}
	owner := ref.ch.client
	// --- the presenter and its credentials ---
	presenter := owner
	if follow == nil && r.IntN(100) < 28 && !calm() {
		presenter = pick(r, presenterIDs...)
	}
	cr := h.genCred(presenter, owner)
	for i := 0; i < 40 && follow != nil && !cr.plain; i++ {
		cr = h.genCred(presenter, owner)
	}
	for i := 0; i < 4 && !cr.plain && h.cl[presenter] != nil && calm(); i++ {
		cr = h.genCred(presenter, owner)
	}
	// --- the scope list ---
	scopeKind, scopePresent, scopeVal := genScope(r, ref.granted, ref.ch.origin)
	for i := 0; i < 4 && !plainScopeKinds[scopeKind] && calm(); i++ {
		scopeKind, scopePresent, scopeVal = genScope(r, ref.granted, ref.ch.origin)
	}
	for i := 0; i < 40 && follow != nil && !plainScopeKinds[scopeKind]; i++ {
		scopeKind, scopePresent, scopeVal = genScope(r, ref.granted, ref.ch.origin)
	}
	// --- provider support ---
	w := h.w
	enabled := !h.allOff
	if enabled && follow == nil && r.IntN(14) == 0 && !calm() {
		w, enabled = h.offWorld(), false
	}

	form := url.Values{"grant_type": {"refresh_token"}}
	if tokKind != "unknown:missing" {
		form.Set("refresh_token", presented)
	}
	if scopePresent {
		form.Set("scope", scopeVal)
	}
	if cr.formID != "" {
		form.Set("client_id", cr.formID)
	}
	liveBefore := t != nil && h.w.Store.RefreshLive(t.s)
	var storedBefore []string
	if t != nil {
		rec, _ := h.w.Store.RefreshRecord(t.s)
		storedBefore = rec.Scopes
	}
	// --- where the parameters travel: form body, URL query, or both ---
	pl := drawPlacement(r, follow != nil)
	query, body, hook := pl.split(form, cr.auth)
	path := "/oauth/token"
	if len(query) > 0 {
		path += "?" + query.Encode()
	}
	hreq := w.NewRequest("POST", path, body)
	hook(hreq)
	// --- trouble at the storage boundary while the request is served: a fault at one point, or a second request
	// with the same token served completely between this request's look-up and its rotation call ---
	dist := h.drawDisturbance(follow != nil || calm(), t)
	var rv *rival
	st := h.w.Store
	switch dist.kind {
	case "fault-at-call", "fault-at-method":
		st.Arm(dist.plan)
	case "concurrent-refresh":
		st.SetGate(func(method string, args ...string) {
			if method != "CreateAccessAndRefreshTokens" || len(args) == 0 || args[0] != t.s {
				return
			}
			st.SetGate(nil) // one shot: the rival's own rotation passes
			rv = h.serveRival(t, dist.rivalRouter)
		})
	}
	resp := w.Do(h.router, hreq)
	st.SetGate(nil)
	st.Arm(nil)
	journal := h.w.Store.JournalSince(resp.SeqStart)
	if rv != nil {
		// what the storage saw of the rival request is not part of this request
		journal = slices.DeleteFunc(journal, func(e vstore.Entry) bool { return e.Seq > rv.seqStart && e.Seq <= rv.seqEnd })
	}
	h.run.Eval()
	if h.dead {
		return // the rival request was a violation of its own
	}

	lit := map[string]string{"method": "POST", "query": query.Encode(), "body": body.Encode(), "placement": pl.String(), "auth": cr.auth.Kind, "auth_id": cr.auth.ID, "auth_secret": cr.auth.Secret, "refresh_enabled_at_provider": fmt.Sprint(enabled)}
	if cr.auth.Assertion != "" {
		lit["auth_assertion"] = cr.auth.Assertion
	}
	var jl []string
	var creates, createErrs, faults []vstore.Entry
	laxReturned := false // the storage's look-up handed a request back together with its error
	for _, e := range journal {
		if e.Fault {
			faults = append(faults, e)
			jl = append(jl, fmt.Sprintf("INJECTED FAULT at %s(%q, %q): %s", e.Method, e.A, e.B, e.Err))
		}
		if strings.HasPrefix(e.Method, "Create") {
			jl = append(jl, fmt.Sprintf("%s(a=%q, current=%q, scopes=%q) -> %q err=%q", e.Method, e.A, e.B, e.C, e.Ret, e.Err))
			if e.Err == "" {
				creates = append(creates, e)
			} else {
				createErrs = append(createErrs, e)
			}
		} else if e.Method == "TokenRequestByRefreshToken" {
			jl = append(jl, fmt.Sprintf("%s(%q) err=%q %s", e.Method, e.A, e.Err, e.Ret))
			laxReturned = laxReturned || (e.Ret == vstore.LaxGrantNote && e.Err != "")
		}
	}
	rel := "own"
	if presenter != owner {
		rel = "foreign"
	}
	detail := fmt.Sprintf("token=%s(chain %d pos %d of %s) presenter=%s(%s) cred=%s scope=%s granted=%v", tokKind, ref.ch.id, ref.pos, owner, presenter, rel, cr.kind, scopeKind, ref.granted)
	if dist.kind != "none" {
		detail += " storage=" + dist.String()
		if rv != nil {
			detail += " (the preceding log entry was served while this request was parked at the entrance of its CreateAccessAndRefreshTokens call)"
		}
	}
	h.log = append(h.log, opLog{Op: "refresh", Request: lit, Detail: detail, Result: resp.Brief(), Journal: jl})
	if h.panicked(resp) {
		return
	}
	h.run.Count("token_kind", tokKind)
	h.run.Count("scope_kind", scopeKind)
	h.run.Count("cred_kind", cr.kind)
	h.run.Count("placement_grant_type", pl.gt)
	h.run.Count("placement_refresh_token", pl.rt)
	h.run.Count("placement_scope", pl.sc)
	h.run.Count("placement_credentials", pl.cred)
	h.run.Count("presenter", presenter+"/"+rel)
	h.run.Count("disturbance", dist.kind)
	if h.lax {
		switch {
		case laxReturned && len(faults) > 0 && faults[0].Method == "TokenRequestByRefreshToken":
			h.run.Count("lax_lookup", "request-returned-with-injected-error")
		case laxReturned:
			h.run.Count("lax_lookup", "request-returned-with-error:token-"+tokKind)
		default:
			h.run.Count("lax_lookup", "no-rejected-lookup-of-a-stored-token")
		}
	}
	faultAt := ""
	if len(faults) > 0 {
		faultAt = faults[0].Method
		h.run.Count("fault_fired_at", faultAt+"/"+faultKindNames[dist.plan.Kind])
	} else if dist.plan != nil {
		h.run.Count("fault_fired_at", "not-reached")
	}
	if dist.kind == "concurrent-refresh" {
		switch {
		case rv == nil:
			h.run.Count("concurrent_refresh", "rotation-call-not-reached")
		case rv.success:
			h.run.Count("concurrent_refresh", "rival-served-first:success")
		default:
			h.run.Count("concurrent_refresh", "rival-served-first:refused")
		}
	}
	h.run.CountN("journal_create_calls", h.rn, int64(len(creates)))

	// ---------- reference model ----------
	// the rival request was served completely before this request's rotation call: in the order in which the
	// storage was asked to rotate, this request presents a token that has been rotated away
	raceLost := rv != nil && rv.success
	clean := t != nil && !t.failed && !t.ch.suspect && len(faults) == 0 && rv == nil // no refused attempt touched the token (or a replay its chain) before, no trouble at the storage
	var refuse []string
	if !enabled {
		refuse = append(refuse, "grant-disabled")
	}
	if t == nil {
		refuse = append(refuse, "token-unknown")
	} else if raceLost {
		refuse = append(refuse, "token-rotated-by-concurrent-request")
	} else if !t.live {
		refuse = append(refuse, "token-"+t.dead)
	}
	ent := h.entitled(cr)
	ownerEntitled := slices.Contains(ent, owner)
	if t != nil {
		if !ownerEntitled {
			if presenter != owner {
				refuse = append(refuse, "foreign-client")
			} else {
				refuse = append(refuse, "bad-credential")
			}
		} else if !hasGrant(h.cl[owner], oidc.GrantTypeRefreshToken) {
			refuse = append(refuse, "client-not-registered-for-refresh")
		}
	} else if len(ent) == 0 {
		refuse = append(refuse, "bad-credential")
	}
	requested, wellFormed := scopeItems(scopeVal)
	if !scopePresent {
		requested, wellFormed = nil, true
	}
	if !subset(requested, ref.granted) {
		refuse = append(refuse, "scope-not-granted")
	}
	// What the statement's conditions rest on are the storage's answers: who the client is and what it is registered
	// for, whether its credential is good, whom the token was issued to with which scopes, and the new refresh token of
	// the rotation. A request during which the storage failed to give one of these answers cannot satisfy
	// "succeeds only for ... / only if ... / carries the storage's new refresh token".
	stmtReasons := len(refuse)
	for _, e := range faults {
		if decisiveCalls[e.Method] && e.Method != "CreateAccessAndRefreshTokens" && !slices.Contains(refuse, "storage-failed:"+e.Method) {
			refuse = append(refuse, "storage-failed:"+e.Method)
		}
	}
	rotated := slices.ContainsFunc(creates, func(e vstore.Entry) bool { return e.Method == "CreateAccessAndRefreshTokens" && e.B == presented })
	if !rotated && slices.ContainsFunc(createErrs, func(e vstore.Entry) bool { return e.Method == "CreateAccessAndRefreshTokens" }) {
		// the storage was asked to rotate and refused (injected fault, or its own "token is dead" after a lost race)
		refuse = append(refuse, "rotation-failed-in-storage")
	}
	refuse = orderReasons(refuse)

	toks := opdrv.DecodeTokens(resp)
	success := toks != nil && (toks.Access != "" || toks.ID != "" || toks.Refresh != "")
	pauth := "unknown"
	if pc := h.cl[presenter]; pc != nil {
		pauth = string(pc.Auth)
	}
	pos := ref.pos
	if pos > 3 {
		pos = 3
	}
	trouble := dist.kind
	if faultAt != "" {
		trouble = "fault:" + faultAt
	} else if rv != nil {
		trouble = fmt.Sprintf("concurrent-refresh:rival-success=%v", rv.success)
	} else if dist.kind != "none" {
		trouble = "not-reached"
	}
	h.run.Distinct(fmt.Sprintf("%s|%s/%v|%v/%v|%v|%s|%s|%s|%s|%s|%s|%s|%d|%v|%s", h.rn, pl.gt, pl.restBody(), h.alias, laxReturned, enabled, ref.ch.via, h.cl[owner].Auth, rel, pauth, cr.kind, tokKind, scopeKind, pos, h.dereg[owner], trouble))

	if success && len(creates) > 0 && !slices.ContainsFunc(creates, func(e vstore.Entry) bool { return strings.HasPrefix(e.A, "refresh") }) {
		// conflicting grant_type members: the request was served by another grant (judged by what the storage was
		// asked to create) - not a refresh, nothing for this property to judge; the presented token must still be untouched
		h.run.Count("outcome", "served_by_other_grant:"+pl.gt+":"+creates[0].A)
		if t != nil && liveBefore && !raceLost && !h.w.Store.RefreshLive(t.s) {
			h.violated("rotated-by-other-grant", "a request served by another grant ("+creates[0].A+") consumed the refresh token it carried")
		}
		return
	}
	if !success {
		// nothing may have been issued
		if len(creates) > 0 {
			// The one legal shape: nothing in the statement refuses the request, the storage rotated, and a LATER
			// storage call failed by injection (signing key, claims): the tokens exist in the storage and reach nobody.
			// The statement is silent about that -> grey. A creation AFTER the failed call, or in a request the
			// statement refuses, stays a violation.
			lastCreate := creates[len(creates)-1].Seq
			if len(faults) > 0 && stmtReasons == 0 && lastCreate < faults[0].Seq && len(creates) == 1 && rotated {
				h.run.Count("outcome", "grey_refused_after_rotation:fault-at:"+faultAt)
				h.run.Observed("fault-after-rotation:refused:" + h.rn)
				if t != nil && t.live && !h.w.Store.RefreshLive(t.s) {
					t.live, t.dead = false, "rotated" // the storage consumed it; its successor was handed to nobody
				}
			} else if resp.OAuthError() == "invalid_scope" {
				h.violated("issued-on-invalid_scope", "the request was answered invalid_scope but the storage journal shows a successful "+creates[0].Method)
				return
			} else {
				h.violated("issued-on-refusal", "the request was refused ("+resp.OAuthError()+") but the storage journal shows a successful "+creates[0].Method)
				return
			}
		}
		if len(createErrs) > 0 {
			h.run.Count("outcome", "refused_after_failed_create_call")
		}
		h.run.Count("refusal_status", fmt.Sprint(resp.Status))
		if t != nil && liveBefore && !raceLost && t.live && !h.w.Store.RefreshLive(t.s) {
			h.run.Count("outcome", "grey_token_burned_by_refused_request")
		}
		// a refused request must not have widened the grant the storage holds for the presented token
		// (a storage whose request object aliases the stored token is written to by SetCurrentScopes)
		if t != nil {
			rec, _ := h.w.Store.RefreshRecord(t.s)
			switch {
			case slices.Equal(rec.Scopes, storedBefore):
				h.run.Count("stored_grant_after_refusal", "unchanged")
			case subset(noEmpty(rec.Scopes), storedBefore):
				h.run.Count("stored_grant_after_refusal", "grey_narrowed")
			default:
				h.run.Count("stored_grant_after_refusal", "widened")
				h.flag("refused-request-changed-stored-grant", fmt.Sprintf("the request was refused (%s) but the grant the storage holds for the presented refresh token changed from %v to %v", resp.OAuthError(), storedBefore, rec.Scopes))
			}
		}
	}

	if len(refuse) > 0 {
		reasons := strings.Join(refuse, "+")
		h.run.Count("refuse_reason", reasons)
		if success {
			h.violated("success-despite:"+refuse[0], "the token endpoint issued tokens although the statement demands refusal: "+reasons)
			return
		}
		h.run.Count("refusal_error", refuse[0]+" -> "+resp.OAuthError())
		if laxReturned {
			// the library held a non-nil request next to the storage's error and refused all the same
			if len(faults) > 0 && faults[0].Method == "TokenRequestByRefreshToken" {
				h.run.Observed("lax-storage:request-with-injected-error:refused:" + h.rn)
			} else if t != nil && !t.live {
				h.run.Observed("lax-storage:request-with-error:" + t.dead + ":refused:" + h.rn)
				h.sample("lax-storage:rejected-token-returned-with-error")
			}
		}
		if t != nil && t.live && len(refuse) == 1 && refuse[0] == "scope-not-granted" {
			t.scopeRefused = true
			if r.IntN(10) < 7 {
				h.follow = t
			}
		}
		if t != nil {
			if t.live {
				t.failed = true
			} else {
				t.ch.suspect = true
			}
		}
		// "otherwise invalid_scope is returned": when the scope list is the only thing wrong with a plain request
		if len(refuse) == 1 && refuse[0] == "scope-not-granted" && wellFormed && cr.plain && presenter == owner && clean && pl.allBody() {
			if resp.OAuthError() != "invalid_scope" || resp.Status < 400 {
				h.violated("scope-refusal-not-invalid_scope", fmt.Sprintf("requested scopes %v are not a subset of the granted %v but the answer is %d %q, not invalid_scope", requested, ref.granted, resp.Status, resp.OAuthError()))
				return
			}
			h.run.Observed("refused-invalid_scope:" + h.rn)
			h.sample("invalid_scope")
			if scopeKind == "regrow" {
				h.run.Observed("refused-regrow:" + h.rn)
				h.sample("regrow-refused")
			}
		}
		if stmtReasons == 0 && cr.plain && presenter == owner && plainScopeKinds[scopeKind] {
			// a request that would otherwise have to be served
			h.run.Count("outcome", "refused_for_storage_trouble:"+strings.Join(refuse, "+")+" -> "+resp.OAuthError())
		}
		switch refuse[0] {
		case "token-rotated-by-concurrent-request":
			h.run.Observed("concurrent-refresh:loser-refused:" + h.rn)
			h.sample("concurrent-refresh:second-rotation-refused")
		case "rotation-failed-in-storage":
			// the look-up succeeded, the rotation call itself failed
			h.run.Observed("fault-at-rotation:refused:" + h.rn)
			h.sample("fault-at-rotation")
		case "storage-failed:TokenRequestByRefreshToken":
			h.run.Observed("fault-at-lookup:refused:" + h.rn)
		case "storage-failed:GetClientByClientID", "storage-failed:AuthorizeClientIDSecret", "storage-failed:GetKeyByIDAndClientID":
			h.run.Observed("fault-at-client-authentication:refused:" + h.rn)
		case "grant-disabled":
			h.run.Observed("refused-disabled:" + h.rn)
			h.sample("refresh-disabled")
		case "token-rotated":
			h.run.Observed("refused-replay:" + h.rn)
			h.sample("replay-after-rotation")
		case "foreign-client":
			if len(cr.authn) > 0 {
				h.run.Observed("refused-foreign-authenticated:" + h.rn)
				h.sample("foreign-client")
			}
		case "bad-credential":
			h.run.Observed("refused-unauthenticated:" + h.rn)
		case "client-not-registered-for-refresh":
			if pl.gt == "query" {
				h.run.Observed("grant_type-in-query-only:refused-deregistered:" + h.rn)
				h.sample("grant_type-in-query-only:deregistered-client")
			}
			h.run.Observed("refused-deregistered:" + h.rn)
			h.sample("deregistered-client")
		}
		return
	}

	// ---------- nothing in the statement demands refusal ----------
	if !success {
		t.failed = true
		must := cr.plain && presenter == owner && plainScopeKinds[scopeKind] && clean && pl.allBody()
		if !must {
			if len(faults) > 0 {
				h.run.Count("outcome", "grey_refused:storage-fault-at:"+faultAt)
				return
			}
			if rv != nil {
				h.run.Count("outcome", "grey_refused:after-refused-concurrent-request")
				return
			}
			if cr.plain && presenter == owner && plainScopeKinds[scopeKind] && clean {
				h.run.Count("outcome", "grey_refused:placement-grant_type-"+pl.gt)
				return
			}
			h.run.Count("outcome", "grey_refused:"+greyWhy(cr, presenter == owner, scopeKind, ref))
			return
		}
		h.violated("must-succeed", "a plainly conforming refresh request of the token's own client was refused: "+resp.Brief())
		return
	}
	h.run.Count("outcome", "success")
	if len(faults) > 0 {
		// the failed call is none the statement's conditions rest on (those are refusal reasons above)
		h.run.Count("outcome", "grey_success_although_storage_call_failed:"+faultAt)
	}
	if rv != nil {
		h.run.Count("outcome", "success_after_refused_concurrent_request")
	}
	h.run.Count("success_placement_grant_type", pl.gt)
	if pl.gt == "query" && cr.plain && presenter == owner {
		h.run.Observed("grant_type-in-query-only:success:" + h.rn)
		h.sample("grant_type-in-query-only:success")
	}
	if t.scopeRefused {
		h.run.Count("outcome", "success_after_scope_refusal_of_same_token")
		h.run.Observed("scope-refused-then-success:" + h.rn)
		if h.alias {
			h.run.Observed("aliasing-storage:scope-refused-then-success:" + h.rn)
			h.sample("aliasing-storage:refused-superset-then-plain-refresh")
		}
	}
	h.run.Count("success_by", owner+"/"+cr.kind+"/"+scopeKind)
	h.run.Observed("success:" + h.rn)
	switch h.cl[owner].Auth {
	case oidc.AuthMethodNone:
		h.run.Observed("success-public:" + h.rn)
	case oidc.AuthMethodPrivateKeyJWT:
		h.run.Observed("success-private_key_jwt:" + h.rn)
		if h.provKind != "stock" {
			h.run.Observed("app-provider:" + h.provKind + ":success-private_key_jwt:" + h.rn)
		}
	}
	h.run.Count("success_on_provider", h.provKind)

	nt, newRec, atRec, ok := h.acceptSuccess(t, presented, toks, creates, jl)
	if !ok {
		return
	}
	if len(requested) > 0 && wellFormed && !subset(newRec.Scopes, requested) {
		h.run.Count("outcome", "grey_issued_wider_than_requested")
	}
	if nt.pos >= 4 {
		h.run.Observed("chain>=4:" + h.rn)
		h.sample("chain")
	}
	if h.cl[owner].Auth == oidc.AuthMethodNone {
		h.sample("public-client")
	}
	if scopeKind == "subset" {
		h.sample("narrowing")
	}
	// ---- observation through the library's own endpoints (sampled) ----
	if r.IntN(3) == 0 {
		h.observe(nt, atRec)
	}
}

// ---------- trouble at the storage boundary ----------

// storageCalls are the op.Storage methods a refresh request can reach (fault-at-method draws from them; fault-at-call
// numbers the calls of the request and needs no list).
var storageCalls = []string{
	"GetClientByClientID", "AuthorizeClientIDSecret", "GetKeyByIDAndClientID", "TokenRequestByRefreshToken",
	"CreateAccessAndRefreshTokens", "CreateAccessAndRefreshTokens", "CreateAccessAndRefreshTokens", "CreateAccessToken",
	"SigningKey", "SignatureAlgorithms", "SetUserinfoFromScopes", "GetPrivateClaimsFromScopes",
}

// decisiveCalls give the answers the statement's conditions rest on: the client and its registration, its
// credential (secret / key of the assertion), the token's owner and granted scopes, the rotation.
var decisiveCalls = map[string]bool{
	"GetClientByClientID": true, "AuthorizeClientIDSecret": true, "GetKeyByIDAndClientID": true,
	"TokenRequestByRefreshToken": true, "CreateAccessAndRefreshTokens": true,
}

var faultKindNames = map[vstore.FaultKind]string{vstore.FaultPlain: "plain-error", vstore.FaultDeadline: "deadline-exceeded", vstore.FaultOIDCServerError: "oidc-server_error"}

type disturbance struct {
	kind        string // none | fault-at-call | fault-at-method | concurrent-refresh
	plan        *vstore.FaultPlan
	rivalRouter int
}

func (d disturbance) String() string {
	switch d.kind {
	case "fault-at-call":
		return fmt.Sprintf("fault(%s) at storage call #%d of the request", faultKindNames[d.plan.Kind], d.plan.At)
	case "fault-at-method":
		return fmt.Sprintf("fault(%s) at every %s call of the request", faultKindNames[d.plan.Kind], d.plan.Method)
	case "concurrent-refresh":
		return "a second plain request of the owner with the same token (router " + opdrv.RouterNames[d.rivalRouter] + ") is served completely when this request enters CreateAccessAndRefreshTokens"
	}
	return d.kind
}

func (h *hist) drawDisturbance(quiet bool, t *tok) disturbance {
	d := disturbance{kind: "none"}
	if quiet {
		return d
	}
	r := h.r
	switch c := r.IntN(100); {
	case c < 6:
		d.kind, d.plan = "fault-at-call", &vstore.FaultPlan{At: 1 + r.IntN(9), Kind: vstore.FaultKind(r.IntN(int(vstore.NumFaultKinds)))}
	case c < 13:
		d.kind, d.plan = "fault-at-method", &vstore.FaultPlan{Method: pick(r, storageCalls...), Kind: vstore.FaultKind(r.IntN(int(vstore.NumFaultKinds)))}
	case c < 18:
		if t != nil && t.live {
			d.kind, d.rivalRouter = "concurrent-refresh", r.IntN(2)
		}
	}
	return d
}

// rival is a second refresh request with the same token, served completely while the first one is parked at the
// entrance of its rotation call.
type rival struct {
	seqStart, seqEnd int64
	success          bool
}

// serveRival runs on the handler's goroutine of the parked request (vstore gate). The request is a plain, all-body
// request of the token's own client without a scope list; at this point the token is live in the model and in the
// storage (the parked request's look-up succeeded), so the sequential model judges it like any other request.
func (h *hist) serveRival(t *tok, router int) *rival {
	ch := t.ch
	oc := h.cl[ch.client]
	rn := opdrv.RouterNames[router]
	form := url.Values{"grant_type": {"refresh_token"}, "refresh_token": {t.s}}
	auth := h.authFor(oc)
	resp := h.w.Token(router, form, auth)
	rv := &rival{seqStart: resp.SeqStart, seqEnd: resp.SeqEnd}
	h.run.Eval()
	var jl []string
	var creates []vstore.Entry
	for _, e := range h.w.Store.JournalSince(resp.SeqStart) {
		if e.Seq > resp.SeqEnd {
			break
		}
		if strings.HasPrefix(e.Method, "Create") {
			jl = append(jl, fmt.Sprintf("%s(a=%q, current=%q, scopes=%q) -> %q err=%q", e.Method, e.A, e.B, e.C, e.Ret, e.Err))
			if e.Err == "" {
				creates = append(creates, e)
			}
		} else if e.Method == "TokenRequestByRefreshToken" {
			jl = append(jl, fmt.Sprintf("%s(%q) err=%q", e.Method, e.A, e.Err))
		}
	}
	lit := map[string]string{"method": "POST", "router": rn, "body": form.Encode(), "auth": auth.Kind, "auth_id": auth.ID, "auth_secret": auth.Secret}
	if auth.Assertion != "" {
		lit["auth_assertion"] = auth.Assertion
	}
	h.log = append(h.log, opLog{Op: "refresh(concurrent)", Request: lit, Detail: fmt.Sprintf("token=current(chain %d pos %d of %s) presenter=%s(own) cred=ok scope=absent granted=%v; served on router %s while the NEXT log entry's request is parked at the entrance of its CreateAccessAndRefreshTokens call", ch.id, t.pos, ch.client, ch.client, t.granted, rn), Result: resp.Brief(), Journal: jl})
	if h.panicked(resp) {
		return rv
	}
	var refuse []string
	if h.allOff {
		refuse = append(refuse, "grant-disabled")
	}
	if !hasGrant(oc, oidc.GrantTypeRefreshToken) {
		refuse = append(refuse, "client-not-registered-for-refresh")
	}
	toks := opdrv.DecodeTokens(resp)
	rv.success = toks != nil && (toks.Access != "" || toks.ID != "" || toks.Refresh != "")
	if !rv.success {
		if len(creates) > 0 {
			h.violated("issued-on-refusal", "the request was refused ("+resp.OAuthError()+") but the storage journal shows a successful "+creates[0].Method)
			return rv
		}
		if len(refuse) == 0 && !t.failed && !ch.suspect {
			h.violated("must-succeed", "a plainly conforming refresh request of the token's own client (served while another request with the same token had only looked the token up) was refused: "+resp.Brief())
			return rv
		}
		t.failed = true
		return rv
	}
	if len(refuse) > 0 {
		h.violated("success-despite:"+refuse[0], "the token endpoint issued tokens although the statement demands refusal: "+strings.Join(refuse, "+"))
		return rv
	}
	if _, _, _, ok := h.acceptSuccess(t, t.s, toks, creates, jl); ok {
		h.run.Observed("concurrent-refresh:rival-success:" + h.rn)
	}
	return rv
}

// acceptSuccess judges a successful refresh response against the statement (rotation hand-over, the storage's new
// refresh token, binding to the original grant, scope never grows) and, when everything holds, advances the model:
// t is rotated away, the new token joins the chain. ok=false: a violation (or harness bug) was reported.
func (h *hist) acceptSuccess(t *tok, presented string, toks *opdrv.Tokens, creates []vstore.Entry, jl []string) (nt *tok, newRec vstore.Refresh, atRec vstore.Token, ok bool) {
	// ---- rotation hand-over: exactly one CreateAccessAndRefreshTokens(current = presented) ----
	if len(creates) != 1 || creates[0].Method != "CreateAccessAndRefreshTokens" || creates[0].B != presented {
		h.violated("rotation-not-handed-over", fmt.Sprintf("success, but the journal does not show exactly one CreateAccessAndRefreshTokens(currentRefreshToken = presented token): %v", jl))
		return nil, newRec, atRec, false
	}
	ret := strings.SplitN(creates[0].Ret, "|", 2)
	if len(ret) != 2 || toks.Refresh != ret[1] {
		h.violated("refresh-token-not-from-storage", fmt.Sprintf("the response's refresh_token %q is not the one the storage minted (%q)", toks.Refresh, creates[0].Ret))
		return nil, newRec, atRec, false
	}
	if h.w.TokenID(toks.Access) != ret[0] {
		h.violated("access-token-not-from-storage", fmt.Sprintf("the response's access_token resolves to %q, the storage minted %q", h.w.TokenID(toks.Access), ret[0]))
		return nil, newRec, atRec, false
	}
	ch := t.ch
	wantA := "refresh|" + ch.client + "|" + ch.sub
	if creates[0].A != wantA {
		h.violated("token-request-binding", fmt.Sprintf("the token request handed to the storage is %q, the presented token belongs to %q", creates[0].A, wantA))
		return nil, newRec, atRec, false
	}
	var ok1, ok2 bool
	newRec, ok1 = h.w.Store.RefreshRecord(ret[1])
	atRec, ok2 = h.w.Store.TokenRecord(ret[0])
	if !ok1 || !ok2 {
		h.run.HarnessBug("journaled tokens not found in the store")
		h.dead = true
		return nil, newRec, atRec, false
	}
	// ---- the new tokens keep subject, audience, authentication time (and client) ----
	if f := bindingDiff(ch, newRec.ClientID, newRec.Subject, newRec.Audience, newRec.AuthTime.Unix(), 0); f != "" {
		h.violated("refresh-token-binding:"+f, fmt.Sprintf("new refresh token: client=%s sub=%s aud=%v auth_time=%d; original grant: client=%s sub=%s aud=%v auth_time=%d", newRec.ClientID, newRec.Subject, newRec.Audience, newRec.AuthTime.Unix(), ch.client, ch.sub, ch.aud, ch.authTime.Unix()))
		return nil, newRec, atRec, false
	}
	if f := bindingDiff(ch, atRec.ClientID, atRec.Subject, atRec.Audience, atRec.AuthTime.Unix(), 0); f != "" {
		h.violated("access-token-binding:"+f, fmt.Sprintf("new access token: client=%s sub=%s aud=%v auth_time=%d; original grant: client=%s sub=%s aud=%v auth_time=%d", atRec.ClientID, atRec.Subject, atRec.Audience, atRec.AuthTime.Unix(), ch.client, ch.sub, ch.aud, ch.authTime.Unix()))
		return nil, newRec, atRec, false
	}
	if toks.ID == "" {
		h.run.Count("outcome", "grey_no_id_token")
	} else {
		idc, err := h.w.VerifyWithOPKey(toks.ID)
		if err != nil {
			h.violated("id-token-unverifiable", "the id_token of the refresh response does not verify under the provider key: "+err.Error())
			return nil, newRec, atRec, false
		}
		azp, _ := idc["azp"].(string)
		sub, _ := idc["sub"].(string)
		at, _ := idc["auth_time"].(float64)
		if f := bindingDiff(ch, azp, sub, audList(idc["aud"]), int64(at), 1); f != "" {
			if f == "sub" && sub == "" {
				f = "sub-missing"
			}
			h.flag("id-token-binding:"+f, fmt.Sprintf("new id_token: azp=%v sub=%v aud=%v auth_time=%v; original grant: client=%s sub=%s aud=%v auth_time=%d", idc["azp"], idc["sub"], idc["aud"], idc["auth_time"], ch.client, ch.sub, ch.aud, ch.authTime.Unix()))
			h.run.Count("checked", "id_token_claims_differ:"+f)
		} else {
			h.run.Count("checked", "id_token_claims")
		}
	}
	if strings.Count(toks.Access, ".") == 2 {
		ac, err := h.w.VerifyWithOPKey(toks.Access)
		if err != nil {
			h.violated("jwt-access-token-unverifiable", "the JWT access token of the refresh response does not verify under the provider key: "+err.Error())
			return nil, newRec, atRec, false
		}
		sub, _ := ac["sub"].(string)
		cid, _ := ac["client_id"].(string)
		aud := audList(ac["aud"])
		if !slices.Contains(aud, ch.client) {
			aud = append(aud, ch.client)
		}
		if f := bindingDiff(ch, cid, sub, aud, ch.authTime.Unix(), 0); f != "" {
			h.violated("jwt-access-token-binding:"+f, fmt.Sprintf("new JWT access token: client_id=%v sub=%v aud=%v; original grant: client=%s sub=%s aud=%v", ac["client_id"], ac["sub"], ac["aud"], ch.client, ch.sub, ch.aud))
			return nil, newRec, atRec, false
		}
		h.run.Count("checked", "jwt_access_token_claims")
	}
	// ---- the granted scope never grows ----
	respScope, _ := scopeItems(toks.Scope)
	for _, x := range []struct {
		what string
		got  []string
	}{{"refresh-token", newRec.Scopes}, {"access-token", atRec.Scopes}, {"response", respScope}} {
		// an empty item (from malformed spacing) is not a scope
		got := slices.DeleteFunc(slices.Clone(x.got), func(s string) bool { return s == "" })
		if !subset(got, t.granted) || !subset(got, ch.origin) {
			h.violated("scope-grew:"+x.what, fmt.Sprintf("scope of the new %s is %v; the presented token was granted %v (original grant %v)", x.what, x.got, t.granted, ch.origin))
			return nil, newRec, atRec, false
		}
	}
	if len(sortedSet(newRec.Scopes)) < len(sortedSet(t.granted)) {
		ch.narrowed++
		h.run.Count("outcome", "success_narrowing")
		if ch.narrowed >= 2 {
			h.run.Observed("narrowed-twice:" + h.rn)
		}
	}
	// ---- model update ----
	t.live, t.dead = false, "rotated"
	nt = &tok{s: toks.Refresh, ch: ch, pos: t.pos + 1, granted: noEmpty(newRec.Scopes), live: true, access: toks.Access}
	ch.toks = append(ch.toks, nt)
	h.toks = append(h.toks, nt)
	h.last = ch
	return nt, newRec, atRec, true
}

func greyWhy(c cred, own bool, scopeKind string, t *tok) string {
	switch {
	case !own:
		return "presenter-is-not-the-owner"
	case !c.plain:
		return "cred-" + c.kind
	case !plainScopeKinds[scopeKind]:
		return "scope-" + scopeKind
	case t.ch.suspect:
		return "after-replay-in-chain"
	}
	return "after-failed-attempt"
}

// noEmpty copies a recorded scope list without empty items (an empty item is not a scope).
func noEmpty(xs []string) []string {
	return slices.DeleteFunc(slices.Clone(xs), func(s string) bool { return s == "" })
}

func audList(v any) []string {
	switch a := v.(type) {
	case string:
		return []string{a}
	case []any:
		var out []string
		for _, x := range a {
			if s, ok := x.(string); ok {
				out = append(out, s)
			} else {
				out = append(out, fmt.Sprint(x))
			}
		}
		return out
	}
	return nil
}

// bindingDiff names the first field in which new tokens differ from the original grant ("" = none).
func bindingDiff(ch *chain, client, sub string, aud []string, authTime int64, tol int64) string {
	switch {
	case sub != ch.sub:
		return "sub"
	case !sameSet(aud, ch.aud):
		return "aud"
	case authTime < ch.authTime.Unix()-tol || authTime > ch.authTime.Unix()+tol:
		return "auth_time"
	case client != ch.client:
		return "client"
	}
	return ""
}

// observe looks at the new access token through userinfo and introspection.
func (h *hist) observe(nt *tok, atRec vstore.Token) {
	ch := nt.ch
	ur := h.w.NewRequest("GET", "/userinfo", nil)
	ur.Header.Set("Authorization", "Bearer "+nt.access)
	resp := h.w.Do(h.router, ur)
	h.log = append(h.log, opLog{Op: "userinfo", Detail: "new access token of chain " + fmt.Sprint(ch.id), Result: resp.Brief()})
	if h.panicked(resp) {
		return
	}
	if resp.Status != http.StatusOK {
		h.run.Count("observe", "userinfo_not_200")
	} else {
		h.run.Count("observe", "userinfo_200")
		if slices.Contains(atRec.Scopes, "openid") && resp.Str("sub") != ch.sub {
			h.violated("userinfo-binding:sub", fmt.Sprintf("userinfo for the new access token answers sub=%q, the original grant was for %q", resp.Str("sub"), ch.sub))
			return
		}
	}
	oc := h.cl[ch.client]
	if oc.Auth != oidc.AuthMethodBasic && oc.Auth != oidc.AuthMethodPost {
		return
	}
	resp = h.w.Post(h.router, "/oauth/introspect", url.Values{"token": {nt.access}}, opdrv.BasicAuth(oc.ID, oc.Secret))
	h.log = append(h.log, opLog{Op: "introspect", Detail: "new access token of chain " + fmt.Sprint(ch.id), Result: resp.Brief()})
	if h.panicked(resp) {
		return
	}
	m := resp.JSON()
	if resp.Status != http.StatusOK || m == nil || m["active"] != true {
		h.run.Count("observe", "introspection_inactive")
		return
	}
	h.run.Count("observe", "introspection_active")
	sub, _ := m["sub"].(string)
	cid, _ := m["client_id"].(string)
	if f := bindingDiff(ch, cid, sub, audList(m["aud"]), ch.authTime.Unix(), 0); f != "" {
		h.violated("introspection-binding:"+f, fmt.Sprintf("introspection of the new access token: client_id=%v sub=%v aud=%v; original grant: client=%s sub=%s aud=%v", m["client_id"], m["sub"], m["aud"], ch.client, ch.sub, ch.aud))
		return
	}
	sc, _ := m["scope"].(string)
	items, _ := scopeItems(sc)
	if !subset(items, ch.toks[nt.pos-1].granted) {
		h.violated("scope-grew:introspection", fmt.Sprintf("introspection reports scope %v for the new access token; the presented refresh token was granted %v", items, ch.toks[nt.pos-1].granted))
	}
}

func runHistory(run *ev.Run, caseIdx int, router int) {
	h := newHist(run, caseIdx, router)
	defer h.close()
	steps := 8 + h.r.IntN(24)
	for s := 0; s < steps && !h.dead; s++ {
		c := h.r.IntN(100)
		switch {
		case len(h.toks) == 0 || c < 9:
			h.mint()
		case c < 11 && len(h.dereg) == 0 && !h.benign:
			h.deregister()
		default:
			h.refresh()
		}
	}
	if h.dead {
		return
	}
	for _, ch := range h.chains {
		n := len(ch.toks) - 1
		b := fmt.Sprint(n)
		if n > 8 {
			b = "9+"
		}
		run.Count("chain_refreshes", b)
	}
	if h.allOff {
		run.Observed("history-with-refresh-disabled:" + h.rn)
	}
	if h.alias {
		run.Count("storage_mode", "request-aliases-stored-token")
	} else {
		run.Count("storage_mode", "request-is-a-copy")
	}
}

func main() {
	run := ev.Start("C07", "exploration")
	run.SetRule("random histories (8-31 ops) on a fresh world per history and router: original grants (code exchange / device flow with offline_access, 6 scope sets, 2 users, per-chain audience and auth_time) for clients {web, web2(JWT access tokens) basic; post; native public+PKCE; jwt private_key_jwt; dev basic device; devpub public device(JWT)}, then refresh requests presenter {owner, other registered client, svc without the grant, unknown client} x credential {ok, wrong secret/key, none, other method, superfluous secret, valid credential + owner's client_id} x token {current, rotated-away, expired, unknown: garbage/near-miss/access token/missing/suffix} x scope list {absent, empty, equal, permuted, subset, subset with duplicate, superset head/tail, regrow of a narrowed-away scope, disjoint, case variant, affix variant, malformed spacing} x storage {the RefreshTokenRequest is a copy; it aliases the stored token (vstore.AliasRefresh, 1/3 of histories)} x storage look-up {a rejected look-up returns a nil request; it returns the record it found together with the error (expired / rotated-away tokens, injected faults at the look-up) and the rotation call leaves the expiry to the look-up (vstore.SetLaxRefresh, 1/3 of histories)} x provider {stock; application-defined (embeds *op.Provider, overrides JWTProfileVerifier) keeping ONE verifier; the same building it per request} x provider refresh support {on, off (same storage), off for the whole history} x parameter placement {grant_type, refresh_token, scope, client credentials each in the form body, in the URL query only, or in both; grant_type also conflicting: query says refresh_token while the body names authorization_code / client_credentials, and vice versa; 55% of requests are all-body} x follow-up {70% of scope-only refusals are followed by a plain request of the owner with the same token} x client re-registered without the refresh grant x trouble at the storage boundary while the request is served {none 82%; an injected fault (plain error / wrapped context.DeadlineExceeded / oidc server_error) at the k-th storage call of the request, k in 1..9; the same at every call of one method out of GetClientByClientID, AuthorizeClientIDSecret, GetKeyByIDAndClientID, TokenRequestByRefreshToken, CreateAccessAndRefreshTokens(x3), CreateAccessToken, SigningKey, SignatureAlgorithms, SetUserinfoFromScopes, GetPrivateClaimsFromScopes; a forced interleaving through a gate at the entrance of the storage's CreateAccessAndRefreshTokens: a second, plain request of the owner with the same token is served completely (either router) between this request's look-up and its rotation call}; every refresh request (the rival of an interleaving included) is one evaluation; distinct = distinct vectors (router, grant_type placement / all other parameters in the body, aliasing storage, enabled, grant kind, owner auth method, own/foreign, presenter auth method, credential kind, token kind, scope kind, chain position 0..3+, owner deregistered, storage trouble: none / method the fault fired at / interleaving and its rival's outcome / not reached). OVERLAP STRATUM (overlap.go, fixed number of cases, each on both routers): a world with original grants for two private_key_jwt clients (each key registered under its own and under one common key id) and a Basic client on a provider {kept verifier 60%, verifier per request 20%, stock 20%}; 2 pairs of refresh requests per case out of {forged assertion naming the victim, signed with and carrying the key id of the attacker's registered key, presenting the victim's token / honest request of the attacker; two honest private_key_jwt clients; valid credential of one client presenting another client's token / its own honest request; private_key_jwt client / Basic client}, scope lists from the same 13 kinds; each request served alone (yield points recorded: library spans, storage calls, client getters), then for EVERY yield point k of the first request: it is parked at k, the second request is served completely (either router), the first is released; roles swapped; every request is one evaluation, judged on its own by the sequential model (the two requests present tokens of different chains); distinct = (router, other router, provider kind, pair kind, parked shape, key id kind, point, both outcomes, lax storage)")
	run.Assume(
		"vstore policy: refresh tokens rotate (CreateAccessAndRefreshTokens kills the presented token), TokenRequestByRefreshToken fails for unknown, rotated and expired tokens, and the new refresh token records the scopes of the token request it was created from — 'granted' in the chain condition is that record",
		"after a refused request presenting a live token, later success for that token is grey (burning on failure would be legal); after a replay of a dead token of a chain, later success anywhere in the chain is grey (revoking the family would be legal)",
		"success is demanded only for the token's own, plainly configured client with its one registered credential and an absent / equal / permuted / subset scope list; duplicates, an empty scope parameter, malformed spacing, other-method or superfluous credentials are grey for success and strict for refusal",
		"a public client counts as identified when its client_id is named anywhere in the request",
		"original grants are taken as the storage recorded them (their correctness is C04/C06/C16)",
		"where a parameter travels (form body, URL query, both) never changes who may refresh: the refusal side of the model is placement-blind; success is demanded only for all-body requests; a request with conflicting grant_type members is judged by what was served (a success whose journal shows no refresh token request was served by another grant and is not judged)",
		"in one third of the histories the storage hands out a RefreshTokenRequest that aliases the stored token (SetCurrentScopes writes through, as in the repository's example storage); after every refused request the scopes the storage holds for the presented token are compared with those before it: widened -> violation, only narrowed -> grey",
		"storage trouble: the statement's conditions rest on the storage's answers (the client and its registration, the verdict on its credential, the token's owner and granted scopes, the new refresh token of the rotation); a request during which the storage failed to give one of them (injected fault at GetClientByClientID / AuthorizeClientIDSecret / GetKeyByIDAndClientID / TokenRequestByRefreshToken, or a CreateAccessAndRefreshTokens call that returned an error - injected, or the storage's own refusal after a lost race - without a successful rotation of the presented token) must not succeed and must create nothing; a failure of any other call (signing key, claims) is grey in both directions; a refused request whose one successful rotation PRECEDES the injected fault is grey (the tokens exist in the storage and reach nobody; the model marks the presented token consumed), a creation after the failed call is a violation",
		"lax storage look-up: nothing in op.Storage forbids a non-nil request next to a non-nil error; a request whose look-up the storage answered with an error (the token is expired / rotated away, or the look-up failed) is refused by the statement whatever else the storage returned; the lax storage's rotation call checks that the presented token has not been rotated away but leaves the expiry to the look-up",
		"overlap stratum: an application may keep one *op.JWTProfileVerifier for the provider's life (NewJWTProfileVerifier returns a pointer, OpenIDProvider.JWTProfileVerifier hands out pointers); what a request is entitled to never depends on what else the provider is serving: each of two overlapping requests (tokens of different chains) is judged exactly as a sequential one; a second request that cannot finish while the first is parked is inconclusive, never a verdict",
		"forced interleaving: the order in which the storage is asked to rotate is the order of the sequential model: the rival (served completely while the first request is parked) is judged as a request presenting a live token, the parked request as one presenting a token rotated away; if the rival is refused the parked request is judged as usual (success grey, after a failed attempt)")
	n := run.N(4000, 40000)
	nOverlap := run.N(160, 3000)
	sched.Install() // the library's spans, the storage calls and the client getters become yield points (overlap.go); inert unless a goroutine is registered
	if rc := run.ReplayCase(); rc >= 0 {
		if rc >= overlapBase {
			runOverlap(run, int(rc)-overlapBase, 0)
			runOverlap(run, int(rc)-overlapBase, 1)
		} else {
			runHistory(run, int(rc), 0)
			runHistory(run, int(rc), 1)
		}
		run.Finish()
	}
	var mand []string
	for _, rn := range opdrv.RouterNames {
		for _, m := range []string{"success", "success-public", "success-private_key_jwt", "refused-foreign-authenticated", "refused-unauthenticated", "refused-invalid_scope", "refused-regrow", "refused-replay", "refused-disabled", "refused-deregistered", "chain>=4", "narrowed-twice", "history-with-refresh-disabled", "scope-refused-then-success", "aliasing-storage:scope-refused-then-success", "grant_type-in-query-only:success", "grant_type-in-query-only:refused-deregistered",
			"fault-at-rotation:refused", "fault-at-lookup:refused", "fault-at-client-authentication:refused", "fault-after-rotation:refused", "concurrent-refresh:loser-refused", "concurrent-refresh:rival-success",
			"lax-storage:request-with-error:expired:refused", "lax-storage:request-with-error:rotated:refused", "lax-storage:request-with-injected-error:refused",
			"app-provider:kept-verifier:success-private_key_jwt", "app-provider:verifier-per-request:success-private_key_jwt"} {
			mand = append(mand, m+":"+rn)
		}
	}
	run.Mandatory(mand...)
	run.Mandatory(overlapMandatory()...)
	cpu0 := cpuSeconds()
	ev.Parallel(n, 0, func(_ int, i int) {
		runHistory(run, i, 0)
		runHistory(run, i, 1)
	})
	cpu1 := cpuSeconds()
	ev.Parallel(nOverlap, 0, func(_ int, i int) {
		runOverlap(run, i, 0)
		runOverlap(run, i, 1)
	})
	fmt.Fprintf(os.Stderr, "C07 cpu seconds: histories %.1f, overlap stratum %.1f\n", cpu1-cpu0, cpuSeconds()-cpu1)
	run.Finish()
}

// ---------- parameter placement ----------

// placement says where each parameter group of the token request travels: "body", "query" (URL query only),
// "both" (equal values in both); grant_type additionally "conflict-query-refresh" (the query says refresh_token,
// the body names another grant) and "conflict-body-refresh" (the reverse).
type placement struct {
	gt, rt, sc, cred string
	other            string // the other grant of a conflicting grant_type
}

func (p placement) String() string {
	return "grant_type=" + p.gt + ",refresh_token=" + p.rt + ",scope=" + p.sc + ",credentials=" + p.cred
}
func (p placement) allBody() bool  { return p.gt == "body" && p.restBody() }
func (p placement) restBody() bool { return p.rt == "body" && p.sc == "body" && p.cred == "body" }

func drawPlacement(r *rand.Rand, plainOnly bool) placement {
	p := placement{gt: "body", rt: "body", sc: "body", cred: "body"}
	if plainOnly || r.IntN(100) < 55 {
		return p
	}
	three := func() string { return pick(r, "body", "body", "query", "query", "both") }
	p.gt = pick(r, "body", "body", "query", "query", "query", "query", "both", "both", "conflict-query-refresh", "conflict-body-refresh")
	p.other = pick(r, "authorization_code", "authorization_code", "client_credentials")
	p.rt, p.sc, p.cred = three(), three(), three()
	return p
}

// split distributes the form (with the credentials applied) over URL query and body.
func (p placement) split(form url.Values, auth opdrv.ClientAuth) (query, body url.Values, hook func(*http.Request)) {
	f := url.Values{}
	for k, v := range form {
		f[k] = slices.Clone(v)
	}
	hook = auth.Apply(f)
	query, body = url.Values{}, url.Values{}
	for k, v := range f {
		where := p.cred
		switch k {
		case "grant_type":
			where = p.gt
		case "refresh_token":
			where = p.rt
		case "scope":
			where = p.sc
		}
		switch where {
		case "body":
			body[k] = v
		case "query":
			query[k] = v
		case "both":
			body[k], query[k] = v, slices.Clone(v)
		case "conflict-query-refresh":
			query[k], body[k] = v, []string{p.other}
		case "conflict-body-refresh":
			body[k], query[k] = v, []string{p.other}
		}
	}
	return query, body, hook
}

// cpuSeconds is the CPU time (user + system) this process has used (reported in the log only; no verdict depends on it).
func cpuSeconds() float64 {
	var ru syscall.Rusage
	if syscall.Getrusage(syscall.RUSAGE_SELF, &ru) != nil {
		return 0
	}
	return float64(ru.Utime.Sec+ru.Stime.Sec) + float64(ru.Utime.Usec+ru.Stime.Usec)/1e6
}
