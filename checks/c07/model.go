package main

import (
	"math/rand/v2"
	"slices"
	"strings"
	"time"
)

// ---------- sequential reference model ----------
//
// refresh token -> {client, granted, sub, aud, auth_time, live}
//
// A chain is one original grant (code exchange or device flow) and the sequence of
// refresh tokens derived from it. "granted" of a token is what the storage recorded
// for it when it was minted; the statement demands granted(n) ⊆ granted(n-1).

type chain struct {
	id       int
	client   string
	via      string // "code" | "device"
	sub      string
	aud      []string // sorted set
	authTime time.Time
	origin   []string // scopes of the original grant (as recorded)
	toks     []*tok
	suspect  bool // a dead token of the chain was replayed: revoking the family would be legal -> later success grey
	narrowed int  // number of strict narrowings along the chain
}

type tok struct {
	s            string
	ch           *chain
	pos          int
	granted      []string // as recorded by the storage (order kept)
	live         bool
	dead         string // "" | "rotated" | "expired"
	failed       bool   // a request presenting this token was refused before (burning would be legal)
	access       string
	scopeRefused bool // a request presenting this (live) token was refused for its scope list alone
}

func sortedSet(xs []string) []string {
	out := slices.Clone(xs)
	slices.Sort(out)
	return slices.Compact(out)
}

func subset(a, b []string) bool {
	for _, x := range a {
		if !slices.Contains(b, x) {
			return false
		}
	}
	return true
}

func sameSet(a, b []string) bool { return slices.Equal(sortedSet(a), sortedSet(b)) }

// scopeItems is how the model reads a scope parameter: a space separated list
// (RFC 6749 3.3). wellFormed is false when the list has empty items (leading,
// trailing or doubled spaces) - such requests are grey for success.
func scopeItems(val string) (items []string, wellFormed bool) {
	wellFormed = true
	for _, it := range strings.Split(val, " ") {
		if it == "" {
			wellFormed = false
			continue
		}
		items = append(items, it)
	}
	return items, wellFormed
}

var foreignScopes = []string{"admin", "api:admin", "groups", "urn:x:all", "address"}

var scopeKinds = func() []string {
	w := map[string]int{
		"absent": 16, "equal": 8, "permuted": 6, "subset": 18, "subset-dup": 5, "empty": 4,
		"superset-tail": 7, "superset-head": 5, "regrow": 10, "disjoint": 5, "case": 4, "affix": 4, "malformed": 4,
	}
	keys := make([]string, 0, len(w))
	for k := range w {
		keys = append(keys, k)
	}
	slices.Sort(keys)
	var out []string
	for _, k := range keys {
		for i := 0; i < w[k]; i++ {
			out = append(out, k)
		}
	}
	return out
}()

// plainScopeKinds are the kinds for which a conforming request must succeed.
var plainScopeKinds = map[string]bool{"absent": true, "equal": true, "permuted": true, "subset": true}

// genScope draws a scope parameter relative to G (granted to the presented token) and O (original grant).
func genScope(r *rand.Rand, G, O []string) (kind string, present bool, val string) {
	if len(G) == 0 {
		G = []string{"openid"}
	}
	kind = scopeKinds[r.IntN(len(scopeKinds))]
	notIn := func(pool []string) []string {
		var out []string
		for _, x := range pool {
			if !slices.Contains(G, x) {
				out = append(out, x)
			}
		}
		return out
	}
	randSubset := func() []string {
		// non-empty; proper when |G| >= 2
		g := slices.Clone(G)
		r.Shuffle(len(g), func(i, j int) { g[i], g[j] = g[j], g[i] })
		n := 1
		if len(g) > 2 {
			n = 1 + r.IntN(len(g)-1)
		}
		return g[:n]
	}
	switch kind {
	case "absent":
		return kind, false, ""
	case "empty":
		return kind, true, ""
	case "equal":
		return kind, true, strings.Join(G, " ")
	case "permuted":
		g := slices.Clone(G)
		r.Shuffle(len(g), func(i, j int) { g[i], g[j] = g[j], g[i] })
		return kind, true, strings.Join(g, " ")
	case "subset":
		if len(G) < 2 {
			return "equal", true, strings.Join(G, " ")
		}
		return kind, true, strings.Join(randSubset(), " ")
	case "subset-dup":
		s := randSubset()
		s = append(s, s[r.IntN(len(s))])
		return kind, true, strings.Join(s, " ")
	case "regrow":
		lost := notIn(O)
		if len(lost) == 0 {
			kind = "superset-tail"
			break
		}
		s := randSubset()
		s = append(s, lost[r.IntN(len(lost))])
		if r.IntN(2) == 0 {
			r.Shuffle(len(s), func(i, j int) { s[i], s[j] = s[j], s[i] })
		}
		return kind, true, strings.Join(s, " ")
	case "disjoint":
		f := notIn(foreignScopes)
		return kind, true, f[r.IntN(len(f))]
	case "case":
		g := slices.Clone(G)
		i := r.IntN(len(g))
		g[i] = strings.ToUpper(g[i])
		return kind, true, strings.Join(g, " ")
	case "affix":
		g := slices.Clone(G)
		i := r.IntN(len(g))
		cand := g[i][:len(g[i])-1]
		if r.IntN(2) == 0 || cand == "" {
			cand = g[i] + "s"
		}
		if slices.Contains(G, cand) {
			cand = g[i] + "_x"
		}
		g[i] = cand
		return kind, true, strings.Join(g, " ")
	case "malformed":
		switch r.IntN(3) {
		case 0:
			return kind, true, " " + strings.Join(G, " ")
		case 1:
			return kind, true, strings.Join(G, "  ")
		default:
			return kind, true, strings.Join(G, " ") + " "
		}
	}
	// superset-tail / superset-head
	f := notIn(foreignScopes)
	extra := f[r.IntN(len(f))]
	if kind == "superset-head" {
		return kind, true, extra + " " + strings.Join(G, " ")
	}
	return "superset-tail", true, strings.Join(G, " ") + " " + extra
}

// canonical order of refusal reasons (the first one names the violation key)
var reasonOrder = []string{"grant-disabled", "token-unknown", "token-rotated", "token-expired", "token-rotated-by-concurrent-request", "foreign-client", "bad-credential", "client-not-registered-for-refresh", "scope-not-granted",
	// trouble at the storage boundary comes last: a reason of the statement proper names the violation key first
	"storage-failed:GetClientByClientID", "storage-failed:AuthorizeClientIDSecret", "storage-failed:GetKeyByIDAndClientID", "storage-failed:TokenRequestByRefreshToken", "rotation-failed-in-storage"}

func orderReasons(rs []string) []string {
	idx := func(a string) int {
		if i := slices.Index(reasonOrder, a); i >= 0 {
			return i
		}
		return len(reasonOrder)
	}
	slices.SortStableFunc(rs, func(a, b string) int { return idx(a) - idx(b) })
	return rs
}
