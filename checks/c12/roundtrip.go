package main

// Part 1: generated values of every claims type are marshalled, the produced
// document is judged at JSON level against the model (registered claims that
// are set win over custom claims of the same name, custom claims survive,
// nothing else appears), decoded again and compared with the model, then the
// decoded value - whose custom map now holds stale copies of every registered
// claim - gets new registered values and is marshalled a second time.

import (
	"encoding/json"
	"fmt"
	"reflect"
	"sort"
	"strings"

	"verif/internal/mon"
)

var roundTripSpecs = func() []*typeSpec {
	var out []*typeSpec
	for _, s := range specs {
		if s.roundTrip {
			out = append(out, s)
		}
	}
	return out
}()

func actorValue(a *actorM) *value {
	return &value{spec: actorSpec, vals: map[string]any{"iss": a.Iss, "sub": a.Sub, "act": a.Act}, custom: a.Custom}
}

// issue is one difference between model and library value.
type issue struct {
	class  string // "roundtrip" | "override" | "fold" | "time"
	typ    string
	site   string
	field  string
	detail string
}

// expectedUsername models IntrospectionResponse.MarshalJSON's documented defaulting.
func effective(v *value, name string) any {
	x := v.vals[name]
	if v.spec.name == "IntrospectionResponse" && name == "username" {
		if s, _ := x.(string); s == "" {
			return v.vals["preferred_username"]
		}
	}
	return x
}

// actorDocEq judges the document of an actor against its model: set registered members and foreign custom
// claims must be there; a custom key that is a case variant of a registered name may have been dropped.
func actorDocEq(a *actorM, got any) bool {
	g, ok := got.(map[string]any)
	if !ok {
		return false
	}
	allowed := map[string]bool{}
	check := func(name string, set bool, exp func(any) bool) bool {
		allowed[name] = true
		gv, present := g[name]
		cv, customHas := a.Custom[name]
		switch {
		case set:
			return present && exp(gv)
		case customHas:
			return present && jsonEq(cv, gv)
		}
		return !present
	}
	if !check("iss", a.Iss != "", func(x any) bool { return jsonEq(a.Iss, x) }) {
		return false
	}
	if !check("sub", a.Sub != "", func(x any) bool { return jsonEq(a.Sub, x) }) {
		return false
	}
	if !check("act", a.Act != nil, func(x any) bool { return actorDocEq(a.Act, x) }) {
		return false
	}
	for k, cv := range a.Custom {
		if allowed[k] {
			continue
		}
		allowed[k] = true
		gv, present := g[k]
		if foldsOnto(actorSpec, k) != "" {
			if present && !jsonEq(cv, gv) {
				return false
			}
			continue
		}
		if !present || !jsonEq(cv, gv) {
			return false
		}
	}
	for k := range g {
		if !allowed[k] {
			return false
		}
	}
	return true
}

func encEq(fd *field, val any, got any) bool {
	if a, ok := val.(*actorM); ok && a != nil {
		return actorDocEq(a, got)
	}
	exp := encode(fd, val)
	if jsonEq(exp, got) {
		return true
	}
	// an always-present empty list may be written as null or as []
	if ss, ok := val.([]string); ok && len(ss) == 0 && fd.kind != kScope {
		if got == nil {
			return true
		}
		if a, ok := got.([]any); ok && len(a) == 0 {
			return true
		}
	}
	return false
}

// checkDoc judges a marshalled document (reference-decoded with UseNumber) against the model.
// staleOK: registered names that may carry a stale copy (second generation), by name -> allowed value.
func checkDoc(v *value, doc map[string]any, stale map[string]any, t *tally, gen2 bool) []issue {
	var out []issue
	s := v.spec
	known := map[string]bool{}
	for i := range s.fields {
		fd := &s.fields[i]
		known[fd.name] = true
		val := effective(v, fd.name)
		set, weak := isSet(fd, val)
		cv, customHas := v.custom[fd.name]
		got, present := doc[fd.name]
		switch {
		case set:
			if present && encEq(fd, val, got) {
				if customHas || gen2 {
					t.count("override", "registered claim won over custom claim of the same name")
				}
				continue
			}
			cl := "roundtrip"
			if customHas || gen2 {
				cl = "override"
			}
			d := fmt.Sprintf("%s: registered claim %q is set to %s but the document holds %s", s.name, fd.name, compact(encode(fd, val)), presentStr(got, present))
			if customHas {
				d += fmt.Sprintf(" (custom claim of the same name: %s)", compact(cv))
			}
			out = append(out, issue{class: cl, typ: s.name, site: s.site, field: fd.name, detail: d})
		case weak:
			t.count("grey", "non-nil but empty pointer claim (left open)")
		default: // unset
			if !present {
				continue
			}
			if customHas {
				if jsonEq(cv, got) {
					t.count("grey", "custom claim under the name of an unset registered claim: kept")
				} else {
					t.count("grey", "custom claim under the name of an unset registered claim: changed")
				}
				continue
			}
			if sv, ok := stale[fd.name]; ok {
				if jsonEqRef(sv, got) {
					t.count("grey", "second generation: stale copy of a now unset claim re-emitted")
					continue
				}
			}
			out = append(out, issue{class: "roundtrip", typ: s.name, site: s.site, field: fd.name,
				detail: fmt.Sprintf("%s: registered claim %q is not set and no custom claim has that name, but the document holds %s", s.name, fd.name, compact(got))})
		}
	}
	for k, cv := range v.custom {
		if known[k] {
			continue
		}
		got, present := doc[k]
		if reg := foldsOnto(s, k); reg != "" {
			// a case variant of a registered name collides with it under Go's decoding: whether it is kept,
			// dropped or rejected is left open; what matters is judged after decoding (the registered claim wins)
			switch {
			case !present:
				t.count("grey", "case-variant custom key: dropped from the document")
			case jsonEq(cv, got):
				t.count("grey", "case-variant custom key: kept in the document")
			default:
				t.count("grey", "case-variant custom key: changed in the document")
			}
			continue
		}
		if !present || !jsonEq(cv, got) {
			out = append(out, issue{class: "roundtrip", typ: s.name, site: s.site, field: "custom-claim",
				detail: fmt.Sprintf("%s: custom claim %q = %s, document holds %s", s.name, k, compact(cv), presentStr(got, present))})
		}
	}
	for k := range doc {
		if known[k] {
			continue
		}
		if _, ok := v.custom[k]; !ok {
			out = append(out, issue{class: "roundtrip", typ: s.name, site: s.site, field: "extra-member",
				detail: fmt.Sprintf("%s: the document has a member %q that is neither a set registered claim nor a custom claim", s.name, k)})
		}
	}
	return out
}

// jsonEqRef compares two reference decodes.
func jsonEqRef(a, b any) bool {
	switch x := a.(type) {
	case json.Number:
		y, ok := b.(json.Number)
		if !ok {
			return false
		}
		if x == y {
			return true
		}
		// a stale copy has been through a float64 (custom map): same float64 = same stale value
		fx, e1 := x.Float64()
		fy, e2 := y.Float64()
		return e1 == nil && e2 == nil && fx == fy
	case []any:
		y, ok := b.([]any)
		if !ok || len(x) != len(y) {
			return false
		}
		for i := range x {
			if !jsonEqRef(x[i], y[i]) {
				return false
			}
		}
		return true
	case map[string]any:
		y, ok := b.(map[string]any)
		if !ok || len(x) != len(y) {
			return false
		}
		for k, xv := range x {
			yv, ok := y[k]
			if !ok || !jsonEqRef(xv, yv) {
				return false
			}
		}
		return true
	}
	return reflect.DeepEqual(a, b)
}

func presentStr(got any, present bool) string {
	if !present {
		return "no such member"
	}
	return compact(got)
}

// foldsOnto returns the registered name that key collides with under case folding without being equal to it.
func foldsOnto(s *typeSpec, key string) string {
	for i := range s.fields {
		if n := s.fields[i].name; n != key && foldEq(n, key) {
			return n
		}
	}
	return ""
}

// explainedByVariant: does the decoded value of a scalar claim equal the value of one of the case-variant custom
// keys? Only then is a difference filed under the case-folded-key class; any other difference keeps its own
// round-trip key. Structured claims (lists, address, actor, events, locale) are merged member-wise by the decoder,
// so for them the presence of a variant key is the explanation.
func explainedByVariant(fd *field, got any, custom map[string]any, variants []string) bool {
	for _, k := range variants {
		cv := custom[k]
		switch fd.kind {
		case kString:
			if s, ok := cv.(string); ok && s == got.(string) {
				return true
			}
		case kTime:
			if fl, ok := cv.(float64); ok && fl >= -9223372036854775808.0 && fl < 9223372036854775808.0 && int64(fl) == got.(int64) {
				return true
			}
		case kBool, kTolBool:
			if b, ok := cv.(bool); ok && b == got.(bool) {
				return true
			}
			if s, ok := cv.(string); ok && s == "true" && got.(bool) {
				return true
			}
		default:
			return true
		}
	}
	return false
}

// variantKeys returns the custom keys that are case / fold variants (not exact) of name.
func variantKeys(custom map[string]any, name string) []string {
	var out []string
	for k := range custom {
		if k != name && foldEq(k, name) {
			out = append(out, k)
		}
	}
	sort.Strings(out)
	return out
}

// risky: may a colliding custom key legitimately break or bend decoding (left open by the statement)?
func risky(v *value) bool {
	for i := range v.spec.fields {
		fd := &v.spec.fields[i]
		val := effective(v, fd.name)
		set, _ := isSet(fd, val)
		if len(variantKeys(v.custom, fd.name)) > 0 {
			return true
		}
		if _, has := v.custom[fd.name]; has && !set {
			return true
		}
		if fd.kind == kTime {
			if tv, _ := val.(int64); !floatExact(tv) {
				return true
			}
		}
		if a, ok := val.(*actorM); ok && a != nil && risky(actorValue(a)) {
			return true
		}
	}
	return false
}

func modelEq(fd *field, val, got any) bool {
	switch fd.kind {
	case kString:
		return val.(string) == got.(string)
	case kTime:
		return val.(int64) == got.(int64)
	case kAud, kStrings, kScope:
		return sameStrings(val.([]string), got.([]string))
	case kBool, kTolBool:
		return val.(bool) == got.(bool)
	case kLocale:
		a, b := string(val.(localeM)), string(got.(localeM))
		if a == "und" {
			a = ""
		}
		if b == "und" {
			b = ""
		}
		return a == b
	case kAddress:
		a, b := val.(*addrM), got.(*addrM)
		if a.empty() || b.empty() {
			return a.empty() && b.empty()
		}
		return a.F == b.F
	case kEvents:
		a, b := val.(map[string]any), got.(map[string]any)
		if len(a) == 0 || len(b) == 0 {
			return len(a) == len(b)
		}
		return nativeEq(a, b)
	}
	panic("modelEq: kind")
}

// compareDecoded compares a decoded library value (rv: the struct) with the model.
func compareDecoded(v *value, rv reflect.Value, claims func(string) (any, bool), t *tally, foldCtx string) []issue {
	var out []issue
	s := v.spec
	for i := range s.fields {
		fd := &s.fields[i]
		val := effective(v, fd.name)
		set, weak := isSet(fd, val)
		variants := variantKeys(v.custom, fd.name)
		_, exact := v.custom[fd.name]
		got := readField(rv, fd)
		var equal bool
		var sub []issue
		if fd.kind == kActor {
			a, g := val.(*actorM), got.(*actorM)
			switch {
			case a == nil || !set:
				equal = g == nil || (actorEmpty(g) && len(g.Custom) == 0) || (weak && actorEmpty(g))
			case g == nil:
				equal = false
			default:
				equal = true
				grv := rv.FieldByName(fd.goName).Elem()
				gc := g.Custom
				fc := foldCtx
				if len(variants) > 0 {
					fc = variants[len(variants)-1]
				}
				sub = compareDecoded(actorValue(a), grv, func(k string) (any, bool) { x, ok := gc[k]; return x, ok }, t, fc)
			}
		} else {
			equal = modelEq(fd, val, got)
		}
		out = append(out, sub...)
		if equal {
			if set && len(variants) > 0 {
				t.count("override", "set registered claim kept its value despite a case-variant custom key")
			}
			continue
		}
		if tv, isTime := val.(int64); isTime && fd.kind == kTime && !floatExact(tv) {
			g := got.(int64)
			if fl := float64(tv); fl < 9223372036854775808.0 && g == int64(fl) {
				t.count("grey", "time beyond 2^53 came back rounded to the nearest float64")
				continue
			}
		}
		switch {
		case !set && (exact || len(variants) > 0):
			t.count("grey", "custom claim decoded into an unset registered field of the same (case-insensitive) name")
		case foldCtx != "":
			out = append(out, issue{class: "fold", typ: s.name, site: s.site, field: fd.name,
				detail: fmt.Sprintf("%s: %q was %s; after Marshal+Unmarshal it is %s - the enclosing actor was first filled from the custom claim %q, which Go's JSON decoding folds onto \"act\", and the registered actor was then decoded into the same struct",
					s.name, fd.name, show(val), show(got), foldCtx)})
		case set && len(variants) > 0 && explainedByVariant(fd, got, v.custom, variants):
			out = append(out, issue{class: "fold", typ: s.name, site: s.site, field: fd.name,
				detail: fmt.Sprintf("%s: %q was set to %s; after Marshal+Unmarshal the field holds %s - the value of the custom claim %q, which Go's JSON decoding folds onto %q",
					s.name, fd.name, compact(encode(fd, val)), show(got), variants[len(variants)-1], fd.name)})
		case fd.kind == kTime && !floatExact(val.(int64)):
			tv, g := val.(int64), got.(int64)
			fl := float64(tv)
			switch {
			case fl < 9223372036854775808.0 && g == int64(fl):
				t.count("grey", "time beyond 2^53 came back rounded to the nearest float64")
			case g == 0:
				t.count("grey", "time beyond 2^53 came back as zero")
			default:
				out = append(out, issue{class: "time", typ: s.name, site: s.site, field: fd.name,
					detail: fmt.Sprintf("%s: %q = %d was marshalled as that integer and decoded without error to %d", s.name, fd.name, tv, g)})
			}
		default:
			out = append(out, issue{class: "roundtrip", typ: s.name, site: s.site, field: fd.name,
				detail: fmt.Sprintf("%s: %q was %s, after Marshal+Unmarshal it is %s", s.name, fd.name, show(val), show(got))})
		}
	}
	// custom claims survive (keys that equal a registered name exactly belong to the override clause)
	for k, cv := range v.custom {
		if _, reg := s.byName[k]; reg {
			continue
		}
		got, ok := claims(k)
		if foldsOnto(s, k) != "" {
			continue // colliding key: left open (see checkDoc)
		}
		if !ok || !nativeEq(cv, got) {
			if foldCtx != "" {
				continue // reported through the registered field that differs
			}
			out = append(out, issue{class: "roundtrip", typ: s.name, site: s.site, field: "custom-claim",
				detail: fmt.Sprintf("%s: custom claim %q = %s, after Marshal+Unmarshal the custom map holds %s", s.name, k, compact(cv), presentStr(got, ok))})
		}
	}
	return out
}

func (c *ctx) reportIssues(caseID int64, issues []issue, wit map[string]any, stage string) {
	for _, is := range issues {
		var key string
		switch is.class {
		case "fold":
			key = "C12:override:case-folded-key:" + is.site
		case "time":
			key = "C12:decode:Time:value-not-in-document"
		case "override":
			key = "C12:override:" + is.typ + ":" + is.field
		default:
			key = "C12:roundtrip:" + is.typ + ":" + is.field
		}
		w := map[string]any{"stage": stage, "detail": is.detail}
		for k, v := range wit {
			w[k] = v
		}
		c.t.count("issues", key)
		c.run.Violation(key, caseID, is.detail, w)
	}
}

// build makes the library value of a model; ok=false: the case cannot be constructed (counted, not judged).
func build(c *ctx, v *value) (ptr any, ok bool, why string) {
	s := v.spec
	ptr = s.newPtr()
	if s.private {
		// the private custom map can only be filled by decoding
		if len(v.custom) > 0 {
			doc0, err := json.Marshal(v.custom)
			if err != nil {
				return nil, false, "custom map not marshalable"
			}
			var derr error
			if pi := mon.Catch(func() { derr = json.Unmarshal(doc0, ptr) }); pi != nil {
				return nil, false, "panic while seeding the private map: " + pi.Value
			}
			if derr != nil {
				return nil, false, "custom key collides with a registered claim of another JSON type"
			}
		}
	} else if v.custom != nil {
		setClaims(s, ptr, cloneMap(v.custom))
	}
	rv := reflect.ValueOf(ptr).Elem()
	for i := range s.fields {
		fd := &s.fields[i]
		setField(rv, fd, v.vals[fd.name])
	}
	return ptr, true, ""
}

func marshalCatch(ptr any) (doc []byte, err error, pi *mon.PanicInfo) {
	pi = mon.Catch(func() { doc, err = json.Marshal(ptr) })
	return
}

func collisionClasses(v *value) string {
	set := map[string]bool{}
	for _, col := range collisions(v.spec, v.custom) {
		fd := v.spec.byName[col.Name]
		s, _ := isSet(fd, effective(v, col.Name))
		st := "unset"
		if s {
			st = "set"
		}
		set[col.Class+"/"+st] = true
	}
	if len(set) == 0 {
		if len(v.custom) == 0 {
			return "no-custom"
		}
		return "no-collision"
	}
	var ks []string
	for k := range set {
		ks = append(ks, k)
	}
	sort.Strings(ks)
	return strings.Join(ks, "+")
}

func actorDepthOf(v *value) int {
	a, _ := v.vals["act"].(*actorM)
	d := 0
	for a != nil {
		d++
		a = a.Act
	}
	return d
}

func runRoundTrip(c *ctx, i int) {
	caseID := partRoundTrip*partSize + int64(i)
	r := c.run.CaseRand(uint64(partRoundTrip), i)
	g := gen{r}
	s := roundTripSpecs[i%len(roundTripSpecs)]
	v := g.newValue(s)
	if s.private {
		// only decodable custom maps can be planted: colliding keys get a value of the registered claim's JSON type
		for _, k := range sortedKeys(v.custom) { // sorted: a case is a pure function of (seed, part, index)
			for j := range s.fields {
				if foldEq(k, s.fields[j].name) {
					v.custom[k] = g.compatibleValue(s.fields[j].kind)
				}
			}
		}
	}
	c.run.Eval()
	wit := map[string]any{"part": "roundtrip", "value": v.describe()}
	ptr, ok, why := build(c, v)
	if !ok {
		c.t.count("roundtrip_outcome", "not-constructible: "+why)
		return
	}
	doc, err, pi := marshalCatch(ptr)
	if pi != nil {
		if pi.Harness || !pi.InRepo {
			c.run.HarnessBug("panic outside the library while marshalling: " + pi.Value + " at " + pi.Frame)
			return
		}
		wit["panic"], wit["site"] = pi.Value, pi.Site()
		c.run.Violation("C12:encode:"+panicType(pi, s.name)+":panic", caseID, "marshalling a "+s.name+" panicked: "+pi.Value, wit)
		return
	}
	if err != nil {
		wit["error"] = err.Error()
		c.run.Violation("C12:roundtrip:"+s.name+":marshal-error", caseID, "marshalling a "+s.name+" made of JSON-native values failed: "+err.Error(), wit)
		return
	}
	wit["document"] = trunc(string(doc), 6000)
	ref, rerr := refDecode(doc)
	refObj, isObj := ref.(map[string]any)
	if rerr != nil || !isObj {
		c.run.Violation("C12:roundtrip:"+s.name+":document-not-an-object", caseID, s.name+" was marshalled to something that is not a JSON object", wit)
		return
	}
	classes := collisionClasses(v)
	dim := fmt.Sprintf("rt|%s|%s|act%d", s.name, classes, actorDepthOf(v))

	// 1. the document
	issues := checkDoc(v, refObj, nil, c.t, false)
	c.reportIssues(caseID, issues, wit, "document of the first Marshal")
	if strings.Contains(classes, "exact/set") && len(issues) == 0 {
		c.observe("override:exact-collision-with-set-claim")
	}

	// 2. decode it again
	ptr2 := s.newPtr()
	var derr error
	if pi := mon.Catch(func() { derr = json.Unmarshal(doc, ptr2) }); pi != nil {
		if pi.Harness || !pi.InRepo {
			c.run.HarnessBug("panic outside the library while decoding a marshalled value: " + pi.Value + " at " + pi.Frame)
			return
		}
		wit["panic"], wit["site"] = pi.Value, pi.Site()
		c.run.Violation("C12:decode:"+panicType(pi, s.name)+":panic", caseID, "decoding the library's own output panicked: "+pi.Value, wit)
		return
	}
	if derr != nil {
		wit["error"] = derr.Error()
		if risky(v) {
			c.t.count("roundtrip_outcome", "grey: own output not decodable (colliding custom key / time beyond float64)")
			c.t.dim(dim + "|decode-error-grey")
			return
		}
		c.run.Violation("C12:roundtrip:"+s.name+":decode-error", caseID, "the library cannot decode its own output: "+derr.Error(), wit)
		return
	}
	rv2 := reflect.ValueOf(ptr2).Elem()
	var claimsOf func(string) (any, bool)
	if s.private {
		j := ptr2.(interface{ GetCustomClaim(string) any })
		claimsOf = func(k string) (any, bool) { x := j.GetCustomClaim(k); _, inDoc := refObj[k]; return x, inDoc }
	} else {
		cl := getClaims(s, ptr2)
		claimsOf = func(k string) (any, bool) { x, ok := cl[k]; return x, ok }
	}
	issues2 := compareDecoded(v, rv2, claimsOf, c.t, "")
	c.reportIssues(caseID, issues2, wit, "value after Marshal+Unmarshal")
	c.t.count("roundtrip_outcome", "decoded and compared")
	c.t.count("roundtrip_type", s.name)
	c.t.dim(dim + "|decoded")
	if len(issues) == 0 && len(issues2) == 0 {
		c.observe("roundtrip:" + s.name)
	}
	if i < 64 && (s.name == "AccessTokenClaims" || s.name == "JWTTokenRequest" || s.name == "IntrospectionResponse") && len(v.custom) > 0 && len(doc) < 900 {
		kindName := "roundtrip:" + s.name
		c.run.SampleKind(kindName, map[string]any{"value": v.describe(), "document": trunc(string(doc), 700), "collisions": collisions(s, v.custom)})
	}

	// 3. second generation: new registered values over a custom map that holds stale copies of all of them
	v2 := &value{spec: s, vals: map[string]any{}, custom: v.custom}
	density := pick(r, 30, 60, 100)
	for j := range s.fields {
		fd := &s.fields[j]
		v2.vals[fd.name] = g.fieldValue(fd, density, 2)
		setField(rv2, fd, v2.vals[fd.name])
	}
	doc2, err2, pi2 := marshalCatch(ptr2)
	wit2 := map[string]any{"part": "roundtrip", "first_value": v.describe(), "first_document": trunc(string(doc), 3000), "second_value": v2.describe()}
	if pi2 != nil {
		if pi2.Harness || !pi2.InRepo {
			c.run.HarnessBug("panic outside the library while marshalling (second generation): " + pi2.Value + " at " + pi2.Frame)
			return
		}
		wit2["panic"], wit2["site"] = pi2.Value, pi2.Site()
		c.run.Violation("C12:encode:"+panicType(pi2, s.name)+":panic", caseID, "marshalling a decoded and modified "+s.name+" panicked: "+pi2.Value, wit2)
		return
	}
	if err2 != nil {
		wit2["error"] = err2.Error()
		c.run.Violation("C12:roundtrip:"+s.name+":marshal-error", caseID, "marshalling a decoded and modified "+s.name+" failed: "+err2.Error(), wit2)
		return
	}
	wit2["second_document"] = trunc(string(doc2), 6000)
	ref2, rerr2 := refDecode(doc2)
	refObj2, isObj2 := ref2.(map[string]any)
	if rerr2 != nil || !isObj2 {
		c.run.Violation("C12:roundtrip:"+s.name+":document-not-an-object", caseID, s.name+" was marshalled to something that is not a JSON object", wit2)
		return
	}
	// the custom map of the decoded value holds every member of the first document
	v2.custom = map[string]any{}
	for k, x := range v.custom {
		v2.custom[k] = x
	}
	stale := map[string]any{}
	for k, x := range refObj {
		if _, reg := s.byName[k]; reg {
			stale[k] = x
		}
	}
	issues3 := checkDocGen2(v2, refObj2, stale, c.t)
	c.reportIssues(caseID, issues3, wit2, "document of the second Marshal (after decode + new registered values)")
	c.t.count("roundtrip_outcome", "second generation marshalled and judged")
	if len(issues3) == 0 {
		c.observe("override:second-generation")
	}
}

// checkDocGen2: like checkDoc, but a registered name that is now unset may carry the stale copy of the first
// document (the statement only speaks about claims that are set), and custom claims whose key equals a
// registered name exactly are represented by that stale copy.
func checkDocGen2(v2 *value, doc map[string]any, stale map[string]any, t *tally) []issue {
	cp := &value{spec: v2.spec, vals: v2.vals, custom: map[string]any{}}
	for k, x := range v2.custom {
		if _, reg := v2.spec.byName[k]; !reg {
			cp.custom[k] = x
		}
	}
	return checkDoc(cp, doc, stale, t, true)
}
