package main

// Part 5: histories. The statement quantifies over every VALUE: the document of a value, and the value decoded
// from a document, are functions of that value / document alone. Parts 1-4 present every value to a codec that
// has never failed. Here a codec call is one step of a history on one goroutine:
//
//	PR   the probe value P (valid, JSON-native custom claims) is marshalled, judged against the model of P
//	     alone (the part-1 oracle), decoded again and compared
//	MF   a marshal that FAILS: a rich value Q (most registered claims set, custom claims, actors) carrying one
//	     custom value that JSON cannot express (non-finite float, channel / func / complex, unsupported map key,
//	     a Marshaler that returns an error / broken JSON / panics, a cyclic map) - as a top-level custom claim,
//	     nested inside a custom claim, among the custom claims of a nested actor, or in the logout events
//	UF   a decode that FAILS: the document of Q with one registered member of the wrong JSON kind, or a
//	     top-level non-object
//	MO   another valid value R is marshalled and judged like P
//
// Oracle (from the statement, no implementation knowledge): whatever happened before, (1) the document of a
// valid value holds exactly its set registered claims and its custom claims - "never ... a value the
// [value] did not contain"; (2) a valid value still marshals; (3) the same value gives the same document
// every time it is marshalled in the history; (4) the library's own output decodes to the value.
// What a failing step itself returns - an error, or the custom value's own panic - is outside the quantifier
// (6a: custom values are JSON-native) and only counted; a failing step that REPORTS SUCCESS is judged: the
// document must hold every claim of the value (judgeReportedSuccess), otherwise the encoding was lossy. A member that the value does not explain is looked up in the provenance ledger of the history
// (the claims of every earlier value, actor levels included) to name the class of the violation.
//
// Scheduling is a dimension, never part of a verdict: the first share of the cases runs on a single P
// (GOMAXPROCS(1), one goroutine), so that per-P caches (sync.Pool and the like) hand a later call exactly what
// an earlier call left behind; the rest runs on 16 goroutines; a failing step may run on a goroutine of its own.

import (
	"encoding/json"
	"errors"
	"fmt"
	"math"
	"reflect"
	"runtime"
	"sort"
	"strings"
	"time"

	"github.com/zitadel/oidc/v3/pkg/oidc"

	"verif/internal/ev"
	"verif/internal/mon"
)

const partHistory int64 = 5

// ---------------------------------------------------------------------------
// values JSON cannot express

type errMarshaler struct{}

func (errMarshaler) MarshalJSON() ([]byte, error) {
	return nil, errors.New("c12-history: this custom claim refuses to be encoded")
}

type badJSONMarshaler struct{}

func (badJSONMarshaler) MarshalJSON() ([]byte, error) { return []byte(`{"unterminated":`), nil }

const poisonPanic = "c12-history: this custom claim panics while it is encoded"

type panicMarshaler struct{}

func (panicMarshaler) MarshalJSON() ([]byte, error) { panic(poisonPanic) }

type poisonKind struct {
	class string // mandatory-scenario bucket
	desc  string
	mk    func() any
}

var poisonKinds = []poisonKind{
	{"nonfinite-float", "float64 +Inf", func() any { return math.Inf(1) }},
	{"nonfinite-float", "float64 -Inf", func() any { return math.Inf(-1) }},
	{"nonfinite-float", "float64 NaN", func() any { return math.NaN() }},
	{"nonfinite-float", "float32 +Inf", func() any { return float32(math.Inf(1)) }},
	{"unsupported-type", "chan int", func() any { return make(chan int) }},
	{"unsupported-type", "func()", func() any { return func() {} }},
	{"unsupported-type", "complex128", func() any { return complex(1, 2) }},
	{"unsupported-type", "map[bool]int", func() any { return map[bool]int{true: 1} }},
	{"marshaler-error", "json.Marshaler returning an error", func() any { return errMarshaler{} }},
	{"marshaler-error", "pointer to a json.Marshaler returning an error", func() any { return &errMarshaler{} }},
	{"marshaler-invalid-json", "json.Marshaler returning broken JSON", func() any { return badJSONMarshaler{} }},
	{"marshaler-panic", "json.Marshaler that panics", func() any { return panicMarshaler{} }},
	{"cycle", "map that contains itself", func() any { m := map[string]any{"a": 1.0}; m["self"] = m; return m }},
}

var poisonClasses = []string{"nonfinite-float", "unsupported-type", "marshaler-error", "marshaler-invalid-json", "marshaler-panic", "cycle"}

const (
	posCustom = "custom-claim"
	posNested = "nested-in-custom-claim"
	posActor  = "actor-custom-claim"
	posEvents = "logout-events"
)

var poisonPositions = []string{posCustom, posNested, posActor, posEvents}

var historyMandatory = func() []string {
	out := []string{"history:probe-after-failed-marshal", "history:probe-after-failed-unmarshal", "history:fault:decode-error",
		"history:single-P", "history:parallel", "history:fault-on-other-goroutine", "history:same-value-same-document",
		"history:probe-overwrites-the-unencodable-key", "history:probe-without-the-unencodable-key"}
	for _, c := range poisonClasses {
		out = append(out, "history:fault:"+c)
	}
	for _, p := range poisonPositions {
		out = append(out, "history:at:"+p)
	}
	return out
}()

// ---------------------------------------------------------------------------
// the history

type hop struct {
	op    string // PR | MO | MF | UF
	v     *value // PR: probe; MO: other value; MF / UF: the rich value Q (clean model, without the poison)
	kind  *poisonKind
	pos   string
	key   string // custom key that carries the poison
	depth int    // posActor: actor level (1 = outermost)
	doc   string // UF: the document
	other bool   // run the failing step on a goroutine of its own
	// outcome, for witnesses
	result string
}

type history struct {
	probe *value
	ops   []*hop
	sched string
}

// foreignKey draws a custom key that no type's registered name equals, not even under case folding.
func (g gen) foreignKey() string {
	for {
		k := g.customKeyPlain()
		clash := false
		for _, s := range specs {
			for i := range s.fields {
				if foldEq(k, s.fields[i].name) {
					clash = true
				}
			}
		}
		if !clash {
			return k
		}
	}
}

func sortedKeys(m map[string]any) []string {
	ks := make([]string, 0, len(m))
	for k := range m {
		ks = append(ks, k)
	}
	sort.Strings(ks)
	return ks
}

func stripVariantKeys(s *typeSpec, m map[string]any) {
	for k := range m {
		if foldsOnto(s, k) != "" {
			delete(m, k)
		}
	}
}

// histValue draws a model value without case-variant custom keys (what those do is judged - and a known
// finding - in part 1; here they would only hide what a history changes).
func (g gen) histValue(s *typeSpec, density, actorDepth int, wantCustom bool) *value {
	r := g.r
	v := &value{spec: s, vals: map[string]any{}}
	v.custom = g.custom(s, 6)
	stripVariantKeys(s, v.custom)
	if wantCustom {
		if v.custom == nil {
			v.custom = map[string]any{}
		}
		for n := pick(r, 1, 1, 2, 3); n > 0; n-- {
			v.custom[g.foreignKey()] = g.customValue(0)
		}
	}
	if s.private {
		for _, k := range sortedKeys(v.custom) { // sorted: the draws below must not depend on map order
			for j := range s.fields {
				if foldEq(k, s.fields[j].name) {
					v.custom[k] = g.compatibleValue(s.fields[j].kind)
				}
			}
		}
	}
	for i := range s.fields {
		fd := &s.fields[i]
		p := density
		if fd.always && p < 85 {
			p = 85
		}
		if _, col := v.custom[fd.name]; col && p < 60 {
			p = 60
		}
		v.vals[fd.name] = g.fieldValue(fd, p, actorDepth)
	}
	for a, _ := v.vals["act"].(*actorM); a != nil; a = a.Act {
		stripVariantKeys(actorSpec, a.Custom)
	}
	return v
}

var nonPrivateSpecs = func() []*typeSpec {
	var out []*typeSpec
	for _, s := range roundTripSpecs {
		if !s.private {
			out = append(out, s)
		}
	}
	return out
}()

func hasActorField(s *typeSpec) bool { fd := s.byName["act"]; return fd != nil && fd.kind == kActor }

// wrongKind is a JSON literal no decoder of that kind accepts.
func wrongKind(k kind) string {
	switch k {
	case kString:
		return `12`
	case kTime:
		return `{"not":"a time"}`
	case kAud, kStrings:
		return `{"not":"a list"}`
	case kScope:
		return `7`
	case kBool:
		return `"maybe"`
	case kTolBool:
		return `[1]`
	case kLocale:
		return `5`
	case kAddress:
		return `"street"`
	case kActor:
		return `"actor"`
	case kEvents:
		return `[1]`
	}
	return `[[]]`
}

// expectedDoc is the reference document of a model value (set registered claims over custom claims).
func expectedDoc(v *value) map[string]any {
	m := map[string]any{}
	for k, x := range v.custom {
		m[k] = x
	}
	for i := range v.spec.fields {
		fd := &v.spec.fields[i]
		val := effective(v, fd.name)
		if set, _ := isSet(fd, val); set {
			m[fd.name] = encode(fd, val)
		}
	}
	return m
}

func (g gen) brokenDoc(q *value) string {
	r := g.r
	if r.IntN(8) == 0 {
		return pick(r, `[{"sub":"in-an-array"}]`, `"a string"`, `17`, `[]`)
	}
	m := expectedDoc(q)
	var set []*field
	for i := range q.spec.fields {
		fd := &q.spec.fields[i]
		if s, _ := isSet(fd, effective(q, fd.name)); s {
			set = append(set, fd)
		}
	}
	if len(set) == 0 {
		return `[]`
	}
	fd := set[r.IntN(len(set))]
	m[fd.name] = json.RawMessage(wrongKind(fd.kind))
	b, err := json.Marshal(m)
	if err != nil {
		return `[]`
	}
	return string(b)
}

func (g gen) newHistory(i int) *history {
	r := g.r
	h := &history{}
	pt := roundTripSpecs[i%len(roundTripSpecs)]
	nFaults := pick(r, 1, 1, 1, 2, 3)
	var faults []*hop
	for f := 0; f < nFaults; f++ {
		var qs *typeSpec
		if !pt.private && r.IntN(10) < 6 {
			qs = pt // same type: what Q sets and P leaves unset share their names
		} else {
			qs = nonPrivateSpecs[r.IntN(len(nonPrivateSpecs))]
		}
		if r.IntN(4) == 0 {
			// failing decode (any type, the private one included)
			if r.IntN(2) == 0 {
				qs = pt
			}
			q := g.histValue(qs, pick(r, 70, 100), pick(r, 1, 2, 3), true)
			faults = append(faults, &hop{op: "UF", v: q, doc: g.brokenDoc(q), other: r.IntN(5) == 0})
			continue
		}
		pos := pick(r, posCustom, posCustom, posCustom, posNested, posActor, posActor, posEvents)
		if pos == posEvents {
			qs = specByName["LogoutTokenClaims"]
		}
		if pos == posActor && !hasActorField(qs) {
			qs = pick(r, specByName["IDTokenClaims"], specByName["AccessTokenClaims"], specByName["IntrospectionResponse"], specByName["ActorClaims"])
		}
		q := g.histValue(qs, pick(r, 70, 100), pick(r, 1, 2, 3), true)
		hp := &hop{op: "MF", v: q, kind: &poisonKinds[r.IntN(len(poisonKinds))], pos: pos, key: g.foreignKey(), other: r.IntN(5) == 0}
		switch pos {
		case posActor:
			a, _ := q.vals["act"].(*actorM)
			if a == nil {
				a = g.actor(pick(r, 1, 2, 3))
				for b := a; b != nil; b = b.Act {
					stripVariantKeys(actorSpec, b.Custom)
				}
				q.vals["act"] = a
			}
			d := 0
			for b := a; b != nil; b = b.Act {
				d++
			}
			hp.depth = 1 + r.IntN(d)
		case posEvents:
			if evs, _ := q.vals["events"].(map[string]any); len(evs) == 0 {
				q.vals["events"] = map[string]any{"http://schemas.openid.net/event/backchannel-logout": map[string]any{}}
			}
		}
		faults = append(faults, hp)
	}
	// the probe: few registered claims set, custom claims mostly present; half of the time it has a valid value
	// of its own under the key that carried the unencodable one
	p := g.histValue(pt, pick(r, 15, 15, 40, 70), pick(r, 0, 0, 1, 2), r.IntN(8) != 0)
	for _, f := range faults {
		if f.op == "MF" && (f.pos == posCustom || f.pos == posNested || f.pos == posActor) && len(p.custom) > 0 && r.IntN(2) == 0 {
			p.custom[f.key] = g.customValue(0)
		}
	}
	h.probe = p
	other := func() *hop {
		s := roundTripSpecs[r.IntN(len(roundTripSpecs))]
		return &hop{op: "MO", v: g.histValue(s, pick(r, 15, 40, 70), pick(r, 0, 1, 2), r.IntN(4) != 0)}
	}
	h.ops = append(h.ops, &hop{op: "PR", v: p})
	for _, f := range faults {
		if r.IntN(4) == 0 {
			h.ops = append(h.ops, other())
		}
		h.ops = append(h.ops, f)
		switch r.IntN(10) {
		case 0, 1, 2, 3, 4:
			h.ops = append(h.ops, &hop{op: "PR", v: p})
		case 5:
			h.ops = append(h.ops, other())
		}
	}
	if h.ops[len(h.ops)-1].op != "PR" {
		h.ops = append(h.ops, &hop{op: "PR", v: p})
	}
	return h
}

// ---------------------------------------------------------------------------
// running the steps

// plant puts the unencodable value into the library value built from the clean model.
func plant(hp *hop, ptr any) bool {
	val := hp.kind.mk()
	rv := reflect.ValueOf(ptr).Elem()
	claimsOf := func(rv reflect.Value) map[string]any {
		f := rv.FieldByName("Claims")
		if f.IsNil() {
			f.Set(reflect.ValueOf(map[string]any{}))
		}
		return f.Interface().(map[string]any)
	}
	switch hp.pos {
	case posCustom:
		claimsOf(rv)[hp.key] = val
	case posNested:
		claimsOf(rv)[hp.key] = []any{"fine", map[string]any{"deeper": val}}
	case posActor:
		a, _ := rv.FieldByName("Actor").Interface().(*oidc.ActorClaims)
		for d := 1; a != nil && d < hp.depth; d++ {
			a = a.Actor
		}
		if a == nil {
			return false
		}
		if a.Claims == nil {
			a.Claims = map[string]any{}
		}
		a.Claims[hp.key] = val
	case posEvents:
		lt, ok := ptr.(*oidc.LogoutTokenClaims)
		if !ok || lt.Events == nil {
			return false
		}
		lt.Events[hp.key] = val
	default:
		return false
	}
	return true
}

// onGoroutine runs fn here, or on a goroutine of its own while this one waits.
func onGoroutine(other bool, fn func()) {
	if !other {
		fn()
		return
	}
	done := make(chan struct{})
	go func() { defer close(done); fn() }()
	<-done
}

func (hp *hop) describe() map[string]any {
	d := map[string]any{"op": hp.op, "value": hp.v.describe()}
	switch hp.op {
	case "MF":
		d["op"] = "json.Marshal of a value that cannot be encoded"
		d["unencodable"] = map[string]any{"what": hp.kind.desc, "where": hp.pos, "custom_key": hp.key, "actor_level": hp.depth}
	case "UF":
		d["op"] = "json.Unmarshal of a document that cannot be decoded, into a fresh " + hp.v.spec.name
		d["document"] = trunc(hp.doc, 2000)
		delete(d, "value")
	case "PR":
		d["op"] = "json.Marshal of the probe value (+ Unmarshal of the result into a fresh value)"
	case "MO":
		d["op"] = "json.Marshal of another valid value (+ Unmarshal)"
	}
	if hp.other {
		d["goroutine"] = "own goroutine, the history waits for it"
	}
	if hp.result != "" {
		d["result"] = hp.result
	}
	return d
}

func (h *history) witness(upTo int) map[string]any {
	steps := make([]any, 0, upTo+1)
	for j := 0; j <= upTo && j < len(h.ops); j++ {
		steps = append(steps, h.ops[j].describe())
	}
	return map[string]any{"part": "history", "scheduling": h.sched, "steps": steps}
}

// ledgerEntry: one earlier value of the history (or one of its actor levels).
type ledgerEntry struct {
	step int
	v    *value
}

func ledgerOf(step int, v *value) []ledgerEntry {
	out := []ledgerEntry{{step, v}}
	for a, _ := v.vals["act"].(*actorM); a != nil; a = a.Act {
		out = append(out, ledgerEntry{step, actorValue(a)})
	}
	return out
}

func carries(w *value, name string, x any) bool {
	if fd := w.spec.byName[name]; fd != nil {
		val := effective(w, name)
		if set, _ := isSet(fd, val); set && encEq(fd, val, x) {
			return true
		}
	}
	if cv, ok := w.custom[name]; ok && jsonEq(cv, x) {
		return true
	}
	return false
}

type stray struct {
	path, name string
	val        any
}

// unexplained lists the members of a document that the value it was made from does not account for.
func unexplained(v *value, doc map[string]any, prefix string) []stray {
	var out []stray
	for k, x := range doc {
		if fd := v.spec.byName[k]; fd != nil {
			val := effective(v, k)
			set, weak := isSet(fd, val)
			switch {
			case set:
				if encEq(fd, val, x) {
					continue
				}
				if a, ok := val.(*actorM); ok && a != nil {
					if xm, ok := x.(map[string]any); ok {
						out = append(out, unexplained(actorValue(a), xm, prefix+k+".")...)
						continue
					}
				}
				out = append(out, stray{prefix + k, k, x})
			case weak:
			default:
				if _, has := v.custom[k]; !has {
					out = append(out, stray{prefix + k, k, x})
				}
			}
			continue
		}
		if cv, has := v.custom[k]; !has || !jsonEq(cv, x) {
			out = append(out, stray{prefix + k, k, x})
		}
	}
	sort.Slice(out, func(i, j int) bool { return out[i].path < out[j].path })
	return out
}

func decodeSite(s *typeSpec) string {
	if s.private {
		return "JWTTokenRequest.UnmarshalJSON"
	}
	return "unmarshalJSONMulti"
}

// judgeValid marshals a valid value inside a history and judges the result; returns the reference decode of the
// document (nil if there is none).
func (c *ctx) judgeValid(caseID int64, h *history, step int, ledger []ledgerEntry, faulted bool) map[string]any {
	hp := h.ops[step]
	v, s := hp.v, hp.v.spec
	ptr, ok, why := build(c, v)
	if !ok {
		hp.result = "not constructible: " + why
		c.t.count("history_step", hp.op+": not constructible ("+why+")")
		return nil
	}
	doc, err, pi := marshalCatch(ptr)
	if pi != nil && strings.Contains(pi.Value, poisonPanic) {
		// the panicking Marshaler of an EARLIER value was encoded as part of this one
		hp.result = "panic of a custom claim this value does not contain: " + pi.Value
		c.t.count("history_step", hp.op+": marshal panics with the panic of an earlier value's custom claim")
		c.run.Violation("C12:history:"+s.site+":valid-value-marshal-error", caseID,
			fmt.Sprintf("step %d of a history: marshalling a %s made of JSON-native values raised the panic of a custom claim that only an earlier value of the history contains", step, s.name), h.witness(step))
		return nil
	}
	if pi != nil {
		if pi.Harness || !pi.InRepo {
			c.run.HarnessBug("panic outside the library while marshalling in a history: " + pi.Value + " at " + pi.Frame)
			return nil
		}
		hp.result = "panic: " + pi.Value
		w := h.witness(step)
		w["panic"], w["site"] = pi.Value, pi.Site()
		c.run.Violation("C12:encode:"+panicType(pi, s.name)+":panic", caseID, "marshalling a valid "+s.name+" panicked: "+pi.Value, w)
		return nil
	}
	if err != nil {
		hp.result = "error: " + err.Error()
		c.t.count("history_step", hp.op+": marshal error")
		c.run.Violation("C12:history:"+s.site+":valid-value-marshal-error", caseID,
			fmt.Sprintf("step %d of a history: marshalling a %s made of JSON-native values failed: %v", step, s.name, err), h.witness(step))
		return nil
	}
	hp.result = "document: " + trunc(string(doc), 4000)
	ref, rerr := refDecode(doc)
	refObj, isObj := ref.(map[string]any)
	if rerr != nil || !isObj {
		c.run.Violation("C12:roundtrip:"+s.name+":document-not-an-object", caseID, s.name+" was marshalled to something that is not a JSON object", h.witness(step))
		return nil
	}
	if issues := checkDoc(v, refObj, nil, c.t, false); len(issues) > 0 {
		c.t.count("history_step", hp.op+": document differs from the value")
		strays := unexplained(v, refObj, "")
		var details, leaked []string
		for _, is := range issues {
			details = append(details, is.detail)
		}
		for _, st := range strays {
			for _, le := range ledger {
				if carries(le.v, st.name, st.val) {
					leaked = append(leaked, fmt.Sprintf("%q = %s is a claim of the %s of step %d", st.path, compact(st.val), le.v.spec.name, le.step))
					break
				}
			}
		}
		w := h.witness(step)
		w["issues"] = details
		if len(leaked) > 0 {
			w["claims_of_earlier_values"] = leaked
			c.run.Violation("C12:history:"+s.site+":claims-of-an-earlier-value-in-document", caseID,
				fmt.Sprintf("step %d of a history: the document of a %s holds claims the value does not contain, they belong to a value marshalled / decoded earlier: %s",
					step, s.name, trunc(strings.Join(leaked, "; "), 600)), w)
		} else {
			c.run.Violation("C12:history:"+s.site+":document-not-from-value", caseID,
				fmt.Sprintf("step %d of a history: %s", step, trunc(strings.Join(details, "; "), 600)), w)
		}
		return refObj
	}
	// decode the library's own output into a fresh value
	ptr2 := s.newPtr()
	var derr error
	if pi := mon.Catch(func() { derr = json.Unmarshal(doc, ptr2) }); pi != nil {
		if pi.Harness || !pi.InRepo {
			c.run.HarnessBug("panic outside the library while decoding in a history: " + pi.Value + " at " + pi.Frame)
			return refObj
		}
		w := h.witness(step)
		w["panic"], w["site"] = pi.Value, pi.Site()
		c.run.Violation("C12:decode:"+panicType(pi, s.name)+":panic", caseID, "decoding the library's own output panicked: "+pi.Value, w)
		return refObj
	}
	if derr != nil {
		if risky(v) {
			c.t.count("history_step", hp.op+": grey, own output not decodable (custom key under an unset registered name / time beyond float64)")
			return refObj
		}
		w := h.witness(step)
		w["error"] = derr.Error()
		c.run.Violation("C12:history:"+decodeSite(s)+":own-output-not-decodable", caseID,
			fmt.Sprintf("step %d of a history: the library cannot decode its own output: %v", step, derr), w)
		return refObj
	}
	var claimsOf func(string) (any, bool)
	if s.private {
		j := ptr2.(interface{ GetCustomClaim(string) any })
		claimsOf = func(k string) (any, bool) { x := j.GetCustomClaim(k); _, inDoc := refObj[k]; return x, inDoc }
	} else {
		cl := getClaims(s, ptr2)
		claimsOf = func(k string) (any, bool) { x, ok := cl[k]; return x, ok }
	}
	if issues := compareDecoded(v, reflect.ValueOf(ptr2).Elem(), claimsOf, c.t, ""); len(issues) > 0 {
		var details []string
		for _, is := range issues {
			details = append(details, is.detail)
		}
		w := h.witness(step)
		w["issues"] = details
		c.t.count("history_step", hp.op+": decoded value differs")
		c.run.Violation("C12:history:"+decodeSite(s)+":decoded-value-differs", caseID,
			fmt.Sprintf("step %d of a history: %s", step, trunc(strings.Join(details, "; "), 600)), w)
		return refObj
	}
	if faulted {
		c.t.count("history_step", hp.op+": clean after a failed step")
	} else {
		c.t.count("history_step", hp.op+": clean, nothing failed before")
	}
	return refObj
}

// runFault executes a failing step; failed = it did fail (error, or the planted panic came back out).
func (c *ctx) runFault(caseID int64, h *history, step int) (failed bool) {
	hp := h.ops[step]
	s := hp.v.spec
	if hp.op == "UF" {
		ptr := s.newPtr()
		var err error
		var pi *mon.PanicInfo
		onGoroutine(hp.other, func() { pi = mon.Catch(func() { err = json.Unmarshal([]byte(hp.doc), ptr) }) })
		switch {
		case pi != nil:
			if pi.Harness || !pi.InRepo {
				c.run.HarnessBug("panic outside the library while decoding a broken document in a history: " + pi.Value + " at " + pi.Frame)
				return false
			}
			hp.result = "panic: " + pi.Value
			w := h.witness(step)
			w["panic"], w["site"] = pi.Value, pi.Site()
			c.run.Violation("C12:decode:"+panicType(pi, s.name)+":panic", caseID, fmt.Sprintf("decoding %s into %s panicked: %s", trunc(hp.doc, 120), s.name, pi.Value), w)
			return true
		case err != nil:
			hp.result = "error: " + err.Error()
			c.t.count("history_fault", "decode of a broken document -> error")
			return true
		}
		hp.result = "decoded without error"
		c.t.count("history_fault", "decode of a broken document -> accepted (not judged here)")
		return false
	}
	ptr, ok, why := build(c, hp.v)
	if !ok || !plant(hp, ptr) {
		hp.result = "not constructible: " + why
		c.t.count("history_fault", "not constructible")
		return false
	}
	var err error
	var pi *mon.PanicInfo
	var doc []byte
	onGoroutine(hp.other, func() { doc, err, pi = marshalCatch(ptr) })
	bucket := hp.kind.class + " at " + hp.pos
	switch {
	case pi != nil && strings.Contains(pi.Value, poisonPanic) && hp.kind.class == "marshaler-panic":
		hp.result = "the custom value's own panic came back out of json.Marshal"
		c.t.count("history_fault", bucket+" -> the value's panic propagated")
		return true
	case pi != nil && strings.Contains(pi.Value, poisonPanic):
		// not this value's panic: the step cannot succeed anyway and is not judged, the probes are
		hp.result = "panic of a custom claim of an earlier value came out of json.Marshal"
		c.t.count("history_fault", bucket+" -> panic of an earlier value's custom claim (the failing step is not judged)")
		return true
	case pi != nil:
		if pi.Harness || !pi.InRepo {
			c.run.HarnessBug("panic outside the library while marshalling an unencodable value: " + pi.Value + " at " + pi.Frame)
			return false
		}
		hp.result = "panic: " + pi.Value
		w := h.witness(step)
		w["panic"], w["site"] = pi.Value, pi.Site()
		c.run.Violation("C12:encode:"+panicType(pi, s.name)+":panic", caseID, "marshalling a "+s.name+" with a custom claim that cannot be encoded panicked in the library: "+pi.Value, w)
		return true
	case err != nil:
		hp.result = "error: " + trunc(err.Error(), 300)
		c.t.count("history_fault", bucket+" -> error")
		return true
	}
	hp.result = "marshalled without error: " + trunc(string(doc), 3000)
	c.judgeReportedSuccess(caseID, h, step, doc, bucket)
	return false
}

// judgeReportedSuccess: json.Marshal reported SUCCESS for a value one of whose custom values JSON cannot express.
// An error (or the custom value's own panic) is outside the quantifier; a success is not: "encoding is lossless -
// registered and custom claims survive", so the document must hold every claim of the value: all the set
// registered claims, all the JSON-native custom claims with their values, and a member for the unencodable one
// (with whatever the encoder made of it). A document that silently lacks claims of the value is a lossy encoding.
func (c *ctx) judgeReportedSuccess(caseID int64, h *history, step int, doc []byte, bucket string) {
	hp := h.ops[step]
	s := hp.v.spec
	lost := func(what string, extra map[string]any) {
		w := h.witness(step)
		for k, x := range extra {
			w[k] = x
		}
		c.t.count("history_fault", bucket+" -> marshalled without error, claims of the value are missing")
		c.run.Violation("C12:unencodable:"+s.site+":success-with-claims-lost", caseID,
			fmt.Sprintf("step %d of a history: json.Marshal of a %s with a custom value that cannot be encoded (%s, %s) returned no error and %s", step, s.name, hp.kind.desc, hp.pos, what), w)
	}
	r0, rerr := refDecode(doc)
	refObj, isObj := r0.(map[string]any)
	if rerr != nil || !isObj {
		lost("something that is not a JSON object", nil)
		return
	}
	// the clean model without the key that carries the unencodable value, and the document without that member
	m := &value{spec: s, vals: map[string]any{}, custom: map[string]any{}}
	for k, x := range hp.v.vals {
		m.vals[k] = x
	}
	for k, x := range hp.v.custom {
		m.custom[k] = x
	}
	if hp.v.custom == nil {
		m.custom = nil
	}
	present := false
	switch hp.pos {
	case posCustom, posNested:
		_, present = refObj[hp.key]
		delete(refObj, hp.key)
		delete(m.custom, hp.key)
	case posEvents:
		evs := map[string]any{}
		if old, _ := hp.v.vals["events"].(map[string]any); old != nil {
			for k, x := range old {
				evs[k] = x
			}
		}
		delete(evs, hp.key)
		m.vals["events"] = evs
		if de, _ := refObj["events"].(map[string]any); de != nil {
			_, present = de[hp.key]
			delete(de, hp.key)
			if len(de) == 0 && len(evs) == 0 {
				delete(refObj, "events")
			}
		}
	case posActor:
		// copy the actor chain down to the level that carries the value
		var copyChain func(a *actorM, d int) *actorM
		copyChain = func(a *actorM, d int) *actorM {
			if a == nil {
				return nil
			}
			cp := &actorM{Iss: a.Iss, Sub: a.Sub, Act: a.Act, Custom: a.Custom}
			if d == hp.depth {
				cp.Custom = map[string]any{}
				for k, x := range a.Custom {
					if k != hp.key {
						cp.Custom[k] = x
					}
				}
				return cp
			}
			cp.Act = copyChain(a.Act, d+1)
			return cp
		}
		a, _ := hp.v.vals["act"].(*actorM)
		m.vals["act"] = copyChain(a, 1)
		var level map[string]any = refObj
		for d := 1; d <= hp.depth && level != nil; d++ {
			level, _ = level["act"].(map[string]any)
		}
		if level != nil {
			_, present = level[hp.key]
			delete(level, hp.key)
		}
	}
	issues := checkDoc(m, refObj, nil, c.t, false)
	if !present || len(issues) > 0 {
		var details []string
		if !present {
			details = append(details, fmt.Sprintf("no member %q for the custom value that cannot be encoded (%s)", hp.key, hp.pos))
		}
		for _, is := range issues {
			details = append(details, is.detail)
		}
		lost("a document that lacks claims of the value: "+trunc(strings.Join(details, "; "), 600), map[string]any{"issues": details})
		return
	}
	c.t.count("history_fault", bucket+" -> marshalled without error, every claim of the value is in the document (left open)")
}

func runHistory(c *ctx, i int, sched string) {
	caseID := partHistory*partSize + int64(i)
	r := c.run.CaseRand(uint64(partHistory), i)
	g := gen{r}
	h := g.newHistory(i)
	h.sched = sched
	c.run.Eval()

	var ledger []ledgerEntry
	var first map[string]any
	firstStep := -1
	var failedM, failedU, otherG bool
	classes, positions := map[string]bool{}, map[string]bool{}
	var overwrites, lacks bool
	probesAfter, same := 0, 0
	for step, hp := range h.ops {
		switch hp.op {
		case "MF", "UF":
			if c.runFault(caseID, h, step) {
				if hp.op == "MF" {
					failedM = true
					classes[hp.kind.class], positions[hp.pos] = true, true
					if _, has := h.probe.custom[hp.key]; has {
						overwrites = true
					} else if len(h.probe.custom) > 0 {
						lacks = true
					}
				} else {
					failedU = true
				}
				otherG = otherG || hp.other
			}
			ledger = append(ledger, ledgerOf(step, hp.v)...)
		case "MO":
			c.judgeValid(caseID, h, step, ledger, failedM || failedU)
			ledger = append(ledger, ledgerOf(step, hp.v)...)
		case "PR":
			ref := c.judgeValid(caseID, h, step, ledger, failedM || failedU)
			if ref == nil {
				continue
			}
			if failedM || failedU {
				probesAfter++
			}
			if first == nil {
				first, firstStep = ref, step
				continue
			}
			if jsonEqRef(first, ref) {
				same++
				continue
			}
			w := h.witness(step)
			w["first_document_at_step"] = firstStep
			c.t.count("history_step", "PR: document differs from the one the same value gave before")
			c.run.Violation("C12:history:"+hp.v.spec.site+":same-value-different-document", caseID,
				fmt.Sprintf("the same %s was marshalled at step %d and at step %d of a history and gave two different documents", hp.v.spec.name, firstStep, step), w)
		}
	}
	if probesAfter == 0 {
		c.t.count("history_outcome", "no probe was judged after a failed step")
		return
	}
	c.t.count("history_outcome", "probe judged after a failed step")
	c.t.count("history_sched", sched)
	c.observe("history:" + sched)
	if same > 0 {
		c.observe("history:same-value-same-document")
	}
	var cls, poss []string
	if failedM {
		c.observe("history:probe-after-failed-marshal")
		for k := range classes {
			c.observe("history:fault:" + k)
			cls = append(cls, k)
		}
		for k := range positions {
			c.observe("history:at:" + k)
			poss = append(poss, k)
		}
		if overwrites {
			c.observe("history:probe-overwrites-the-unencodable-key")
		}
		if lacks {
			c.observe("history:probe-without-the-unencodable-key")
		}
	}
	if failedU {
		c.observe("history:probe-after-failed-unmarshal")
		c.observe("history:fault:decode-error")
		cls = append(cls, "decode-error")
	}
	if otherG {
		c.observe("history:fault-on-other-goroutine")
	}
	sort.Strings(cls)
	sort.Strings(poss)
	custom := "custom"
	if len(h.probe.custom) == 0 {
		custom = "no-custom"
	}
	c.t.dim(fmt.Sprintf("hist|%s|%s|%s|%s|%s|other=%v|ops=%d", sched, h.probe.spec.name, custom, strings.Join(cls, "+"), strings.Join(poss, "+"), otherG, len(h.ops)))
	if i%997 == 0 && len(h.ops) <= 4 {
		c.run.SampleKind("history", h.witness(len(h.ops)-1))
	}
}

const (
	schedSingleP  = "single-P"
	schedParallel = "parallel"
)

// historySched: the first nSerial cases of the part run on one P.
func historySched(i, nSerial int) string {
	if i < nSerial {
		return schedSingleP
	}
	return schedParallel
}

// runHistories runs the whole part; returns nothing a verdict depends on.
func runHistories(run *ev.Run, tallies []*tally, n, nSerial, workers int) {
	if nSerial > n {
		nSerial = n
	}
	t0 := time.Now()
	func() {
		old := runtime.GOMAXPROCS(1)
		defer runtime.GOMAXPROCS(old)
		for i := 0; i < nSerial; i++ {
			runHistory(&ctx{run, tallies[0]}, i, schedSingleP)
		}
	}()
	run.Extra("history_single_P_wall_s", float64(time.Since(t0).Milliseconds())/1000) // informational only
	ev.Parallel(n-nSerial, workers, func(w, j int) { runHistory(&ctx{run, tallies[w]}, nSerial+j, schedParallel) })
}
