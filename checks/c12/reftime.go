package main

// Independent references for the "times as number or RFC 3339 string" clause:
// exact arithmetic on the literal number text (math/big) and a small RFC 3339
// reader / writer that shares no code with package time.

import (
	"fmt"
	"math/big"
	"regexp"
	"strconv"
	"strings"
)

// numRef describes what a JSON number literal stands for.
type numRef struct {
	exact    *big.Int // the literal truncated toward zero
	inRange  bool     // exact fits int64
	e        int64    // exact as int64 (inRange)
	fl       float64  // the literal as float64 (what a float64 based decoder sees)
	flOK     bool     // the float64 is finite
	flTrunc  int64    // trunc(fl) when flInRng
	flInRng  bool
	integral bool // the literal has no fraction
}

var two63 = new(big.Int).Lsh(big.NewInt(1), 63)

func refNumber(lit string) (numRef, bool) {
	var n numRef
	rat, ok := new(big.Rat).SetString(lit)
	if !ok {
		return n, false
	}
	n.integral = rat.IsInt()
	n.exact = new(big.Int).Quo(rat.Num(), rat.Denom()) // Quo truncates toward zero
	if n.exact.IsInt64() {
		n.inRange = true
		n.e = n.exact.Int64()
	}
	fl, err := strconv.ParseFloat(lit, 64)
	if err == nil {
		n.fl, n.flOK = fl, true
		if fl >= -9223372036854775808.0 && fl < 9223372036854775808.0 {
			n.flInRng = true
			n.flTrunc = int64(fl)
		}
	}
	return n, true
}

// daysFromCivil: days since 1970-01-01 of a proleptic Gregorian date (Howard Hinnant's algorithm).
func daysFromCivil(y, m, d int64) int64 {
	if m <= 2 {
		y--
	}
	var era int64
	if y >= 0 {
		era = y / 400
	} else {
		era = (y - 399) / 400
	}
	yoe := y - era*400
	mp := (m + 9) % 12
	doy := (153*mp+2)/5 + d - 1
	doe := yoe*365 + yoe/4 - yoe/100 + doy
	return era*146097 + doe - 719468
}

func civilFromDays(z int64) (y, m, d int64) {
	z += 719468
	var era int64
	if z >= 0 {
		era = z / 146097
	} else {
		era = (z - 146096) / 146097
	}
	doe := z - era*146097
	yoe := (doe - doe/1460 + doe/36524 - doe/146096) / 365
	y = yoe + era*400
	doy := doe - (365*yoe + yoe/4 - yoe/100)
	mp := (5*doy + 2) / 153
	d = doy - (153*mp+2)/5 + 1
	if mp < 10 {
		m = mp + 3
	} else {
		m = mp - 9
	}
	if m <= 2 {
		y++
	}
	return
}

func daysIn(y, m int64) int64 {
	switch m {
	case 4, 6, 9, 11:
		return 30
	case 2:
		if y%4 == 0 && (y%100 != 0 || y%400 == 0) {
			return 29
		}
		return 28
	}
	return 31
}

// formatRFC3339 writes the instant `unix` (+ a fraction given as digits) as seen at a UTC offset.
func formatRFC3339(unix int64, offMin int, fracDigits string, zulu bool) string {
	local := unix + int64(offMin)*60
	days := local / 86400
	rem := local % 86400
	if rem < 0 {
		rem += 86400
		days--
	}
	y, m, d := civilFromDays(days)
	s := fmt.Sprintf("%04d-%02d-%02dT%02d:%02d:%02d", y, m, d, rem/3600, rem%3600/60, rem%60)
	if fracDigits != "" {
		s += "." + fracDigits
	}
	if offMin == 0 && zulu {
		return s + "Z"
	}
	sign := "+"
	o := offMin
	if o < 0 {
		sign, o = "-", -o
	}
	return s + fmt.Sprintf("%s%02d:%02d", sign, o/60, o%60)
}

var reTime = regexp.MustCompile(`^(\d{4})-(\d{2})-(\d{2})([Tt ])(\d{2}):(\d{2}):(\d{2})(?:([.,])(\d+))?([Zz]|[+-]\d{2}:\d{2})?$`)

// timeRef is what a string stands for as a time.
type timeRef struct {
	shaped bool    // looks like a date-time at all
	strict bool    // a valid RFC 3339 date-time in years 0000-9999: a documented form, must be accepted
	floor  int64   // the instant, rounded down to whole seconds
	alts   []int64 // other acceptable readings (rounding up a fraction, the zero-time normalisation)
}

func refTimeString(s string) timeRef {
	var t timeRef
	m := reTime.FindStringSubmatch(s)
	if m == nil {
		return t
	}
	atoi := func(x string) int64 { v, _ := strconv.ParseInt(x, 10, 64); return v }
	y, mo, d, h, mi, sec := atoi(m[1]), atoi(m[2]), atoi(m[3]), atoi(m[5]), atoi(m[6]), atoi(m[7])
	if mo < 1 || mo > 12 || d < 1 || d > daysIn(y, mo) || h > 23 || mi > 59 || sec > 60 {
		return t // not a time at all: the reference derives nothing from it
	}
	t.shaped = true
	strict := m[4] == "T" && sec <= 59 && (m[8] == "" || m[8] == ".") && m[10] != "" && m[10] != "z"
	var off int64
	if z := m[10]; z != "" && z != "Z" && z != "z" {
		oh, om := atoi(z[1:3]), atoi(z[4:6])
		if oh > 23 || om > 59 {
			strict = false
		}
		off = oh*3600 + om*60
		if z[0] == '-' {
			off = -off
		}
	}
	t.strict = strict
	t.floor = daysFromCivil(y, mo, d)*86400 + h*3600 + mi*60 + sec - off
	if strings.Trim(m[9], "0") != "" {
		t.alts = append(t.alts, t.floor+1)
	}
	if sec == 60 {
		t.alts = append(t.alts, t.floor-1)
	}
	return t
}
