package main

// The decoding oracle: for a registered field of a given kind and the JSON
// value the document holds for it, which decoded values are derivable from the
// document, and whether the form is one of the documented tolerant forms that
// must be accepted. Everything else must be answered with an error or the
// zero value - never a panic, never a value the document did not contain.

import (
	"bytes"
	"encoding/json"
	"fmt"
	"io"
	"reflect"
	"strings"

	"golang.org/x/text/language"
)

// finding is one failed judgement.
type finding struct {
	Kind   string // decoder type
	Class  string // tolerant-form-rejected | value-not-in-document | value-lost | field-not-in-document | custom-claim-mismatch | panic
	Field  string
	Detail string
}

// leafVerdict: must = the form is documented and has to be accepted; ok = the observed value is derivable
// (only meaningful when the decode returned no error); bucket = what to count.
type leafVerdict struct {
	must   bool
	ok     bool
	lost   bool // observed zero although a non-zero value was due
	bucket string
	want   string
}

const zeroTimeUnix = -62135596800

func refDecode(raw []byte) (any, error) {
	d := json.NewDecoder(bytes.NewReader(raw))
	d.UseNumber()
	var v any
	if err := d.Decode(&v); err != nil {
		return nil, err
	}
	if _, err := d.Token(); err != io.EOF {
		return nil, fmt.Errorf("trailing data after the top-level value")
	}
	return v, nil
}

func allStrings(a []any) ([]string, bool) {
	out := make([]string, len(a))
	for i, x := range a {
		s, ok := x.(string)
		if !ok {
			return nil, false
		}
		out[i] = s
	}
	return out, true
}

func stringsOrNull(a []any) ([]string, bool) {
	out := make([]string, len(a))
	for i, x := range a {
		if x == nil {
			continue
		}
		s, ok := x.(string)
		if !ok {
			return nil, false
		}
		out[i] = s
	}
	return out, true
}

func refLocaleTokens(toks []string) []string {
	out := []string{}
	for _, t := range toks {
		tag, err := language.Parse(t)
		if err == nil && !tag.IsRoot() {
			out = append(out, tag.String())
		}
	}
	return out
}

func inInts(x int64, xs ...int64) bool {
	for _, y := range xs {
		if x == y {
			return true
		}
	}
	return false
}

// judgeLeaf decides one field. ref is the reference decode (UseNumber) of the document's value for the
// field; got is the model form of what the library produced (readField).
func judgeLeaf(k kind, ref any, got any) leafVerdict {
	switch k {
	case kString, kDisplay:
		g := got.(string)
		switch r := ref.(type) {
		case string:
			if k == kDisplay {
				switch r {
				case "page", "popup", "touch", "wap":
					return leafVerdict{must: true, ok: g == r, lost: g == "", bucket: "display:known", want: r}
				}
				return leafVerdict{ok: g == "" || g == r, bucket: "display:unknown-string", want: `"" or ` + r}
			}
			return leafVerdict{must: true, ok: g == r, lost: g == "" && r != "", bucket: "string:string", want: r}
		case nil:
			return leafVerdict{ok: g == "", bucket: "string:null", want: `""`}
		}
		return leafVerdict{ok: g == "", bucket: "string:other-kind", want: `error or ""`}

	case kTime:
		g := got.(int64)
		switch r := ref.(type) {
		case json.Number:
			n, ok := refNumber(string(r))
			if !ok || !n.flOK {
				return leafVerdict{ok: g == 0, bucket: "time:number-unrepresentable", want: "error or 0"}
			}
			if n.inRange && n.flInRng {
				v := leafVerdict{must: true, ok: g == n.e || g == n.flTrunc, lost: g == 0 && n.e != 0 && n.flTrunc != 0, want: fmt.Sprint(n.e)}
				v.bucket = "time:number-in-range"
				if v.ok && g != n.e {
					v.bucket = "time:number-in-range(grey: float64-rounded)"
				}
				return v
			}
			if n.inRange {
				// in int64 range, but not after the customary float64 reading of a JSON number: exact, error and zero are all fine
				return leafVerdict{ok: g == n.e || g == 0, bucket: "time:number-at-int64-edge", want: fmt.Sprintf("%d, error or 0", n.e)}
			}
			if n.flInRng {
				// one past the int64 range, but its float64 reading (-2^63) is inside: the rounded value is left open
				return leafVerdict{ok: g == 0 || g == n.flTrunc, bucket: "time:number-just-out-of-range(grey: float64-rounded)", want: "error or 0"}
			}
			return leafVerdict{ok: g == 0, bucket: "time:number-out-of-range", want: "error or 0"}
		case string:
			t := refTimeString(r)
			if t.shaped {
				acc := append([]int64{t.floor}, t.alts...)
				if t.floor == zeroTimeUnix {
					acc = append(acc, 0)
				}
				if t.strict {
					return leafVerdict{must: true, ok: inInts(g, acc...), lost: g == 0 && !inInts(0, acc...), bucket: "time:rfc3339", want: fmt.Sprint(t.floor)}
				}
				return leafVerdict{ok: g == 0 || inInts(g, acc...), bucket: "time:rfc3339-like", want: fmt.Sprintf("error, 0 or %d", t.floor)}
			}
			if n, ok := refNumber(strings.TrimSpace(r)); ok && n.inRange {
				return leafVerdict{ok: g == 0 || g == n.e, bucket: "time:numeric-string", want: fmt.Sprintf("error, 0 or %d", n.e)}
			}
			return leafVerdict{ok: g == 0, bucket: "time:other-string", want: "error or 0"}
		case nil:
			return leafVerdict{ok: g == 0, bucket: "time:null", want: "0"}
		}
		return leafVerdict{ok: g == 0, bucket: "time:other-kind", want: "error or 0"}

	case kAud, kStrings:
		g := got.([]string)
		switch r := ref.(type) {
		case string:
			if k == kAud {
				return leafVerdict{must: true, ok: sameStrings(g, []string{r}), lost: len(g) == 0, bucket: "aud:string", want: fmt.Sprintf("[%q]", r)}
			}
			return leafVerdict{ok: len(g) == 0 || sameStrings(g, []string{r}), bucket: "strings:string", want: "error or empty"}
		case []any:
			if ss, ok := allStrings(r); ok {
				return leafVerdict{must: true, ok: sameStrings(g, ss), lost: len(g) == 0 && len(ss) > 0, bucket: k.String() + ":array-of-strings", want: fmt.Sprintf("%q", ss)}
			}
			if ss, ok := stringsOrNull(r); ok {
				// encoding/json leaves the element's zero value for a null element
				return leafVerdict{ok: len(g) == 0 || sameStrings(g, ss), bucket: k.String() + ":array-of-strings-and-null", want: "error, empty or null read as \"\""}
			}
			return leafVerdict{ok: len(g) == 0, bucket: k.String() + ":array-with-non-string", want: "error or empty"}
		case nil:
			return leafVerdict{ok: len(g) == 0, bucket: k.String() + ":null", want: "empty"}
		}
		return leafVerdict{ok: len(g) == 0, bucket: k.String() + ":other-kind", want: "error or empty"}

	case kScope:
		g := got.([]string)
		switch r := ref.(type) {
		case string:
			ok := sameStrings(g, strings.Split(r, " ")) || sameStrings(g, strings.Fields(r))
			return leafVerdict{must: true, ok: ok, lost: len(g) == 0 && len(strings.Fields(r)) > 0, bucket: "scope:string", want: fmt.Sprintf("%q", strings.Split(r, " "))}
		case []any:
			if ss, ok := allStrings(r); ok {
				return leafVerdict{ok: len(g) == 0 || sameStrings(g, ss), bucket: "scope:array-of-strings", want: "error, empty or the array"}
			}
			return leafVerdict{ok: len(g) == 0, bucket: "scope:array-with-non-string", want: "error or empty"}
		case nil:
			// null is read like the empty string, whose split is one empty item
			return leafVerdict{ok: len(g) == 0 || sameStrings(g, []string{""}), bucket: "scope:null", want: "empty"}
		}
		return leafVerdict{ok: len(g) == 0, bucket: "scope:other-kind", want: "error or empty"}

	case kBool:
		g := got.(bool)
		switch r := ref.(type) {
		case bool:
			return leafVerdict{must: true, ok: g == r, lost: !g && r, bucket: "bool:bool", want: fmt.Sprint(r)}
		case nil:
			return leafVerdict{ok: !g, bucket: "bool:null", want: "false"}
		}
		return leafVerdict{ok: !g, bucket: "bool:other-kind", want: "error or false"}

	case kTolBool:
		g := got.(bool)
		switch r := ref.(type) {
		case bool:
			return leafVerdict{must: true, ok: g == r, lost: !g && r, bucket: "Bool:bool", want: fmt.Sprint(r)}
		case string:
			switch {
			case r == "true":
				return leafVerdict{must: true, ok: g, lost: !g, bucket: "Bool:string-true", want: "true"}
			case r == "false":
				return leafVerdict{must: true, ok: !g, bucket: "Bool:string-false", want: "false"}
			case strings.EqualFold(r, "true") || r == "1":
				return leafVerdict{ok: true, bucket: "Bool:truthy-string", want: "error, false or true"}
			}
			return leafVerdict{ok: !g, bucket: "Bool:other-string", want: "error or false"}
		case json.Number:
			if string(r) == "1" {
				return leafVerdict{ok: true, bucket: "Bool:number-1", want: "error, false or true"}
			}
			return leafVerdict{ok: !g, bucket: "Bool:number", want: "error or false"}
		case nil:
			return leafVerdict{ok: !g, bucket: "Bool:null", want: "false"}
		}
		return leafVerdict{ok: !g, bucket: "Bool:other-kind", want: "error or false"}

	case kLocale:
		g := string(got.(localeM))
		if g == "und" {
			g = ""
		}
		if r, ok := ref.(string); ok {
			tag, err := language.Parse(r)
			if err == nil && !tag.IsRoot() {
				// the tag as written and its canonical form ("iw" / "he") are the same locale
				gt, gerr := language.Parse(g)
				return leafVerdict{must: true, ok: g != "" && gerr == nil && gt == tag, lost: g == "", bucket: "locale:well-formed", want: tag.String()}
			}
			if err == nil {
				return leafVerdict{ok: g == "", bucket: "locale:root", want: "und"}
			}
			return leafVerdict{ok: g == "", bucket: "locale:not-a-tag", want: "error or und"}
		}
		if ref == nil {
			return leafVerdict{ok: g == "", bucket: "locale:null", want: "nil"}
		}
		return leafVerdict{ok: g == "", bucket: "locale:other-kind", want: "error or nil"}

	case kLocales:
		g := got.([]string)
		switch r := ref.(type) {
		case string:
			want := refLocaleTokens(strings.Split(r, " "))
			return leafVerdict{must: true, ok: sameStrings(g, want), lost: len(g) == 0 && len(want) > 0, bucket: "locales:space-delimited", want: fmt.Sprint(want)}
		case []any:
			if ss, ok := allStrings(r); ok {
				want := refLocaleTokens(ss)
				return leafVerdict{must: true, ok: sameStrings(g, want), lost: len(g) == 0 && len(want) > 0, bucket: "locales:array-of-strings", want: fmt.Sprint(want)}
			}
			return leafVerdict{ok: len(g) == 0, bucket: "locales:array-with-non-string", want: "error or empty"}
		case nil:
			return leafVerdict{ok: len(g) == 0, bucket: "locales:null", want: "empty"}
		}
		return leafVerdict{ok: len(g) == 0, bucket: "locales:other-kind", want: "error or empty"}

	case kUintPtr:
		p := got.(*uint)
		if r, ok := ref.(json.Number); ok {
			n, okn := refNumber(string(r))
			lit := string(r)
			plain := !strings.ContainsAny(lit, ".eE-")
			if okn && plain && n.inRange {
				return leafVerdict{must: true, ok: p != nil && int64(*p) == n.e, lost: p == nil, bucket: "max_age:unsigned-integer", want: fmt.Sprint(n.e)}
			}
			if okn && n.integral && n.exact.IsUint64() {
				return leafVerdict{ok: p == nil || uint64(*p) == n.exact.Uint64(), bucket: "max_age:integral-number", want: "error, nil or the number"}
			}
			return leafVerdict{ok: p == nil || *p == 0, bucket: "max_age:other-number", want: "error or nil"}
		}
		return leafVerdict{ok: p == nil || *p == 0, bucket: "max_age:not-a-number", want: "error or nil"}

	case kEvents:
		g := got.(map[string]any)
		switch r := ref.(type) {
		case map[string]any:
			return leafVerdict{must: true, ok: nativeEqRef(r, g), lost: len(g) == 0 && len(r) > 0, bucket: "events:object", want: "the object"}
		case nil:
			return leafVerdict{ok: len(g) == 0, bucket: "events:null", want: "empty"}
		}
		return leafVerdict{ok: len(g) == 0, bucket: "events:other-kind", want: "error or empty"}

	case kAddress:
		g := got.(*addrM)
		switch r := ref.(type) {
		case map[string]any:
			if hasFoldVariantOf(r, addressFields...) {
				return leafVerdict{ok: true, bucket: "address:object-with-case-variant-keys"}
			}
			v := leafVerdict{must: true, ok: true, bucket: "address:object", want: "the object's members"}
			for i, n := range addressFields {
				sub, present := r[n]
				gs := ""
				if g != nil {
					gs = g.F[i]
				}
				if !present {
					if gs != "" {
						v.ok = false
					}
					continue
				}
				sv := judgeLeaf(kString, sub, gs)
				if !sv.must {
					v.must = false
					v.bucket = "address:object-with-non-string-member"
				}
				if !sv.ok {
					v.ok = false
				}
			}
			return v
		case nil:
			return leafVerdict{ok: g.empty(), bucket: "address:null", want: "nil"}
		}
		return leafVerdict{ok: g.empty(), bucket: "address:other-kind", want: "error or nil"}

	case kActor:
		g := got.(*actorM)
		switch r := ref.(type) {
		case map[string]any:
			return judgeActor(r, g)
		case nil:
			return leafVerdict{ok: g == nil || actorEmpty(g), bucket: "act:null", want: "nil"}
		}
		return leafVerdict{ok: g == nil || actorEmpty(g), bucket: "act:other-kind", want: "error or nil"}
	}
	panic("judgeLeaf: unknown kind")
}

func actorEmpty(a *actorM) bool {
	return a == nil || (a.Iss == "" && a.Sub == "" && a.Act == nil)
}

func hasFoldVariantOf(m map[string]any, names ...string) bool {
	for k := range m {
		for _, n := range names {
			if k != n && foldEq(k, n) {
				return true
			}
		}
	}
	return false
}

func judgeActor(r map[string]any, g *actorM) leafVerdict {
	v := leafVerdict{must: true, ok: true, bucket: "act:object", want: "the object's members"}
	if hasFoldVariantOf(r, "iss", "sub", "act") {
		// which member a case-variant key lands in is Go's business: only "no panic" is judged
		return leafVerdict{ok: true, bucket: "act:object-with-case-variant-keys"}
	}
	if g == nil {
		g = &actorM{}
		if len(r) > 0 {
			v.ok = false
			v.lost = true
			return v
		}
	}
	for _, n := range []string{"iss", "sub"} {
		gs := g.Iss
		if n == "sub" {
			gs = g.Sub
		}
		sub, present := r[n]
		if !present {
			if gs != "" {
				v.ok = false
			}
			continue
		}
		sv := judgeLeaf(kString, sub, gs)
		if !sv.must {
			v.must, v.bucket = false, "act:object-with-ill-typed-member"
		}
		if !sv.ok {
			v.ok = false
		}
	}
	if sub, present := r["act"]; present {
		sv := judgeLeaf(kActor, sub, g.Act)
		if !sv.must {
			v.must, v.bucket = false, "act:object-with-ill-typed-member"
		}
		if !sv.ok {
			v.ok = false
		}
	} else if g.Act != nil {
		v.ok = false
	}
	// the actor's custom map holds the whole object
	if g.Custom != nil && !nativeEqRef(r, g.Custom) {
		v.ok = false
	}
	return v
}

// nativeEqRef compares a UseNumber reference decode with a plain decode (float64 numbers).
func nativeEqRef(ref any, got any) bool {
	switch r := ref.(type) {
	case nil:
		return got == nil
	case string:
		g, ok := got.(string)
		return ok && g == r
	case bool:
		g, ok := got.(bool)
		return ok && g == r
	case json.Number:
		g, ok := got.(float64)
		if !ok {
			return false
		}
		fl, err := r.Float64()
		return err == nil && fl == g
	case []any:
		g, ok := got.([]any)
		if !ok || len(g) != len(r) {
			return false
		}
		for i := range r {
			if !nativeEqRef(r[i], g[i]) {
				return false
			}
		}
		return true
	case map[string]any:
		g, ok := got.(map[string]any)
		if !ok || len(g) != len(r) {
			return false
		}
		for k, rv := range r {
			gv, ok := g[k]
			if !ok || !nativeEqRef(rv, gv) {
				return false
			}
		}
		return true
	}
	return false
}

// hasDuplicateKeys reports whether the top-level object repeats a member name.
func topLevelKeys(raw []byte) (keys []string, dup bool) {
	d := json.NewDecoder(bytes.NewReader(raw))
	tok, err := d.Token()
	if err != nil || tok != json.Delim('{') {
		return nil, false
	}
	seen := map[string]bool{}
	for d.More() {
		kt, err := d.Token()
		if err != nil {
			return keys, dup
		}
		k, _ := kt.(string)
		if seen[k] {
			dup = true
		}
		seen[k] = true
		keys = append(keys, k)
		var skip json.RawMessage
		if err := d.Decode(&skip); err != nil {
			return keys, dup
		}
	}
	return keys, dup
}

// docResult is the outcome of decoding one document into one claims type.
type docResult struct {
	findings []finding
	buckets  []string
	errored  bool
	decided  bool // at least one field reached the deciding step
}

// judgeDoc decides one decode of `raw` into a fresh value of type s. err / ptr are what the library returned.
func judgeDoc(s *typeSpec, raw []byte, ptr any, err error) docResult {
	var res docResult
	ref, rerr := refDecode(raw)
	if rerr != nil {
		// not JSON at all: the only acceptable answer is an error
		if err == nil {
			res.findings = append(res.findings, finding{Kind: s.name, Class: "invalid-json-accepted", Detail: "document is not valid JSON but decoding reported success"})
		}
		res.buckets = append(res.buckets, "doc:invalid-json")
		res.decided = true
		return res
	}
	rv := reflect.ValueOf(ptr).Elem()
	obj, isObj := ref.(map[string]any)
	if !isObj {
		res.decided = true
		res.buckets = append(res.buckets, "doc:not-an-object")
		if err != nil {
			res.errored = true
			return res
		}
		nz := map[string]bool{}
		nonZeroFields(rv, nz)
		for n := range nz {
			res.findings = append(res.findings, finding{Kind: s.name, Class: "field-not-in-document", Field: n, Detail: "a non-object document left a non-zero value in " + n})
		}
		return res
	}
	_, dup := topLevelKeys(raw)
	if dup {
		// which duplicate wins is not the property's business
		res.buckets = append(res.buckets, "doc:duplicate-keys(only panic-freedom judged)")
		res.errored = err != nil
		return res
	}
	res.errored = err != nil
	allMust := true
	allowedNonZero := map[string]bool{}
	foldShadow := false
	for k := range obj {
		if fd, ok := s.byName[k]; ok {
			allowedNonZero[fd.goName] = true
			continue
		}
		for i := range s.fields {
			if foldEq(k, s.fields[i].name) {
				allowedNonZero[s.fields[i].goName] = true
				foldShadow = true
			}
		}
	}
	if foldShadow {
		res.buckets = append(res.buckets, "doc:case-variant-key(grey)")
		allMust = false
	}
	for i := range s.fields {
		fd := &s.fields[i]
		sub, present := obj[fd.name]
		if !present {
			continue
		}
		if foldShadow {
			continue
		}
		got := readField(rv, fd)
		v := judgeLeaf(fd.kind, sub, got)
		res.decided = true
		if !v.must {
			allMust = false
		}
		if err != nil {
			res.buckets = append(res.buckets, v.bucket+" -> error")
			continue
		}
		switch {
		case v.ok:
			res.buckets = append(res.buckets, v.bucket+" -> ok")
		case v.lost:
			res.findings = append(res.findings, finding{Kind: fd.kind.String(), Class: "value-lost", Field: fd.name,
				Detail: fmt.Sprintf("%s.%s: document holds %s, decoded without error to the zero value (want %s)", s.name, fd.name, compact(sub), v.want)})
		default:
			res.findings = append(res.findings, finding{Kind: fd.kind.String(), Class: "value-not-in-document", Field: fd.name,
				Detail: fmt.Sprintf("%s.%s: document holds %s, decoded without error to %s (want %s)", s.name, fd.name, compact(sub), show(got), v.want)})
		}
	}
	if err != nil {
		if allMust && len(obj) > 0 {
			// every member is a documented form (or a custom claim): rejecting the document is a refusal of a
			// tolerant form. Attribute it: decode each registered member alone into a fresh value.
			var members map[string]json.RawMessage
			_ = json.Unmarshal(raw, &members)
			attributed := false
			for i := range s.fields {
				fd := &s.fields[i]
				mv, present := members[fd.name]
				if !present {
					continue
				}
				key, _ := json.Marshal(fd.name)
				single := append(append(append([]byte("{"), key...), ':'), append(mv, '}')...)
				var serr error
				func() {
					defer func() { _ = recover() }() // a panic here was already reported by the caller's own decode
					serr = json.Unmarshal(single, s.newPtr())
				}()
				if serr != nil {
					attributed = true
					res.findings = append(res.findings, finding{Kind: fd.kind.String(), Class: "tolerant-form-rejected", Field: fd.name,
						Detail: fmt.Sprintf("%s.%s: the documented form %s was rejected: %v", s.name, fd.name, trunc(string(mv), 200), serr)})
				}
			}
			if !attributed {
				res.findings = append(res.findings, finding{Kind: s.name, Class: "tolerant-form-rejected", Field: "document",
					Detail: fmt.Sprintf("%s: every member of the document is a documented form and decodes alone, yet the document was rejected: %v", s.name, err)})
			}
		}
		return res
	}
	// nothing the document did not contain
	nz := map[string]bool{}
	nonZeroFields(rv, nz)
	for n := range nz {
		if !allowedNonZero[n] {
			res.findings = append(res.findings, finding{Kind: s.name, Class: "field-not-in-document", Field: n,
				Detail: fmt.Sprintf("%s: field %s is non-zero after decoding although the document has no such member", s.name, n)})
		}
	}
	// the custom-claim map holds every member of the document
	if s.private {
		j := ptr.(interface{ GetCustomClaim(string) any })
		for k, rvv := range obj {
			if !nativeEqRef(rvv, j.GetCustomClaim(k)) {
				res.findings = append(res.findings, finding{Kind: s.name, Class: "custom-claim-mismatch", Field: "custom", Detail: fmt.Sprintf("%s: custom claim %q differs from the document", s.name, k)})
				break
			}
		}
	} else if s.name != "RequestObject" {
		cl := getClaims(s, ptr)
		if !nativeEqRef(obj, cl) && !(len(obj) == 0 && len(cl) == 0) {
			res.findings = append(res.findings, finding{Kind: s.name, Class: "custom-claim-mismatch", Field: "custom", Detail: fmt.Sprintf("%s: Claims map %s differs from the document", s.name, show(cl))})
		}
	}
	return res
}

func compact(v any) string {
	b, err := json.Marshal(v)
	if err != nil {
		return fmt.Sprint(v)
	}
	if len(b) > 200 {
		return string(b[:200]) + "..."
	}
	return string(b)
}

func show(v any) string {
	switch x := v.(type) {
	case *uint:
		if x == nil {
			return "nil"
		}
		return fmt.Sprint(*x)
	case *addrM:
		if x == nil {
			return "nil"
		}
		return fmt.Sprintf("%q", x.F)
	case *actorM:
		return compact(describeModel(x))
	}
	s := fmt.Sprintf("%#v", v)
	if len(s) > 200 {
		s = s[:200] + "..."
	}
	return s
}
