package main

// Part 4: the AES sealing of pkg/crypto (and its op.Crypto wrapper): every
// sealed string opens to its plaintext under the same key and only under that
// key; bad key lengths and malformed input are answered with an error - never a
// panic, never a silent success.

import (
	"encoding/base64"
	"encoding/hex"
	"fmt"
	"math/rand/v2"

	"github.com/zitadel/oidc/v3/pkg/crypto"
	"github.com/zitadel/oidc/v3/pkg/op"

	"verif/internal/mon"
)

func randBytes(r *rand.Rand, n int) []byte {
	b := make([]byte, n)
	for i := range b {
		b[i] = byte(r.IntN(256))
	}
	return b
}

func plen(n int) string {
	switch {
	case n == 0:
		return "0"
	case n < 8:
		return "1-7"
	case n < 16:
		return "8-15"
	case n == 16:
		return "16"
	case n < 64:
		return "17-63"
	}
	return "64+"
}

func (c *ctx) aesCall(caseID int64, what string, wit map[string]any, fn func()) bool {
	pi := mon.Catch(fn)
	if pi == nil {
		return true
	}
	if pi.Harness || !pi.InRepo {
		// a panic below the library (crypto/aes, crypto/cipher) reached through a library call is the library's to prevent
		if !pi.Harness {
			wit["panic"], wit["stack_head"] = pi.Value, trunc(pi.Stack, 1500)
			c.run.Violation("C12:aes:panic:"+what, caseID, what+" panicked: "+pi.Value, wit)
			return false
		}
		c.run.HarnessBug("panic in harness code during " + what + ": " + pi.Value + " at " + pi.Frame)
		return false
	}
	wit["panic"], wit["site"] = pi.Value, pi.Site()
	c.run.Violation("C12:aes:panic:"+what, caseID, what+" panicked at "+pi.Site()+": "+pi.Value, wit)
	return false
}

type otherKey struct {
	class string // what it shares with / how it differs from the sealing key
	key   string
}

// otherKeys enumerates keys that are NOT the sealing key: one flipped bit and one replaced byte at EVERY byte
// position, keys that share only a prefix (8 / 16 / 24 bytes) or only the last 16 bytes, an unrelated key, and
// (crossLength) the valid shorter prefixes / zero-extended longer keys.
func otherKeys(r *rand.Rand, key string, crossLength bool) []otherKey {
	n := len(key)
	var out []otherKey
	for j := 0; j < n; j++ {
		b := []byte(key)
		b[j] ^= 1 << r.IntN(8)
		out = append(out, otherKey{fmt.Sprintf("one-bit-flipped@byte%02d", j), string(b)})
		b = []byte(key)
		b[j] += byte(1 + r.IntN(255))
		out = append(out, otherKey{fmt.Sprintf("one-byte-replaced@byte%02d", j), string(b)})
	}
	differ := func(b []byte, from, to int) { // make every byte in [from,to) differ from the sealing key
		for j := from; j < to; j++ {
			b[j] = key[j] + byte(1+r.IntN(255))
		}
	}
	for _, share := range []int{8, 16, 24} {
		if share < n {
			b := []byte(key)
			differ(b, share, n)
			out = append(out, otherKey{fmt.Sprintf("shares-first-%d-bytes", share), string(b)})
			// and the minimal form: only the very last byte differs is covered by the sweep; here only ONE byte after the shared prefix
			b = []byte(key)
			differ(b, share, share+1)
			out = append(out, otherKey{fmt.Sprintf("differs-only-at-byte-%d", share), string(b)})
		}
	}
	if n >= 16 {
		b := []byte(key)
		differ(b, 0, n-16)
		if n == 16 {
			differ(b, 0, 1)
			out = append(out, otherKey{"differs-only-at-byte-0", string(b)})
		} else {
			out = append(out, otherKey{"shares-last-16-bytes", string(b)})
		}
	}
	rnd := randBytes(r, n)
	if string(rnd) != key {
		out = append(out, otherKey{"unrelated-same-length", string(rnd)})
	}
	if crossLength {
		for _, l := range []int{16, 24, 32} {
			if l < n {
				out = append(out, otherKey{fmt.Sprintf("prefix-%d-of-%d", l, n), key[:l]})
			} else if l > n {
				out = append(out, otherKey{fmt.Sprintf("zero-extended-%d-to-%d", n, l), key + string(make([]byte, l-n))})
				out = append(out, otherKey{fmt.Sprintf("self-extended-%d-to-%d", n, l), (key + key)[:l]})
			}
		}
	}
	return out
}

// sweepOtherKeys opens one sealed value under every key of otherKeys; for plaintexts of >= 8 bytes none may yield the plaintext.
func (c *ctx) sweepOtherKeys(caseID int64, r *rand.Rand, api, vioKey, key, p string, wit map[string]any, crossLength bool, open func(k string) (string, error)) bool {
	for _, ok := range otherKeys(r, key, crossLength) {
		if ok.key == key {
			c.run.HarnessBug("otherKeys produced the sealing key itself: " + ok.class)
			return false
		}
		var o string
		var oerr error
		if !c.aesCall(caseID, api+"(other key)", wit, func() { o, oerr = open(ok.key) }) {
			return false
		}
		switch {
		case oerr != nil:
			c.t.count("aes_other_key", api+" "+ok.class+": error")
		case o == p && len(p) >= 8:
			w := map[string]any{"other_key": ok.class, "other_key_hex": hex.EncodeToString([]byte(ok.key))}
			for k, v := range wit {
				w[k] = v
			}
			c.t.count("aes_other_key", api+" "+ok.class+": OPENED")
			c.run.Violation(vioKey, caseID, fmt.Sprintf("%s: a sealed value of %d bytes opened to its plaintext under a different key (%s)", api, len(p), ok.class), w)
			return false
		case o == p:
			c.t.count("aes_other_key", api+" (plaintext shorter than 8 bytes: not judged)")
		default:
			c.t.count("aes_other_key", api+" "+ok.class+": different plaintext")
			c.observe("aes:wrong-key")
			c.observe("aes:wrong-key:" + api)
		}
	}
	return true
}

func runAES(c *ctx, i int) {
	caseID := partAES*partSize + int64(i)
	r := c.run.CaseRand(uint64(partAES), i)
	c.run.Eval()
	g := gen{r}
	// plaintext: arbitrary bytes (a Go string may hold any), text, or structured like the codes the OP seals
	var p string
	switch r.IntN(5) {
	case 0:
		p = g.str()
	case 1:
		p = fmt.Sprintf("%s:%s", g.str(), g.str())
	default:
		n := pick(r, 0, 1, 7, 8, 9, 15, 16, 17, 31, 32, 33, 64, 100, r.IntN(400))
		p = string(randBytes(r, n))
	}
	klen := pick(r, 16, 24, 32)
	key := string(randBytes(r, klen))
	wit := map[string]any{"part": "aes", "plaintext_hex": hex.EncodeToString([]byte(p)), "key_hex": hex.EncodeToString([]byte(key))}

	// --- seal / open under a valid key
	var ct string
	var err error
	if !c.aesCall(caseID, "EncryptAES", wit, func() { ct, err = crypto.EncryptAES(p, key) }) {
		return
	}
	if err != nil {
		wit["error"] = err.Error()
		c.run.Violation("C12:aes:valid-key-refused", caseID, fmt.Sprintf("EncryptAES refused a %d-byte key: %v", klen, err), wit)
		return
	}
	wit["sealed"] = ct
	rawCT, derr := base64.RawURLEncoding.DecodeString(ct)
	if derr != nil || len(rawCT) != 16+len(p) {
		c.run.Violation("C12:aes:sealed-shape", caseID, fmt.Sprintf("sealed string is not raw URL base64 of IV+ciphertext (decode error %v, %d bytes for %d plaintext bytes)", derr, len(rawCT), len(p)), wit)
		return
	}
	var back string
	if !c.aesCall(caseID, "DecryptAES", wit, func() { back, err = crypto.DecryptAES(ct, key) }) {
		return
	}
	if err != nil || back != p {
		wit["opened_hex"], wit["error"] = hex.EncodeToString([]byte(back)), fmt.Sprint(err)
		c.run.Violation("C12:aes:roundtrip", caseID, "DecryptAES(EncryptAES(p,k),k) != p", wit)
		return
	}
	c.t.count("aes", fmt.Sprintf("roundtrip ok key=%d", klen))
	c.observe(fmt.Sprintf("aes:roundtrip:key%d", klen))
	c.t.dim(fmt.Sprintf("aes|roundtrip|k%d|p%s", klen, plen(len(p))))
	// the byte-level functions
	var rawSealed, rawBack []byte
	if !c.aesCall(caseID, "EncryptBytesAES", wit, func() { rawSealed, err = crypto.EncryptBytesAES([]byte(p), key) }) {
		return
	}
	if err == nil {
		cp := append([]byte{}, rawSealed...)
		if !c.aesCall(caseID, "DecryptBytesAES", wit, func() { rawBack, err = crypto.DecryptBytesAES(cp, key) }) {
			return
		}
	}
	if err != nil || string(rawBack) != p {
		wit["error"] = fmt.Sprint(err)
		c.run.Violation("C12:aes:roundtrip-bytes", caseID, "DecryptBytesAES(EncryptBytesAES(p,k),k) != p", wit)
		return
	}
	// sealing twice must not produce the same string (random IV) - observed, not judged by the statement
	var ct2 string
	c.aesCall(caseID, "EncryptAES", wit, func() { ct2, _ = crypto.EncryptAES(p, key) })
	if ct2 == ct {
		c.t.count("aes", "observed: two seals of the same plaintext are identical")
	} else {
		c.t.count("aes", "observed: two seals of the same plaintext differ (random IV)")
	}

	// --- only under the same key: a positional sweep over the whole key
	if !c.sweepOtherKeys(caseID, r, "crypto.DecryptAES", "C12:aes:opens-under-another-key", key, p, wit, true,
		func(k string) (string, error) { return crypto.DecryptAES(ct, k) }) {
		return
	}
	c.t.dim(fmt.Sprintf("aes|other-keys|k%d|p%s", klen, plen(len(p))))

	// --- the op.Crypto wrapper (what seals codes and opaque tokens): own 32-byte key, same sweep
	{
		var k32 [32]byte
		copy(k32[:], randBytes(r, 32))
		cr := op.NewAESCrypto(k32)
		var sealed, opened string
		var e1, e2 error
		ow := map[string]any{"part": "aes", "api": "op.NewAESCrypto", "plaintext_hex": wit["plaintext_hex"], "key_hex": hex.EncodeToString(k32[:])}
		if !c.aesCall(caseID, "op.Crypto", ow, func() {
			sealed, e1 = cr.Encrypt(p)
			opened, e2 = cr.Decrypt(sealed)
		}) {
			return
		}
		ow["sealed"] = sealed
		if e1 != nil || e2 != nil || opened != p {
			c.run.Violation("C12:aes:roundtrip-op-crypto", caseID, fmt.Sprintf("op.NewAESCrypto: Decrypt(Encrypt(p)) != p (%v, %v)", e1, e2), ow)
			return
		}
		if !c.sweepOtherKeys(caseID, r, "op.NewAESCrypto", "C12:aes:op-crypto:opens-under-another-key", string(k32[:]), p, ow, false,
			func(k string) (string, error) {
				var o32 [32]byte
				copy(o32[:], k)
				return op.NewAESCrypto(o32).Decrypt(sealed)
			}) {
			return
		}
		c.observe("aes:op-crypto")
		c.t.dim(fmt.Sprintf("aes|op-crypto|p%s", plen(len(p))))
	}

	// --- bad key lengths: every length 0..40 is visited (i mod 41)
	bl := i % 41
	if bl != 16 && bl != 24 && bl != 32 {
		bad := string(randBytes(r, bl))
		bw := map[string]any{"part": "aes", "bad_key_len": bl, "bad_key_hex": hex.EncodeToString([]byte(bad)), "plaintext_hex": wit["plaintext_hex"], "sealed_under_good_key": ct}
		var s, o string
		var e1, e2, e3, e4 error
		var b1, b2 []byte
		if !c.aesCall(caseID, "bad-key-length", bw, func() {
			s, e1 = crypto.EncryptAES(p, bad)
			o, e2 = crypto.DecryptAES(ct, bad)
			b1, e3 = crypto.EncryptBytesAES([]byte(p), bad)
			b2, e4 = crypto.DecryptBytesAES(append([]byte{}, rawCT...), bad)
		}) {
			return
		}
		if e1 == nil || e2 == nil || e3 == nil || e4 == nil || s != "" || o != "" || b1 != nil || b2 != nil {
			bw["results"] = fmt.Sprintf("EncryptAES=(%q,%v) DecryptAES=(%q,%v) EncryptBytesAES=(%x,%v) DecryptBytesAES=(%x,%v)", s, e1, o, e2, b1, e3, b2, e4)
			c.run.Violation("C12:aes:bad-key-length-accepted", caseID, fmt.Sprintf("a %d-byte key was not refused with an error", bl), bw)
			return
		}
		c.t.count("aes", fmt.Sprintf("bad key length %02d: error", bl))
		c.observe("aes:bad-key-length")
		c.t.dim(fmt.Sprintf("aes|bad-key|k%d", bl))
	}

	// --- malformed sealed strings under the good key
	short := base64.RawURLEncoding.EncodeToString(randBytes(r, r.IntN(16)))
	mal := map[string]string{
		"shorter-than-one-block": short,
		"empty":                  "",
		"std-alphabet":           "++//" + ct,
		"space-inside":           ct[:len(ct)/2] + " " + ct[len(ct)/2:],
		"non-ascii":              ct + "\u00e9",
		"illegal-character":      "!" + ct,
	}
	// standard (padded) encoding of the same bytes: differs from the raw form whenever padding is due
	if padded := base64.URLEncoding.EncodeToString(rawCT); padded != ct {
		mal["padded-base64"] = padded
	}
	// raw base64 never has a length of 1 modulo 4
	imp := ct
	for len(imp)%4 != 1 {
		imp += "A"
	}
	mal["impossible-length"] = imp
	for class, in := range mal {
		var o string
		var oerr error
		mw := map[string]any{"part": "aes", "class": class, "input": in, "key_hex": wit["key_hex"]}
		if !c.aesCall(caseID, "DecryptAES("+class+")", mw, func() { o, oerr = crypto.DecryptAES(in, key) }) {
			return
		}
		if oerr == nil {
			mw["opened_hex"] = hex.EncodeToString([]byte(o))
			c.run.Violation("C12:aes:malformed-input-accepted:"+class, caseID, "DecryptAES answered a malformed sealed string ("+class+") without an error", mw)
			return
		}
		c.t.count("aes", "malformed "+class+": error")
		c.t.dim("aes|malformed|" + class)
	}
	c.observe("aes:malformed-input")
	var sb []byte
	var sberr error
	if c.aesCall(caseID, "DecryptBytesAES(short)", wit, func() { sb, sberr = crypto.DecryptBytesAES(randBytes(r, r.IntN(16)), key) }) {
		if sberr == nil {
			c.run.Violation("C12:aes:malformed-input-accepted:shorter-than-one-block", caseID, fmt.Sprintf("DecryptBytesAES accepted fewer than 16 bytes (returned %x)", sb), wit)
		}
	}
	// a truncated but still long enough sealed string opens to a prefix (CFB, no integrity) - outside the statement, observed only
	if len(rawCT) > 17 {
		tr := base64.RawURLEncoding.EncodeToString(rawCT[:len(rawCT)-1])
		var o string
		var oerr error
		if c.aesCall(caseID, "DecryptAES(truncated)", wit, func() { o, oerr = crypto.DecryptAES(tr, key) }) {
			if oerr == nil && o == p[:len(p)-1] {
				c.t.count("aes", "observed: truncated sealed string opens to a prefix (no integrity protection; not in the statement)")
			} else {
				c.t.count("aes", "observed: truncated sealed string: other outcome")
			}
		}
	}
	if i < 2 {
		c.run.SampleKind(fmt.Sprintf("aes:key%d", klen), map[string]any{"key_len": klen, "plaintext_hex": trunc(hex.EncodeToString([]byte(p)), 80), "sealed": trunc(ct, 120), "bad_key_len_probed": bl})
	}
}
