package main

// The model side of C12: a description of every claims type (written from the
// specifications the property talks about, not read from the struct tags), a
// JSON-native model value for each registered field, the expected document of a
// model value and the comparison of a decoded library value with the model.

import (
	"encoding/json"
	"fmt"
	"math"
	"math/rand/v2"
	"reflect"
	"sort"
	"strings"
	"unicode/utf8"

	"github.com/zitadel/oidc/v3/pkg/oidc"
	"golang.org/x/text/language"
)

type kind int

const (
	kString  kind = iota // Go string (or string-like) field
	kTime                // oidc.Time
	kAud                 // oidc.Audience
	kStrings             // []string (amr)
	kScope               // oidc.SpaceDelimitedArray
	kBool                // plain bool
	kTolBool             // oidc.Bool (boolean-as-string tolerated)
	kLocale              // *oidc.Locale
	kAddress             // *oidc.UserInfoAddress
	kActor               // *oidc.ActorClaims
	kEvents              // map[string]any
	kLocales             // oidc.Locales              (matrix only)
	kDisplay             // oidc.Display              (matrix only)
	kUintPtr             // *uint (max_age)           (matrix only)
)

var kindNames = map[kind]string{
	kString: "string", kTime: "Time", kAud: "Audience", kStrings: "StringSlice", kScope: "SpaceDelimitedArray",
	kBool: "bool", kTolBool: "Bool", kLocale: "Locale", kAddress: "UserInfoAddress", kActor: "ActorClaims",
	kEvents: "Events", kLocales: "Locales", kDisplay: "Display", kUintPtr: "MaxAge",
}

func (k kind) String() string { return kindNames[k] }

type field struct {
	name   string // registered JSON name
	goName string // Go field name (promoted fields are found by reflect.FieldByName)
	kind   kind
	always bool // encoded even when zero (no omitempty): the claim is always "set"
}

type typeSpec struct {
	name      string
	site      string // marshalling call site (for the case-folded-key class)
	newPtr    func() any
	fields    []field
	byName    map[string]*field
	roundTrip bool // takes part in the round-trip part (false: decoder matrix only)
	private   bool // custom claims live in an unexported map (JWTTokenRequest)
}

func f(name, goName string, k kind) field { return field{name: name, goName: goName, kind: k} }
func fa(name, goName string, k kind) field {
	return field{name: name, goName: goName, kind: k, always: true}
}

var tokenClaimsFields = []field{
	f("iss", "Issuer", kString), f("sub", "Subject", kString), f("aud", "Audience", kAud), f("exp", "Expiration", kTime),
	f("iat", "IssuedAt", kTime), f("auth_time", "AuthTime", kTime), f("nbf", "NotBefore", kTime), f("nonce", "Nonce", kString),
	f("acr", "AuthenticationContextClassReference", kString), f("amr", "AuthenticationMethodsReferences", kStrings),
	f("azp", "AuthorizedParty", kString), f("client_id", "ClientID", kString), f("jti", "JWTID", kString), f("act", "Actor", kActor),
}

var profileFields = []field{
	f("name", "Name", kString), f("given_name", "GivenName", kString), f("family_name", "FamilyName", kString),
	f("middle_name", "MiddleName", kString), f("nickname", "Nickname", kString), f("profile", "Profile", kString),
	f("picture", "Picture", kString), f("website", "Website", kString), f("gender", "Gender", kString),
	f("birthdate", "Birthdate", kString), f("zoneinfo", "Zoneinfo", kString), f("locale", "Locale", kLocale),
	f("updated_at", "UpdatedAt", kTime), f("preferred_username", "PreferredUsername", kString),
	f("email", "Email", kString), f("email_verified", "EmailVerified", kTolBool),
	f("phone_number", "PhoneNumber", kString), f("phone_number_verified", "PhoneNumberVerified", kBool),
	f("address", "Address", kAddress),
}

var addressFields = []string{"formatted", "street_address", "locality", "region", "postal_code", "country"}

func cat(parts ...[]field) []field {
	var out []field
	for _, p := range parts {
		out = append(out, p...)
	}
	return out
}

const siteMerge = "mergeAndMarshalClaims"

var specs = []*typeSpec{
	{name: "IDTokenClaims", site: siteMerge, roundTrip: true, newPtr: func() any { return new(oidc.IDTokenClaims) },
		fields: cat(tokenClaimsFields, []field{f("at_hash", "AccessTokenHash", kString), f("c_hash", "CodeHash", kString), f("sid", "SessionID", kString)}, profileFields)},
	{name: "AccessTokenClaims", site: siteMerge, roundTrip: true, newPtr: func() any { return new(oidc.AccessTokenClaims) },
		fields: cat(tokenClaimsFields, []field{f("scope", "Scopes", kScope)})},
	{name: "LogoutTokenClaims", site: siteMerge, roundTrip: true, newPtr: func() any { return new(oidc.LogoutTokenClaims) },
		fields: []field{f("iss", "Issuer", kString), f("sub", "Subject", kString), f("aud", "Audience", kAud), f("iat", "IssuedAt", kTime),
			f("exp", "Expiration", kTime), f("jti", "JWTID", kString), f("events", "Events", kEvents), f("sid", "SessionID", kString)}},
	{name: "UserInfo", site: siteMerge, roundTrip: true, newPtr: func() any { return new(oidc.UserInfo) },
		fields: cat([]field{f("sub", "Subject", kString)}, profileFields)},
	{name: "IntrospectionResponse", site: siteMerge, roundTrip: true, newPtr: func() any { return new(oidc.IntrospectionResponse) },
		fields: cat([]field{fa("active", "Active", kBool), f("scope", "Scope", kScope), f("client_id", "ClientID", kString),
			f("token_type", "TokenType", kString), f("exp", "Expiration", kTime), f("iat", "IssuedAt", kTime), f("auth_time", "AuthTime", kTime),
			f("nbf", "NotBefore", kTime), f("sub", "Subject", kString), f("aud", "Audience", kAud),
			f("amr", "AuthenticationMethodsReferences", kStrings), f("iss", "Issuer", kString), f("jti", "JWTID", kString),
			f("username", "Username", kString), f("act", "Actor", kActor)}, profileFields)},
	{name: "JWTProfileAssertionClaims", site: siteMerge, roundTrip: true, newPtr: func() any { return new(oidc.JWTProfileAssertionClaims) },
		fields: []field{fa("iss", "Issuer", kString), fa("sub", "Subject", kString), fa("aud", "Audience", kAud), fa("exp", "Expiration", kTime), fa("iat", "IssuedAt", kTime)}},
	{name: "JWTTokenRequest", site: "JWTTokenRequest.MarshalJSON", roundTrip: true, private: true, newPtr: func() any { return new(oidc.JWTTokenRequest) },
		fields: []field{fa("iss", "Issuer", kString), fa("sub", "Subject", kString), fa("aud", "Audience", kAud), fa("iat", "IssuedAt", kTime), fa("exp", "ExpiresAt", kTime)}},
	{name: "ActorClaims", site: siteMerge, roundTrip: true, newPtr: func() any { return new(oidc.ActorClaims) },
		fields: []field{f("act", "Actor", kActor), f("iss", "Issuer", kString), f("sub", "Subject", kString)}},
	// decoder matrix only: the request object is where the documented locales forms are decoded
	{name: "RequestObject", site: "-", newPtr: func() any { return new(oidc.RequestObject) },
		fields: []field{fa("iss", "Issuer", kString), fa("aud", "Audience", kAud), fa("scope", "Scopes", kScope), fa("response_type", "ResponseType", kString),
			fa("client_id", "ClientID", kString), fa("redirect_uri", "RedirectURI", kString), fa("state", "State", kString), fa("nonce", "Nonce", kString),
			fa("response_mode", "ResponseMode", kString), fa("display", "Display", kDisplay), fa("prompt", "Prompt", kScope), fa("max_age", "MaxAge", kUintPtr),
			fa("ui_locales", "UILocales", kLocales), fa("id_token_hint", "IDTokenHint", kString), fa("login_hint", "LoginHint", kString),
			fa("acr_values", "ACRValues", kScope), fa("code_challenge", "CodeChallenge", kString), fa("code_challenge_method", "CodeChallengeMethod", kString)}},
}

var specByName = map[string]*typeSpec{}
var actorSpec *typeSpec

// initSpecs indexes the tables and cross-checks them against the library's
// struct definitions: every Go field named in a table must exist and have the
// Go type its kind stands for. A mismatch is a defect of this harness (the
// library changed shape), never a finding.
func initSpecs() (problems []string) {
	want := map[kind]reflect.Type{
		kTime: reflect.TypeOf(oidc.Time(0)), kAud: reflect.TypeOf(oidc.Audience{}), kStrings: reflect.TypeOf([]string{}),
		kScope: reflect.TypeOf(oidc.SpaceDelimitedArray{}), kBool: reflect.TypeOf(false), kTolBool: reflect.TypeOf(oidc.Bool(false)),
		kLocale: reflect.TypeOf((*oidc.Locale)(nil)), kAddress: reflect.TypeOf((*oidc.UserInfoAddress)(nil)),
		kActor: reflect.TypeOf((*oidc.ActorClaims)(nil)), kEvents: reflect.TypeOf(map[string]any{}), kLocales: reflect.TypeOf(oidc.Locales{}),
		kDisplay: reflect.TypeOf(oidc.Display("")), kUintPtr: reflect.TypeOf((*uint)(nil)),
	}
	for _, s := range specs {
		s.byName = map[string]*field{}
		specByName[s.name] = s
		rv := reflect.ValueOf(s.newPtr()).Elem()
		for i := range s.fields {
			fd := &s.fields[i]
			s.byName[fd.name] = fd
			fv := rv.FieldByName(fd.goName)
			if !fv.IsValid() {
				problems = append(problems, fmt.Sprintf("%s has no field %s", s.name, fd.goName))
				continue
			}
			if fd.kind == kString {
				if fv.Kind() != reflect.String {
					problems = append(problems, fmt.Sprintf("%s.%s is %s, not a string", s.name, fd.goName, fv.Type()))
				}
				continue
			}
			if fv.Type() != want[fd.kind] {
				problems = append(problems, fmt.Sprintf("%s.%s is %s, want %s", s.name, fd.goName, fv.Type(), want[fd.kind]))
			}
		}
	}
	actorSpec = specByName["ActorClaims"]
	return problems
}

// ---------------------------------------------------------------------------
// model values

// actorM is the model of one ActorClaims level.
type actorM struct {
	Iss, Sub string
	Act      *actorM
	Custom   map[string]any
}

// addrM is the model of an address: nil pointer, or the six strings.
type addrM struct {
	F [6]string
}

func (a *addrM) empty() bool {
	if a == nil {
		return true
	}
	for _, s := range a.F {
		if s != "" {
			return false
		}
	}
	return true
}

// localeM: "" = nil pointer; "und" = non-nil pointer holding the root tag; otherwise a canonical tag.
type localeM string

// value is the model of a whole claims value.
type value struct {
	spec   *typeSpec
	vals   map[string]any // by registered name: string | int64 | []string | bool | localeM | *addrM | *actorM | map[string]any
	custom map[string]any
}

func foldEq(a, b string) bool { return strings.EqualFold(a, b) }

// isSet: would the registered claim be encoded (the 6a rule: "is set" iff its
// omitempty encoding is non-empty; a claim without omitempty is always set).
// Non-nil-but-empty pointers (a root locale, an address or actor without
// content) are reported as "weak": the property leaves them open.
func isSet(fd *field, v any) (set, weak bool) {
	if fd.always {
		return true, false
	}
	switch x := v.(type) {
	case nil:
		return false, false
	case string:
		return x != "", false
	case int64:
		return x != 0, false
	case []string:
		return len(x) > 0, false
	case bool:
		return x, false
	case localeM:
		if x == "und" {
			return false, true
		}
		return x != "", false
	case *addrM:
		if x == nil {
			return false, false
		}
		return !x.empty(), x.empty()
	case *actorM:
		if x == nil {
			return false, false
		}
		e := x.Iss == "" && x.Sub == "" && x.Act == nil && len(x.Custom) == 0
		return !e, e
	case map[string]any:
		return len(x) > 0, false
	}
	return false, false
}

// encode gives the JSON-native expectation of a set registered claim.
func encode(fd *field, v any) any {
	switch x := v.(type) {
	case nil:
		return nil
	case string:
		return x
	case int64:
		return x
	case []string:
		if fd.kind == kScope {
			return strings.Join(x, " ")
		}
		out := make([]any, len(x))
		for i, s := range x {
			out[i] = s
		}
		if x == nil {
			return nil // an always-present nil slice is encoded as null
		}
		return out
	case bool:
		return x
	case localeM:
		if x == "" || x == "und" {
			return nil
		}
		return string(x)
	case *addrM:
		if x == nil {
			return nil
		}
		m := map[string]any{}
		for i, s := range x.F {
			if s != "" {
				m[addressFields[i]] = s
			}
		}
		return m
	case *actorM:
		if x == nil {
			return nil
		}
		return expectActorDoc(x)
	case map[string]any:
		return x
	}
	panic(fmt.Sprintf("encode: unexpected model %T", v))
}

func expectActorDoc(a *actorM) map[string]any {
	m := map[string]any{}
	for k, v := range a.Custom {
		m[k] = v
	}
	if a.Iss != "" {
		m["iss"] = a.Iss
	}
	if a.Sub != "" {
		m["sub"] = a.Sub
	}
	if a.Act != nil {
		m["act"] = expectActorDoc(a.Act)
	}
	return m
}

// ---------------------------------------------------------------------------
// applying a model to a library value, and reading a library value back

func applyActor(a *actorM) *oidc.ActorClaims {
	if a == nil {
		return nil
	}
	return &oidc.ActorClaims{Issuer: a.Iss, Subject: a.Sub, Actor: applyActor(a.Act), Claims: cloneMap(a.Custom)}
}

func readActor(c *oidc.ActorClaims) *actorM {
	if c == nil {
		return nil
	}
	return &actorM{Iss: c.Issuer, Sub: c.Subject, Act: readActor(c.Actor), Custom: c.Claims}
}

func cloneAny(v any) any {
	switch x := v.(type) {
	case map[string]any:
		return cloneMap(x)
	case []any:
		out := make([]any, len(x))
		for i := range x {
			out[i] = cloneAny(x[i])
		}
		return out
	}
	return v
}

func cloneMap(m map[string]any) map[string]any {
	if m == nil {
		return nil
	}
	out := make(map[string]any, len(m))
	for k, v := range m {
		out[k] = cloneAny(v)
	}
	return out
}

func setField(rv reflect.Value, fd *field, v any) {
	fv := rv.FieldByName(fd.goName)
	switch x := v.(type) {
	case nil:
		fv.SetZero()
	case string:
		fv.SetString(x)
	case int64:
		fv.SetInt(x)
	case []string:
		if x == nil {
			fv.SetZero()
		} else {
			fv.Set(reflect.ValueOf(append([]string{}, x...)).Convert(fv.Type()))
		}
	case bool:
		fv.SetBool(x)
	case localeM:
		switch x {
		case "":
			fv.SetZero()
		case "und":
			fv.Set(reflect.ValueOf(oidc.NewLocale(language.Und)))
		default:
			fv.Set(reflect.ValueOf(oidc.NewLocale(language.MustParse(string(x)))))
		}
	case *addrM:
		if x == nil {
			fv.SetZero()
		} else {
			fv.Set(reflect.ValueOf(&oidc.UserInfoAddress{Formatted: x.F[0], StreetAddress: x.F[1], Locality: x.F[2], Region: x.F[3], PostalCode: x.F[4], Country: x.F[5]}))
		}
	case *actorM:
		if x == nil {
			fv.SetZero()
		} else {
			fv.Set(reflect.ValueOf(applyActor(x)))
		}
	case map[string]any:
		if x == nil {
			fv.SetZero()
		} else {
			fv.Set(reflect.ValueOf(cloneMap(x)))
		}
	default:
		panic(fmt.Sprintf("setField: unexpected model %T", v))
	}
}

// readField returns the model form of what a library value holds.
func readField(rv reflect.Value, fd *field) any {
	fv := rv.FieldByName(fd.goName)
	switch fd.kind {
	case kString, kDisplay:
		return fv.String()
	case kTime:
		return fv.Int()
	case kAud, kStrings, kScope:
		if fv.IsNil() {
			return []string(nil)
		}
		out := make([]string, fv.Len())
		for i := range out {
			out[i] = fv.Index(i).String()
		}
		return out
	case kBool, kTolBool:
		return fv.Bool()
	case kLocale:
		l := fv.Interface().(*oidc.Locale)
		if l == nil {
			return localeM("")
		}
		return localeM(l.Tag().String())
	case kAddress:
		a := fv.Interface().(*oidc.UserInfoAddress)
		if a == nil {
			return (*addrM)(nil)
		}
		return &addrM{F: [6]string{a.Formatted, a.StreetAddress, a.Locality, a.Region, a.PostalCode, a.Country}}
	case kActor:
		return readActor(fv.Interface().(*oidc.ActorClaims))
	case kEvents:
		return fv.Interface().(map[string]any)
	case kLocales:
		ls := fv.Interface().(oidc.Locales)
		out := make([]string, len(ls))
		for i, t := range ls {
			out[i] = t.String()
		}
		if ls == nil {
			return []string(nil)
		}
		return out
	case kUintPtr:
		p := fv.Interface().(*uint)
		if p == nil {
			return (*uint)(nil)
		}
		return p
	}
	panic("readField: unknown kind")
}

func getClaims(s *typeSpec, ptr any) map[string]any {
	if s.private {
		return nil
	}
	if s.name == "RequestObject" {
		return nil
	}
	return reflect.ValueOf(ptr).Elem().FieldByName("Claims").Interface().(map[string]any)
}

func setClaims(s *typeSpec, ptr any, m map[string]any) {
	reflect.ValueOf(ptr).Elem().FieldByName("Claims").Set(reflect.ValueOf(m))
}

// nonZeroFields lists the registered Go fields (flattened over embedded
// structs) of a library value that are not zero; Claims / private / json:"-"
// fields are skipped.
func nonZeroFields(rv reflect.Value, out map[string]bool) {
	t := rv.Type()
	for i := 0; i < t.NumField(); i++ {
		sf := t.Field(i)
		if !sf.IsExported() {
			continue
		}
		if sf.Anonymous && sf.Type.Kind() == reflect.Struct {
			nonZeroFields(rv.Field(i), out)
			continue
		}
		if tag := sf.Tag.Get("json"); tag == "-" || (sf.Name == "RequestParam") {
			continue
		}
		if !rv.Field(i).IsZero() {
			out[sf.Name] = true
		}
	}
}

// ---------------------------------------------------------------------------
// JSON-level comparison

// jsonEq compares an expectation built from model values (string, int64,
// float64, bool, nil, []any, map[string]any) with a reference decode of the
// produced document made with UseNumber.
func jsonEq(exp, got any) bool {
	switch e := exp.(type) {
	case nil:
		return got == nil
	case string:
		g, ok := got.(string)
		return ok && g == e
	case bool:
		g, ok := got.(bool)
		return ok && g == e
	case int64:
		g, ok := got.(json.Number)
		if ok && string(g) == fmt.Sprint(e) {
			return true
		}
		// beyond 2^53 the merge of registered and custom claims re-encodes the integer through a float64
		// ("4611686018427387904" becomes "4611686018427388000"): the same float64, left open (6a: float64-exact numbers)
		if ok && (e > 1<<53 || e < -(1<<53)) {
			fl, err := g.Float64()
			return err == nil && fl == float64(e)
		}
		return false
	case float64:
		g, ok := got.(json.Number)
		if !ok {
			return false
		}
		fl, err := g.Float64()
		return err == nil && fl == e
	case []any:
		g, ok := got.([]any)
		if !ok || len(g) != len(e) {
			return false
		}
		for i := range e {
			if !jsonEq(e[i], g[i]) {
				return false
			}
		}
		return true
	case map[string]any:
		g, ok := got.(map[string]any)
		if !ok || len(g) != len(e) {
			return false
		}
		for k, ev := range e {
			gv, ok := g[k]
			if !ok || !jsonEq(ev, gv) {
				return false
			}
		}
		return true
	}
	return false
}

// nativeEq compares a generated custom value with what a decoder put into a
// map[string]any (numbers are float64 there).
func nativeEq(exp, got any) bool {
	switch e := exp.(type) {
	case nil:
		return got == nil
	case string:
		g, ok := got.(string)
		return ok && g == e
	case bool:
		g, ok := got.(bool)
		return ok && g == e
	case float64:
		g, ok := got.(float64)
		return ok && g == e
	case int64:
		g, ok := got.(float64)
		return ok && g == float64(e)
	case []any:
		g, ok := got.([]any)
		if !ok || len(g) != len(e) {
			return false
		}
		for i := range e {
			if !nativeEq(e[i], g[i]) {
				return false
			}
		}
		return true
	case map[string]any:
		g, ok := got.(map[string]any)
		if !ok || len(g) != len(e) {
			return false
		}
		for k, ev := range e {
			gv, ok := g[k]
			if !ok || !nativeEq(ev, gv) {
				return false
			}
		}
		return true
	}
	return false
}

func sameStrings(a, b []string) bool { // nil ≡ empty
	if len(a) != len(b) {
		return false
	}
	for i := range a {
		if a[i] != b[i] {
			return false
		}
	}
	return true
}

// ---------------------------------------------------------------------------
// generators

type gen struct{ r *rand.Rand }

func pick[T any](r *rand.Rand, xs ...T) T { return xs[r.IntN(len(xs))] }

var hostileStrings = []string{
	"a", "alice", "https://issuer.example", "https://issuer.example/with path?x=1&y=<2>#f", "client-1", "0", "null", "true", "[]", "{}",
	"\"quoted\"", "back\\slash", "line\nbreak\ttab\r", "nul\x00byte", "ctl\x01\x1f\x7f", "<script>alert(1)</script>", "&amp;<>",
	"\u00fcn\u00efc\u00f6d\u00e9", "\u65e5\u672c\u8a9e", "\U0001f600 emoji", "\u2028line sep\u2029", "\ufeffbom", "\ufffd", "\u017f long s", "\u212a kelvin",
	"\u0645\u0631\u062d\u0628\u0627", " leading", "trailing ", "a b", "  ", "\U0010ffff", "e\u0301", strings.Repeat("x", 300),
}

func (g gen) str() string {
	r := g.r
	switch r.IntN(10) {
	case 0, 1, 2, 3:
		return pick(r, hostileStrings...)
	case 4:
		return fmt.Sprintf("v%d", r.IntN(100000))
	case 5:
		// random valid UTF-8 of random length
		n := r.IntN(12) + 1
		var b strings.Builder
		for i := 0; i < n; i++ {
			var c rune
			switch r.IntN(4) {
			case 0:
				c = rune(r.IntN(0x80))
			case 1:
				c = rune(0x80 + r.IntN(0x780))
			case 2:
				c = rune(0x800 + r.IntN(0xF800))
			default:
				c = rune(0x10000 + r.IntN(0x100000))
			}
			if !utf8.ValidRune(c) {
				c = 'x'
			}
			b.WriteRune(c)
		}
		return b.String()
	default:
		return pick(r, "alice", "bob", "https://op.example", "web", "native", "urn:x", "s3cr3t", "session-1", "pwd", "otp")
	}
}

func (g gen) nonEmptyStr() string {
	for {
		if s := g.str(); s != "" {
			return s
		}
	}
}

// exactTimes are whole seconds that float64 represents exactly.
var exactTimes = []int64{1, -1, 59, 1700000000, 1 << 31, 1<<32 + 1, 253402300799, -62135596800, 1 << 53, -(1 << 53), 1<<53 - 1, 1 << 62, -(1 << 62), math.MinInt64}

// extremeTimes are not float64-exact: the round trip through a float64 decoder cannot be exact.
var extremeTimes = []int64{1<<53 + 1, -(1<<53 + 1), math.MaxInt64, math.MaxInt64 - 1, math.MinInt64 + 1, 1<<62 + 1, 4611686018427387905}

func floatExact(t int64) bool {
	fl := float64(t)
	if fl >= 9223372036854775808.0 || fl < -9223372036854775808.0 {
		return false
	}
	return int64(fl) == t
}

func (g gen) time() int64 {
	r := g.r
	switch r.IntN(20) {
	case 0:
		return pick(r, extremeTimes...)
	case 1, 2, 3:
		return pick(r, exactTimes...)
	case 4:
		return -r.Int64N(1 << 40)
	default:
		return 1600000000 + r.Int64N(400000000)
	}
}

func (g gen) strs(noSpace bool) []string {
	r := g.r
	n := pick(r, 1, 1, 1, 2, 2, 3, 5)
	out := make([]string, n)
	for i := range out {
		if noSpace {
			out[i] = pick(r, "openid", "profile", "email", "offline_access", "urn:x:y", "a", "ünï", "x\ty", "<b>", "\"q\"", "", "日本")
		} else {
			out[i] = g.str()
			if r.IntN(12) == 0 {
				out[i] = ""
			}
		}
	}
	return out
}

var localeTags = func() []string {
	var out []string
	for _, s := range []string{"en", "de", "de-CH", "fr-CA", "zh-Hant-TW", "sr-Latn", "pt-BR", "en-US", "es-419", "ja", "nl-BE", "en-GB-oxendict", "de-u-co-phonebk"} {
		out = append(out, language.MustParse(s).String())
	}
	return out
}()

// customValue draws a JSON-native value (float64-exact numbers, valid UTF-8, non-nil containers).
func (g gen) customValue(depth int) any {
	r := g.r
	top := 9
	if depth >= 3 {
		top = 7
	}
	switch r.IntN(top) {
	case 0:
		return nil
	case 1:
		return r.IntN(2) == 0
	case 2:
		return pick(r, 0.0, 1.0, -1.0, 0.5, -2.25, 1e21, 1e-7, float64(1<<53), -float64(1<<53), 1700000000.0, 3.0e38, 123456.789, 1e300)
	case 3:
		return float64(r.Int64N(1<<53)) * float64(1-2*r.IntN(2))
	case 4, 5:
		return g.str()
	case 6:
		return ""
	case 7:
		n := r.IntN(4)
		out := make([]any, n)
		for i := range out {
			out[i] = g.customValue(depth + 1)
		}
		return out
	default:
		n := r.IntN(4)
		out := make(map[string]any, n)
		for i := 0; i < n; i++ {
			out[g.customKeyPlain()] = g.customValue(depth + 1)
		}
		return out
	}
}

func (g gen) customKeyPlain() string {
	r := g.r
	return pick(r, "x", "custom", "urn:zitadel:iam:org:project:roles", "https://example.com/claim", "a.b", "a b", "", "ünï", "日本", "\x00", "\"", "groups", "roles", "tenant", "__proto__", "constructor", "ISS2", "k", "s") + pick(r, "", "", "", "1", "_x")
}

// foldVariant returns a key that is not name but that Go's JSON struct decoding
// treats as the same name (ASCII case change, or the two non-ASCII simple folds
// U+017F for s and U+212A for k).
func foldVariant(r *rand.Rand, name string, unicodeFold bool) (string, bool) {
	rs := []rune(name)
	if unicodeFold {
		var idx []int
		for i, c := range rs {
			if c == 's' || c == 'k' {
				idx = append(idx, i)
			}
		}
		if len(idx) == 0 {
			return "", false
		}
		// replace a non-empty random subset
		done := false
		for !done {
			for _, i := range idx {
				if r.IntN(2) == 0 {
					if rs[i] == 's' {
						rs[i] = '\u017f'
					} else if rs[i] == 'k' {
						rs[i] = '\u212a'
					}
					done = true
				}
			}
		}
		return string(rs), true
	}
	done := false
	for tries := 0; !done && tries < 8; tries++ {
		for i, c := range rs {
			if c >= 'a' && c <= 'z' && r.IntN(2) == 0 {
				rs[i] = c - 32
				done = true
			}
		}
	}
	return string(rs), done
}

// compatibleValue draws a custom value whose JSON type the registered field of that kind would decode.
func (g gen) compatibleValue(k kind) any {
	r := g.r
	switch k {
	case kString:
		return "custom-" + g.str()
	case kTime:
		return float64(1500000000 + r.IntN(1000))
	case kAud, kStrings:
		return []any{"custom-" + g.str()}
	case kScope:
		return "custom scope"
	case kBool, kTolBool:
		return true
	case kLocale:
		return "fr"
	case kAddress:
		return map[string]any{"country": "custom"}
	case kActor:
		return map[string]any{"sub": "custom-actor"}
	case kEvents:
		return map[string]any{"custom": map[string]any{}}
	}
	return "custom"
}

type collision struct {
	Key   string
	Name  string // the registered name it collides with
	Class string // exact | ascii-case | unicode-fold
}

// custom draws a custom-claim map for a type: ~40 % of the keys are registered
// names of that type, a further share are case / fold variants of them.
func (g gen) custom(s *typeSpec, maxKeys int) map[string]any {
	r := g.r
	n := pick(r, 0, 1, 1, 2, 3, 4, maxKeys)
	if n == 0 {
		if r.IntN(2) == 0 {
			return nil
		}
		return map[string]any{}
	}
	m := make(map[string]any, n)
	for i := 0; i < n; i++ {
		c := r.IntN(100)
		fd := &s.fields[r.IntN(len(s.fields))]
		var key string
		switch {
		case c < 40:
			key = fd.name
		case c < 47:
			if k, ok := foldVariant(r, fd.name, false); ok {
				key = k
			} else {
				key = g.customKeyPlain()
			}
		case c < 55:
			if k, ok := foldVariant(r, fd.name, true); ok {
				key = k
			} else {
				key = g.customKeyPlain()
			}
		default:
			key = g.customKeyPlain()
		}
		if foldEq(key, fd.name) && r.IntN(2) == 0 {
			m[key] = g.compatibleValue(fd.kind)
		} else {
			m[key] = g.customValue(0)
		}
	}
	return m
}

func (g gen) actor(depth int) *actorM {
	r := g.r
	a := &actorM{}
	if r.IntN(4) != 0 {
		a.Iss = g.str()
	}
	if r.IntN(4) != 0 {
		a.Sub = g.nonEmptyStr()
	}
	if r.IntN(2) == 0 {
		a.Custom = g.custom(actorSpec, 3)
	}
	if depth > 1 {
		a.Act = g.actor(depth - 1)
	}
	return a
}

func (g gen) address() *addrM {
	r := g.r
	if r.IntN(8) == 0 {
		return &addrM{} // non-nil, empty
	}
	a := &addrM{}
	for i := range a.F {
		if r.IntN(2) == 0 {
			a.F[i] = g.nonEmptyStr()
		}
	}
	return a
}

func (g gen) events() map[string]any {
	r := g.r
	switch r.IntN(4) {
	case 0:
		return map[string]any{"http://schemas.openid.net/event/backchannel-logout": map[string]any{}}
	case 1:
		return map[string]any{}
	default:
		m := map[string]any{}
		for i := r.IntN(3) + 1; i > 0; i-- {
			m[g.customKeyPlain()] = g.customValue(1)
		}
		return m
	}
}

// fieldValue draws the model of one registered field; pSet is the probability (in %) that it is set.
func (g gen) fieldValue(fd *field, pSet int, actorDepth int) any {
	r := g.r
	set := r.IntN(100) < pSet
	switch fd.kind {
	case kString:
		if !set {
			return ""
		}
		return g.nonEmptyStr()
	case kTime:
		if !set {
			return int64(0)
		}
		return g.time()
	case kAud, kStrings:
		if !set {
			if r.IntN(2) == 0 {
				return []string{}
			}
			return []string(nil)
		}
		return g.strs(false)
	case kScope:
		if !set {
			if r.IntN(2) == 0 {
				return []string{}
			}
			return []string(nil)
		}
		return g.strs(true)
	case kBool, kTolBool:
		return set
	case kLocale:
		if !set {
			if r.IntN(4) == 0 {
				return localeM("und")
			}
			return localeM("")
		}
		return localeM(pick(r, localeTags...))
	case kAddress:
		if !set {
			return (*addrM)(nil)
		}
		return g.address()
	case kActor:
		if !set || actorDepth == 0 {
			return (*actorM)(nil)
		}
		return g.actor(actorDepth)
	case kEvents:
		if !set {
			return map[string]any(nil)
		}
		return g.events()
	}
	panic("fieldValue: kind not generated")
}

// newValue draws a whole model value. Fields that a custom key collides with are set more often, so that
// most collisions are decided rather than grey.
func (g gen) newValue(s *typeSpec) *value {
	r := g.r
	v := &value{spec: s, vals: map[string]any{}}
	v.custom = g.custom(s, 8)
	density := pick(r, 15, 40, 40, 70, 100)
	actorDepth := pick(r, 0, 1, 1, 2, 3, 6)
	for i := range s.fields {
		fd := &s.fields[i]
		p := density
		if fd.always && p < 85 {
			p = 85 // claims without omitempty are always "set"; mostly give them a visible value
		}
		for k := range v.custom {
			if foldEq(k, fd.name) {
				p = 75
			}
		}
		v.vals[fd.name] = g.fieldValue(fd, p, actorDepth)
	}
	return v
}

// collisions lists the custom keys that Go's JSON decoding maps onto a registered name.
func collisions(s *typeSpec, custom map[string]any) []collision {
	var out []collision
	for k := range custom {
		for i := range s.fields {
			n := s.fields[i].name
			if k == n {
				out = append(out, collision{k, n, "exact"})
			} else if foldEq(k, n) {
				cl := "ascii-case"
				if strings.ContainsAny(k, "\u017f\u212a") {
					cl = "unicode-fold"
				}
				out = append(out, collision{k, n, cl})
			}
		}
	}
	sort.Slice(out, func(i, j int) bool { return out[i].Key < out[j].Key })
	return out
}

// describe renders a model value for a witness.
func (v *value) describe() map[string]any {
	reg := map[string]any{}
	for k, x := range v.vals {
		fd := v.spec.byName[k]
		if set, weak := isSet(fd, x); set || weak {
			reg[k] = describeModel(x)
		}
	}
	return map[string]any{"type": v.spec.name, "registered_set": reg, "custom": v.custom}
}

func describeModel(x any) any {
	switch m := x.(type) {
	case *actorM:
		if m == nil {
			return nil
		}
		return map[string]any{"iss": m.Iss, "sub": m.Sub, "act": describeModel(m.Act), "custom": m.Custom}
	case *addrM:
		if m == nil {
			return nil
		}
		return encode(&field{kind: kAddress}, m)
	case localeM:
		return string(m)
	}
	return x
}
