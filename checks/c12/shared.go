package main

// Part 6: families of values that SHARE objects, built the way applications build them, encoded one after the
// other and with forced overlaps.
//
// The statement quantifies over every VALUE; parts 1-5 give every value objects of its own (fresh maps, fresh
// actors, assigned field by field) and encode one value at a time. Applications do neither: a storage hands the
// same per-tenant claims map to the userinfo of every user, one *ActorClaims of a service account hangs below
// the access token and the ID token of concurrent requests, one *UserInfo feeds an ID token and an
// introspection response, values come out of the library's own constructors and copy functions
// (NewIDTokenClaims, SetUserInfo, GetUserInfo, AppendClaims, NewJWTProfileAssertion + options ...), and several
// responses are encoded at the same time. Encoding is a read of the value, so all of that is legal use.
//
// A case is a family of 2-5 values over harness-owned shared objects:
//
//	shape   claims-map | actor | nested-actor | address | events | userinfo | same-pointer | none
//	path    fields | constructor | setuserinfo:{nil-claims, own-map, prepopulated} | getuserinfo | appendclaims |
//	        constructor+options
//
// The harness keeps the MODEL of every shared object (what it put in, never what it reads back from the
// library), so the expected document of every member is known independently of what any encoding did before.
//
// Every custom value in every map (top-level claims, every actor level, logout events, the shared objects) is a
// json.Marshaler of the harness that passes a yield point (gateCtl, the family's own schedule control) and then
// writes the JSON of the model value. Schedule of a case:
//
//	1. every member is encoded in sequence (its yield points are recorded)
//	2. forced single preemptions: member A is encoded on a goroutine of its own and parked at its k-th yield
//	   point - i.e. INSIDE the encoding of that map, inside that actor - while member B is encoded to completion;
//	   then A is released. Enumerated over the points of A, roles swapped.
//	3. every member is encoded in sequence once more
//
// Oracle (statement only; each call judged on its own exactly like a sequential one): the document of a member
// holds exactly its set registered claims and its custom claims according to the model, it decodes back to the
// model, and the same value gives the same document every time. A member the model does not explain is looked
// up in the other members of the family to name the class. Nothing depends on timing: the interleaving is
// forced, a running call that cannot finish while the other is parked is inconclusive.

import (
	"bytes"
	"encoding/json"
	"fmt"
	"reflect"
	"sort"
	"strings"
	"sync/atomic"
	"time"

	"github.com/zitadel/oidc/v3/pkg/oidc"

	"verif/internal/mon"
)

const partShared int64 = 6

const sharedPatience = 30 * time.Second

// gateCtl is the schedule control of one family. Every custom value of the family is a gateClaim that reports to it.
// (internal/sched offers the same for yield points anywhere in the library; it has to identify the calling
// goroutine at every point, which costs a stack walk under a process-wide lock. Here the points are all ours and
// the phases of a forced preemption tell the calls apart: only the parked call A runs while the control is armed,
// it is disarmed the moment A parks - before the running call B starts - and stays so.)
type gateCtl struct {
	mode   atomic.Int32 // 0 inert | 1 recording | 2 armed
	n      int
	parkAt int
	names  []string
	parked chan string
	resume chan struct{}
}

func (g *gateCtl) point(name string) {
	switch g.mode.Load() {
	case 1:
		g.names = append(g.names, name)
	case 2:
		if g.n == g.parkAt {
			g.mode.Store(0)
			g.parked <- name
			<-g.resume
			return
		}
		g.n++
	}
}

// trace runs fn on the calling goroutine and returns the yield points it passed, in order.
func (g *gateCtl) trace(fn func()) []string {
	g.names = nil
	g.mode.Store(1)
	fn()
	g.mode.Store(0)
	out := g.names
	g.names = nil
	return out
}

type preemption struct {
	Reached bool   // a reached its k-th point (otherwise it finished earlier and mid ran after it)
	At      string // name of that point
	Blocked bool   // mid did not finish while a was parked; a was released to let it
}

// preempt runs a on a goroutine of its own until its k-th yield point (0-based), runs mid to completion on another
// goroutine while a is parked there, then releases a and waits for it.
func (g *gateCtl) preempt(k int, a, mid func(), patience time.Duration) preemption {
	g.n, g.parkAt = 0, k
	g.parked, g.resume = make(chan string, 1), make(chan struct{})
	done := make(chan struct{})
	g.mode.Store(2)
	go func() { defer close(done); a() }()
	var res preemption
	select {
	case name := <-g.parked:
		res.Reached, res.At = true, name
	case <-done:
		g.mode.Store(0)
		mid()
		return res
	}
	midDone := make(chan struct{})
	go func() { defer close(midDone); mid() }()
	t := time.NewTimer(patience)
	select {
	case <-midDone:
		t.Stop()
		close(g.resume)
	case <-t.C:
		res.Blocked = true
		close(g.resume)
		<-midDone
	}
	<-done
	return res
}

// gateClaim is a custom claim value: a yield point, then the JSON of the model value.
type gateClaim struct {
	ctl *gateCtl
	at  string // owner|where|key
	val any
}

func (g gateClaim) MarshalJSON() ([]byte, error) {
	g.ctl.point("claim:" + g.at)
	return json.Marshal(g.val)
}

func (g *gateCtl) gated(owner, where string, m map[string]any) map[string]any {
	if m == nil {
		return nil
	}
	out := make(map[string]any, len(m))
	for k, v := range m {
		out[k] = gateClaim{ctl: g, at: owner + "|" + where + "|" + k, val: cloneAny(v)}
	}
	return out
}

// pointClass: "claim:shared|act1|tenant" -> "shared act1"; members' own objects -> "own claims".
func pointClass(name string) string {
	parts := strings.SplitN(strings.TrimPrefix(name, "claim:"), "|", 3)
	if len(parts) < 2 {
		return name
	}
	owner := "own"
	if parts[0] == "shared" {
		owner = "shared"
	}
	return owner + " " + parts[1]
}

var famShapes = []string{"claims-map", "actor", "nested-actor", "address", "events", "userinfo", "same-pointer", "none"}

var famPaths = []string{"fields", "constructor", "setuserinfo:nil-claims", "setuserinfo:own-map", "setuserinfo:prepopulated",
	"getuserinfo", "appendclaims", "constructor+options"}

var sharedMandatory = func() []string {
	out := []string{"shared:sequential-judged", "shared:overlap-judged", "shared:final-round-judged",
		"shared:parked-inside:shared claims", "shared:parked-inside:shared act1", "shared:parked-inside:own claims",
		"shared:parked-inside:shared events", "shared:parked-inside:own act1",
		"shared:overlap:same-pointer", "shared:overlap:decode-while-encoding-is-parked",
		"shared:claims-map:later-value-lacks-registered-claims-of-an-earlier-one",
		"shared:actor:running-call-encodes-the-actor-the-parked-call-is-inside"}
	for _, s := range famShapes {
		out = append(out, "shared:shape:"+s)
	}
	for _, p := range famPaths {
		out = append(out, "shared:path:"+p)
	}
	return out
}()

type member struct {
	label  string
	v      *value
	ptr    any
	path   string
	shares []string
}

type family struct {
	shape   string
	members []*member
	ctl     *gateCtl
}

func (m *member) describe() map[string]any {
	return map[string]any{"member": m.label, "built_by": m.path, "shares": m.shares, "value": m.v.describe()}
}

func (f *family) witness() map[string]any {
	ms := make([]any, 0, len(f.members))
	for _, m := range f.members {
		ms = append(ms, m.describe())
	}
	return map[string]any{"part": "shared", "sharing": f.shape, "members": ms,
		"note": "members named in 'shares' hold the SAME Go object (map / pointer); every custom value is a json.Marshaler that passes a yield point and writes the JSON of the value shown"}
}

var uiSpecFields = func() map[string]bool {
	m := map[string]bool{"sub": true}
	for _, fd := range profileFields {
		m[fd.name] = true
	}
	return m
}()

func stripActorVariants(a *actorM) {
	for b := a; b != nil; b = b.Act {
		stripVariantKeys(actorSpec, b.Custom)
	}
}

func uiModelOf(v *value) *value {
	us := specByName["UserInfo"]
	out := &value{spec: us, vals: map[string]any{}, custom: v.custom}
	for i := range us.fields {
		out.vals[us.fields[i].name] = v.vals[us.fields[i].name]
	}
	return out
}

// famBuilder draws and constructs one family.
type famBuilder struct {
	c   *ctx
	g   gen
	fam *family
	// shared objects: model and library side
	mm    map[string]any
	ms    map[string]any
	am    *actorM
	as    *oidc.ActorClaims
	addrM *addrM
	addr  *oidc.UserInfoAddress
	evM   map[string]any
	ev    map[string]any
	uiM   *value
	ui    *oidc.UserInfo
}

func has(xs []string, x string) bool {
	for _, y := range xs {
		if x == y {
			return true
		}
	}
	return false
}

func (b *famBuilder) ownClaims(m *member, where string) map[string]any {
	if has(m.shares, "claims-map") {
		return b.ms
	}
	return b.fam.ctl.gated(m.label, where, m.v.custom)
}

func (g *gateCtl) gateActors(owner string, a *oidc.ActorClaims) {
	for n := 1; a != nil; a, n = a.Actor, n+1 {
		a.Claims = g.gated(owner, fmt.Sprintf("act%d", n), a.Claims)
	}
}

func pathsFor(typ, shape string) []string {
	switch typ {
	case "IDTokenClaims":
		return []string{"fields", "constructor", "setuserinfo:nil-claims", "setuserinfo:nil-claims", "setuserinfo:own-map", "setuserinfo:prepopulated"}
	case "IntrospectionResponse":
		return []string{"fields", "setuserinfo:nil-claims", "setuserinfo:own-map", "setuserinfo:prepopulated"}
	case "UserInfo":
		if shape != "claims-map" {
			return []string{"fields", "appendclaims"}
		}
	case "AccessTokenClaims":
		return []string{"fields", "constructor"}
	case "LogoutTokenClaims":
		if shape != "events" {
			return []string{"fields", "fields", "constructor"}
		}
	case "JWTProfileAssertionClaims":
		if shape != "claims-map" {
			return []string{"fields", "constructor+options"}
		}
	}
	return []string{"fields"}
}

const backchannelEvent = "http://schemas.openid.net/event/backchannel-logout"

// construct builds the library value of a member along its path and re-points the shared objects.
func (b *famBuilder) construct(m *member) (ok bool, why string) {
	s, v := m.v.spec, m.v
	setAll := func(rv reflect.Value, skip func(string) bool) {
		for i := range s.fields {
			fd := &s.fields[i]
			if skip != nil && skip(fd.name) {
				continue
			}
			setField(rv, fd, v.vals[fd.name])
		}
	}
	t0 := time.Unix(1700000000, 0)
	switch {
	case s.private:
		m.ptr, ok, why = build(b.c, v)
		if !ok {
			return false, why
		}
		return true, ""
	case m.path == "fields":
		m.ptr = s.newPtr()
		setAll(reflect.ValueOf(m.ptr).Elem(), nil)
		if cl := b.ownClaims(m, "claims"); cl != nil {
			setClaims(s, m.ptr, cl)
		}
	case m.path == "constructor":
		switch s.name {
		case "IDTokenClaims":
			m.ptr = oidc.NewIDTokenClaims("https://constructor.example", "constructor-sub", []string{"constructor-aud"}, t0.Add(time.Hour), t0, "constructor-nonce", "constructor-acr", []string{"pwd"}, "constructor-client", 0)
		case "AccessTokenClaims":
			m.ptr = oidc.NewAccessTokenClaims("https://constructor.example", "constructor-sub", nil, t0.Add(time.Hour), "constructor-jti", "constructor-client", 0)
		case "LogoutTokenClaims":
			m.ptr = oidc.NewLogoutTokenClaims("https://constructor.example", "constructor-sub", oidc.Audience{"constructor-aud"}, t0.Add(time.Hour), "constructor-jti", "constructor-sid", 0)
			// the constructor's own events member is kept
			v.vals["events"] = map[string]any{backchannelEvent: map[string]any{}}
		default:
			return false, "no constructor for " + s.name
		}
		setAll(reflect.ValueOf(m.ptr).Elem(), func(n string) bool { return s.name == "LogoutTokenClaims" && n == "events" })
		if cl := b.ownClaims(m, "claims"); cl != nil {
			setClaims(s, m.ptr, cl)
		}
	case m.path == "constructor+options":
		var opts []oidc.AssertionOption
		for _, k := range sortedKeys(v.custom) {
			opts = append(opts, oidc.JWTProfileCustomClaim(k, gateClaim{ctl: b.fam.ctl, at: m.label + "|claims|" + k, val: cloneAny(v.custom[k])}))
		}
		opts = append(opts, oidc.JWTProfileDelegatedSubject("delegated"))
		m.ptr = oidc.NewJWTProfileAssertion("constructor-user", "constructor-key", []string{"constructor-aud"}, []byte("not a key"), opts...)
		setAll(reflect.ValueOf(m.ptr).Elem(), nil)
	case m.path == "appendclaims":
		ui := &oidc.UserInfo{}
		m.ptr = ui
		setAll(reflect.ValueOf(ui).Elem(), nil)
		for _, k := range sortedKeys(v.custom) {
			ui.AppendClaims(k, gateClaim{ctl: b.fam.ctl, at: m.label + "|claims|" + k, val: cloneAny(v.custom[k])})
		}
	case strings.HasPrefix(m.path, "setuserinfo:"):
		// the userinfo the token is filled from: the shared one, or one of this member
		ui := b.ui
		uiCustom := v.custom
		if !has(m.shares, "userinfo") {
			ui = &oidc.UserInfo{}
			us := specByName["UserInfo"]
			urv := reflect.ValueOf(ui).Elem()
			for i := range us.fields {
				setField(urv, &us.fields[i], v.vals[us.fields[i].name])
			}
			if has(m.shares, "address") {
				ui.Address = b.addr
			}
			ui.Claims = b.ownClaims(m, "userinfo.claims")
			b.fam.members = append(b.fam.members, &member{label: m.label + ".userinfo", v: uiModelOf(v), ptr: ui, path: "fields", shares: m.shares})
		}
		switch s.name {
		case "IDTokenClaims":
			if b.g.r.IntN(2) == 0 {
				m.ptr = oidc.NewIDTokenClaims("https://constructor.example", "constructor-sub", []string{"constructor-aud"}, t0.Add(time.Hour), t0, "", "", nil, "constructor-client", 0)
			} else {
				m.ptr = new(oidc.IDTokenClaims)
			}
		case "IntrospectionResponse":
			m.ptr = new(oidc.IntrospectionResponse)
		default:
			return false, "no SetUserInfo on " + s.name
		}
		switch strings.TrimPrefix(m.path, "setuserinfo:") {
		case "own-map":
			setClaims(s, m.ptr, map[string]any{})
		case "prepopulated":
			k := b.g.foreignKey()
			for {
				if _, clash := uiCustom[k]; !clash {
					break
				}
				k = b.g.foreignKey() + "_own"
			}
			val := b.g.customValue(0)
			setClaims(s, m.ptr, b.fam.ctl.gated(m.label, "claims", map[string]any{k: val}))
			// the model of this member: the userinfo's claims and its own one
			merged := map[string]any{}
			for kk, x := range uiCustom {
				merged[kk] = x
			}
			merged[k] = val
			v.custom = merged
		}
		m.ptr.(interface{ SetUserInfo(*oidc.UserInfo) }).SetUserInfo(ui)
		setAll(reflect.ValueOf(m.ptr).Elem(), func(n string) bool { return uiSpecFields[n] })
	default:
		return false, "unknown path " + m.path
	}
	rv := reflect.ValueOf(m.ptr).Elem()
	// objects of its own below the value get their yield points, then the shared ones are hung in
	if af := rv.FieldByName("Actor"); af.IsValid() {
		own, _ := af.Interface().(*oidc.ActorClaims)
		switch {
		case has(m.shares, "actor"):
			af.Set(reflect.ValueOf(b.as))
		case has(m.shares, "nested-actor") && own != nil:
			own.Actor = nil
			b.fam.ctl.gateActors(m.label, own)
			own.Actor = b.as
		default:
			b.fam.ctl.gateActors(m.label, own)
		}
	}
	if lt, isLT := m.ptr.(*oidc.LogoutTokenClaims); isLT && m.path == "fields" {
		if has(m.shares, "events") {
			lt.Events = b.ev
		} else {
			lt.Events = b.fam.ctl.gated(m.label, "events", lt.Events)
		}
	}
	if has(m.shares, "address") && !strings.HasPrefix(m.path, "setuserinfo:") {
		rv.FieldByName("Address").Set(reflect.ValueOf(b.addr))
	}
	return true, ""
}

func (b *famBuilder) sharedClaimsModel() map[string]any {
	r := b.g.r
	mm := map[string]any{}
	for n := pick(r, 1, 2, 2, 3); n > 0; n-- {
		mm[b.g.foreignKey()] = b.g.customValue(0)
	}
	if r.IntN(3) == 0 {
		// a key that is a registered name of some types: set there -> the registered claim wins, unset -> grey
		name := pick(r, "name", "email", "nonce", "iss", "sub", "aud", "exp", "act", "scope", "address", "locale", "username", "jti", "sid")
		if r.IntN(2) == 0 {
			mm[name] = "shared-" + b.g.str()
		} else {
			mm[name] = b.g.customValue(0)
		}
	}
	return mm
}

func newFamily(c *ctx, g gen, i int) (*family, string) {
	r := g.r
	b := &famBuilder{c: c, g: g, fam: &family{ctl: &gateCtl{}}}
	shape := famShapes[i%len(famShapes)]
	if i%len(famShapes) == 0 && r.IntN(3) == 0 {
		shape = "claims-map+actor"
	}
	b.fam.shape = shape
	shares := strings.Split(shape, "+")
	if shape == "none" || shape == "same-pointer" {
		shares = nil
	}
	n := pick(r, 2, 2, 3)
	var types []string
	switch {
	case shape == "claims-map+actor":
		types = []string{"IDTokenClaims", "AccessTokenClaims", "IntrospectionResponse"}
	case shape == "claims-map":
		types = []string{"IDTokenClaims", "IDTokenClaims", "IDTokenClaims", "UserInfo", "IntrospectionResponse", "IntrospectionResponse", "AccessTokenClaims", "LogoutTokenClaims", "JWTProfileAssertionClaims", "ActorClaims"}
	case shape == "actor" || shape == "nested-actor":
		types = []string{"IDTokenClaims", "AccessTokenClaims", "IntrospectionResponse", "ActorClaims"}
	case shape == "address":
		types = []string{"IDTokenClaims", "UserInfo", "IntrospectionResponse"}
	case shape == "events":
		types = []string{"LogoutTokenClaims"}
	case shape == "userinfo":
		types = []string{"IDTokenClaims", "IntrospectionResponse"}
	default:
		for _, s := range roundTripSpecs {
			types = append(types, s.name)
		}
	}
	// shared objects (model first, library objects with yield points from it)
	if has(shares, "claims-map") {
		b.mm = b.sharedClaimsModel()
		b.ms = b.fam.ctl.gated("shared", "claims", b.mm)
	}
	if has(shares, "actor") || has(shares, "nested-actor") {
		b.am = g.actor(pick(r, 1, 1, 2, 3))
		stripActorVariants(b.am)
		if r.IntN(8) != 0 {
			lvl := b.am
			for lvl.Act != nil && r.IntN(2) == 0 {
				lvl = lvl.Act
			}
			if lvl.Custom == nil {
				lvl.Custom = map[string]any{}
			}
			lvl.Custom[g.foreignKey()] = g.customValue(0)
		}
		b.as = applyActor(b.am)
		b.fam.ctl.gateActors("shared", b.as)
	}
	if has(shares, "address") {
		b.addrM = g.address()
		b.addr = &oidc.UserInfoAddress{Formatted: b.addrM.F[0], StreetAddress: b.addrM.F[1], Locality: b.addrM.F[2], Region: b.addrM.F[3], PostalCode: b.addrM.F[4], Country: b.addrM.F[5]}
	}
	if has(shares, "events") {
		b.evM = map[string]any{backchannelEvent: map[string]any{}}
		for k := pick(r, 1, 2); k > 0; k-- {
			b.evM[g.foreignKey()] = g.customValue(1)
		}
		b.ev = b.fam.ctl.gated("shared", "events", b.evM)
	}
	if has(shares, "userinfo") {
		us := specByName["UserInfo"]
		b.uiM = g.histValue(us, pick(r, 40, 70, 100), 0, true)
		b.ui = &oidc.UserInfo{}
		urv := reflect.ValueOf(b.ui).Elem()
		for j := range us.fields {
			setField(urv, &us.fields[j], b.uiM.vals[us.fields[j].name])
		}
		b.ui.Claims = b.fam.ctl.gated("shared", "userinfo.claims", b.uiM.custom)
		b.fam.members = append(b.fam.members, &member{label: "userinfo", v: b.uiM, ptr: b.ui, path: "fields", shares: []string{"userinfo"}})
	}
	// densities: the first member is rich, later ones are mostly poorer (they leave unset what an earlier one set)
	dens := []int{pick(r, 70, 100), pick(r, 15, 15, 40, 70), pick(r, 15, 40, 100)}
	for k := 0; k < n; k++ {
		s := specByName[types[r.IntN(len(types))]]
		if shape == "userinfo" {
			s = specByName[types[k%2]]
		}
		actorDepth := pick(r, 0, 1, 1, 2)
		if has(shares, "nested-actor") {
			actorDepth = 1
		}
		v := g.histValue(s, dens[k], actorDepth, r.IntN(6) != 0)
		m := &member{label: fmt.Sprintf("m%d", k), v: v, shares: shares}
		m.path = pick(r, pathsFor(s.name, shape)...)
		if shape == "userinfo" {
			m.path = pick(r, "setuserinfo:nil-claims", "setuserinfo:own-map", "setuserinfo:prepopulated")
			for name := range uiSpecFields {
				v.vals[name] = b.uiM.vals[name]
			}
			v.custom = b.uiM.custom
		}
		if has(shares, "claims-map") {
			v.custom = b.mm
		}
		if has(shares, "actor") {
			v.vals["act"] = b.am
		}
		if has(shares, "nested-actor") {
			outer, _ := v.vals["act"].(*actorM)
			if outer == nil {
				outer = g.actor(1)
				stripActorVariants(outer)
			}
			outer = &actorM{Iss: outer.Iss, Sub: outer.Sub, Custom: outer.Custom, Act: b.am}
			v.vals["act"] = outer
		}
		if has(shares, "address") {
			v.vals["address"] = b.addrM
		}
		if has(shares, "events") {
			v.vals["events"] = b.evM
		}
		// SetUserInfo copies the preferred user name of the userinfo into the response; the model says the same
		if ok, why := b.construct(m); !ok {
			return nil, why
		}
		b.fam.members = append(b.fam.members, m)
		if s.name == "IDTokenClaims" && r.IntN(3) == 0 {
			ui := m.ptr.(*oidc.IDTokenClaims).GetUserInfo()
			b.fam.members = append(b.fam.members, &member{label: m.label + ".getuserinfo", v: uiModelOf(v), ptr: ui, path: "getuserinfo", shares: []string{"copied out of " + m.label + " by GetUserInfo"}})
		}
	}
	if shape == "same-pointer" {
		m0 := b.fam.members[0]
		alias := &member{label: m0.label + "-again", v: m0.v, ptr: m0.ptr, path: m0.path, shares: []string{"same-pointer"}}
		m0.shares = []string{"same-pointer"}
		b.fam.members = append([]*member{m0, alias}, b.fam.members[1:]...)
	}
	return b.fam, ""
}

type mout struct {
	doc []byte
	err error
	pi  *mon.PanicInfo
}

func marshalOut(ptr any) mout {
	d, e, p := marshalCatch(ptr)
	return mout{d, e, p}
}

// judgeMember judges one encoding of one member on its own. prefix is "C12:shared:" or "C12:overlap:".
// good=false: something was reported (the case stops there).
func (c *ctx) judgeMember(caseID int64, f *family, idx int, o mout, prefix string, wit func() map[string]any) (ref map[string]any, good bool) {
	m := f.members[idx]
	v, s := m.v, m.v.spec
	fail := func(class, what string, extra map[string]any) {
		w := wit()
		w["judged_member"] = m.label
		if o.doc != nil {
			w["document"] = trunc(string(o.doc), 4000)
		}
		for k, x := range extra {
			w[k] = x
		}
		c.t.count("shared_issue", prefix+s.site+":"+class)
		c.run.Violation(prefix+s.site+":"+class, caseID, what, w)
	}
	if o.pi != nil {
		if o.pi.Harness || !o.pi.InRepo {
			c.run.HarnessBug("panic outside the library while marshalling a member of a family: " + o.pi.Value + " at " + o.pi.Frame)
			return nil, false
		}
		w := wit()
		w["judged_member"], w["panic"], w["site"] = m.label, o.pi.Value, o.pi.Site()
		c.run.Violation("C12:encode:"+panicType(o.pi, s.name)+":panic", caseID, "marshalling a valid "+s.name+" panicked: "+o.pi.Value, w)
		return nil, false
	}
	if o.err != nil {
		fail("valid-value-marshal-error", fmt.Sprintf("marshalling member %s (%s, built by %s) failed: %v", m.label, s.name, m.path, o.err), map[string]any{"error": o.err.Error()})
		return nil, false
	}
	r0, rerr := refDecode(o.doc)
	refObj, isObj := r0.(map[string]any)
	if rerr != nil || !isObj {
		fail("document-not-an-object", s.name+" was marshalled to something that is not a JSON object", nil)
		return nil, false
	}
	if issues := checkDoc(v, refObj, nil, c.t, false); len(issues) > 0 {
		var details, leaked []string
		for _, is := range issues {
			details = append(details, is.detail)
		}
		for _, st := range unexplained(v, refObj, "") {
		trace:
			for j, om := range f.members {
				if om.v == v {
					continue
				}
				for _, le := range ledgerOf(j, om.v) {
					if carries(le.v, st.name, st.val) {
						leaked = append(leaked, fmt.Sprintf("%q = %s is a claim of member %s (%s)", st.path, compact(st.val), om.label, le.v.spec.name))
						break trace
					}
				}
			}
		}
		if len(leaked) > 0 {
			fail("claims-of-another-value-in-document", fmt.Sprintf("the document of member %s (%s, built by %s) holds claims the value does not contain, they belong to another value of the family: %s",
				m.label, s.name, m.path, trunc(strings.Join(leaked, "; "), 600)), map[string]any{"issues": details, "claims_of_other_members": leaked})
		} else {
			fail("document-not-from-value", fmt.Sprintf("member %s (built by %s): %s", m.label, m.path, trunc(strings.Join(details, "; "), 600)), map[string]any{"issues": details})
		}
		return refObj, false
	}
	ptr2 := s.newPtr()
	var derr error
	if pi := mon.Catch(func() { derr = json.Unmarshal(o.doc, ptr2) }); pi != nil {
		if pi.Harness || !pi.InRepo {
			c.run.HarnessBug("panic outside the library while decoding a member's document: " + pi.Value + " at " + pi.Frame)
			return refObj, false
		}
		w := wit()
		w["judged_member"], w["panic"], w["site"] = m.label, pi.Value, pi.Site()
		c.run.Violation("C12:decode:"+panicType(pi, s.name)+":panic", caseID, "decoding the library's own output panicked: "+pi.Value, w)
		return refObj, false
	}
	if derr != nil {
		if risky(v) {
			c.t.count("shared_step", "grey: own output not decodable (custom key under an unset registered name / time beyond float64)")
			return refObj, true
		}
		fail("own-output-not-decodable", fmt.Sprintf("the library cannot decode its own output for member %s: %v", m.label, derr), map[string]any{"error": derr.Error()})
		return refObj, false
	}
	var claimsOf func(string) (any, bool)
	if s.private {
		j := ptr2.(interface{ GetCustomClaim(string) any })
		claimsOf = func(k string) (any, bool) { x := j.GetCustomClaim(k); _, inDoc := refObj[k]; return x, inDoc }
	} else {
		cl := getClaims(s, ptr2)
		claimsOf = func(k string) (any, bool) { x, ok := cl[k]; return x, ok }
	}
	if issues := compareDecoded(v, reflect.ValueOf(ptr2).Elem(), claimsOf, c.t, ""); len(issues) > 0 {
		var details []string
		for _, is := range issues {
			details = append(details, is.detail)
		}
		fail("decoded-value-differs", fmt.Sprintf("member %s: %s", m.label, trunc(strings.Join(details, "; "), 600)), map[string]any{"issues": details})
		return refObj, false
	}
	return refObj, true
}

// poorerThanEarlier: does a later IDTokenClaims / other member leave a registered claim unset that an earlier member
// sharing the claims map has set (the scenario in which a claim written into the shared map would show)?
func poorerThanEarlier(f *family) bool {
	for j, later := range f.members {
		if !has(later.shares, "claims-map") {
			continue
		}
		for _, earlier := range f.members[:j] {
			if !has(earlier.shares, "claims-map") || earlier.v == later.v {
				continue
			}
			for i := range earlier.v.spec.fields {
				fd := &earlier.v.spec.fields[i]
				set, _ := isSet(fd, effective(earlier.v, fd.name))
				if !set {
					continue
				}
				lfd := later.v.spec.byName[fd.name]
				if lfd == nil {
					if _, custom := later.v.custom[fd.name]; !custom {
						return true
					}
					continue
				}
				if lset, weak := isSet(lfd, effective(later.v, fd.name)); !lset && !weak {
					if _, custom := later.v.custom[fd.name]; !custom {
						return true
					}
				}
			}
		}
	}
	return false
}

func runShared(c *ctx, i int) {
	caseID := partShared*partSize + int64(i)
	r := c.run.CaseRand(uint64(partShared), i)
	g := gen{r}
	c.run.Eval()
	var f *family
	var why string
	if pi := mon.Catch(func() { f, why = newFamily(c, g, i) }); pi != nil {
		if pi.InRepo && !pi.Harness {
			c.run.Violation("C12:construct:"+pi.Site()+":panic", caseID, "building a claims value through the library's constructors / copy functions panicked: "+pi.Value, map[string]any{"part": "shared", "panic": pi.Value, "site": pi.Site()})
			return
		}
		c.run.HarnessBug("panic while building a family of values: " + pi.Value + " at " + pi.Frame)
		return
	}
	if f == nil {
		c.t.count("shared_outcome", "not constructible: "+why)
		return
	}
	n := len(f.members)
	first := make([]map[string]any, n)
	firstDoc := make([][]byte, n)
	traces := make([][]string, n)

	// 1. in sequence
	for idx, m := range f.members {
		var o mout
		traces[idx] = f.ctl.trace(func() { o = marshalOut(m.ptr) })
		idx := idx
		ref, good := c.judgeMember(caseID, f, idx, o, "C12:shared:", func() map[string]any {
			w := f.witness()
			w["schedule"] = fmt.Sprintf("members encoded one after the other in the order listed; this is the first encoding of member %s", f.members[idx].label)
			return w
		})
		if !good {
			return
		}
		first[idx], firstDoc[idx] = ref, o.doc
	}
	c.observe("shared:sequential-judged")
	for _, m := range f.members {
		c.observe("shared:path:" + m.path)
	}
	for _, sh := range strings.Split(f.shape, "+") {
		c.observe("shared:shape:" + sh)
	}
	if poorerThanEarlier(f) {
		c.observe("shared:claims-map:later-value-lacks-registered-claims-of-an-earlier-one")
	}
	// byte for byte the document that was judged in the first round: nothing new to judge
	asJudged := func(idx int, o mout) bool {
		return o.pi == nil && o.err == nil && bytes.Equal(o.doc, firstDoc[idx])
	}
	same := func(idx int, ref map[string]any, prefix, schedule string) bool {
		if jsonEqRef(first[idx], ref) {
			return true
		}
		m := f.members[idx]
		w := f.witness()
		w["schedule"], w["judged_member"] = schedule, m.label
		c.run.Violation(prefix+m.v.spec.site+":same-value-different-document", caseID,
			fmt.Sprintf("member %s (%s) gave two different documents in one family although the value is the same", m.label, m.v.spec.name), w)
		return false
	}

	// 2. forced single preemptions
	type pair struct{ a, b int }
	var pairs []pair
	lim := n
	if lim > 4 {
		lim = 4
	}
	for a := 0; a < lim; a++ {
		for bb := 0; bb < lim; bb++ {
			if a != bb && len(traces[a]) > 0 {
				pairs = append(pairs, pair{a, bb})
			}
		}
	}
	r.Shuffle(len(pairs), func(x, y int) { pairs[x], pairs[y] = pairs[y], pairs[x] })
	if len(pairs) > 4 {
		pairs = pairs[:4]
	}
	parkedClasses := map[string]bool{}
	overlaps := 0
	for _, p := range pairs {
		ks := make([]int, len(traces[p.a]))
		for k := range ks {
			ks[k] = k
		}
		if len(ks) > 8 {
			r.Shuffle(len(ks), func(x, y int) { ks[x], ks[y] = ks[y], ks[x] })
			ks = ks[:8]
			sort.Ints(ks)
		}
		ma, mb := f.members[p.a], f.members[p.b]
		// one in four: the running call decodes the parked member's document instead of encoding member B
		decodeMid := r.IntN(4) == 0
		for _, k := range ks {
			var oa, ob mout
			var midDoc []byte
			var midErr error
			var midPI *mon.PanicInfo
			mid := func() { ob = marshalOut(mb.ptr) }
			if decodeMid {
				midDoc, _ = json.Marshal(first[p.a])
				mid = func() {
					dst := ma.v.spec.newPtr()
					midPI = mon.Catch(func() { midErr = json.Unmarshal(midDoc, dst) })
					ob = marshalOut(mb.ptr)
				}
			}
			res := f.ctl.preempt(k, func() { oa = marshalOut(ma.ptr) }, mid, sharedPatience)
			c.run.Eval()
			if res.Blocked {
				c.t.count("shared_blocked_at", pointClass(res.At))
				c.run.Inconclusive("shared: the running encoding could not finish while the other was parked at " + res.At)
				continue
			}
			if !res.Reached {
				c.t.count("shared_outcome", "park point not reached (the encoding passed fewer points than in sequence)")
				continue
			}
			schedule := fmt.Sprintf("member %s was encoded on a goroutine of its own and parked at its yield point #%d (%s: inside the encoding of that custom value); meanwhile member %s was encoded to completion%s; then %s was released",
				ma.label, k, res.At, mb.label, map[bool]string{true: " (after decoding the parked member's earlier document into a fresh value)", false: ""}[decodeMid], ma.label)
			wit := func() map[string]any {
				w := f.witness()
				w["schedule"], w["parked_member"], w["running_member"], w["parked_at"], w["points_of_parked_encoding"] = schedule, ma.label, mb.label, res.At, traces[p.a]
				return w
			}
			if midPI != nil && midPI.InRepo && !midPI.Harness {
				w := wit()
				w["panic"], w["site"] = midPI.Value, midPI.Site()
				c.run.Violation("C12:decode:"+panicType(midPI, ma.v.spec.name)+":panic", caseID, "decoding a document while an encoding was parked panicked: "+midPI.Value, w)
				return
			}
			if decodeMid && midErr != nil && !risky(ma.v) {
				w := wit()
				w["error"] = midErr.Error()
				c.run.Violation("C12:overlap:"+decodeSite(ma.v.spec)+":own-output-not-decodable", caseID, "a document the library produced could not be decoded while an encoding was parked: "+midErr.Error(), w)
				return
			}
			for _, j := range []struct {
				idx int
				o   mout
			}{{p.a, oa}, {p.b, ob}} {
				if asJudged(j.idx, j.o) {
					c.t.count("shared_step", "overlap: document byte-identical to the one judged in sequence")
					continue
				}
				ref, good := c.judgeMember(caseID, f, j.idx, j.o, "C12:overlap:", wit)
				if !good || !same(j.idx, ref, "C12:overlap:", schedule) {
					return
				}
				c.t.count("shared_step", "overlap: document differs in bytes only, judged again and equal as JSON")
			}
			overlaps++
			cl := pointClass(res.At)
			parkedClasses[cl] = true
			c.t.count("shared_parked_at", cl)
			c.observe("shared:parked-inside:" + cl)
			if ma.ptr == mb.ptr {
				c.observe("shared:overlap:same-pointer")
			}
			if decodeMid {
				c.observe("shared:overlap:decode-while-encoding-is-parked")
			}
			if strings.HasPrefix(cl, "shared act") && (has(mb.shares, "actor") || has(mb.shares, "nested-actor")) {
				c.observe("shared:actor:running-call-encodes-the-actor-the-parked-call-is-inside")
			}
		}
	}
	if overlaps > 0 {
		c.observe("shared:overlap-judged")
	}

	// 3. in sequence once more
	for idx, m := range f.members {
		o := marshalOut(m.ptr)
		idx := idx
		if asJudged(idx, o) {
			c.t.count("shared_step", "final round: document byte-identical to the one judged first")
			continue
		}
		schedule := fmt.Sprintf("after the sequential round and %d forced overlaps every member is encoded once more; this is member %s", overlaps, m.label)
		ref, good := c.judgeMember(caseID, f, idx, o, "C12:shared:", func() map[string]any {
			w := f.witness()
			w["schedule"] = schedule
			return w
		})
		if !good {
			return
		}
		if !same(idx, ref, "C12:shared:", schedule) {
			return
		}
	}
	c.observe("shared:final-round-judged")
	c.t.count("shared_outcome", "family judged: "+f.shape)
	c.t.count("shared_overlaps_per_family", fmt.Sprintf("%02d", overlaps))
	var types, paths, parked []string
	for _, m := range f.members {
		types = append(types, m.v.spec.name)
		paths = append(paths, m.path)
		c.t.count("shared_member", m.v.spec.name+" by "+m.path)
	}
	for k := range parkedClasses {
		parked = append(parked, k)
	}
	sort.Strings(parked)
	c.t.dim(fmt.Sprintf("shared|%s|%s|%s|%s", f.shape, strings.Join(types, ","), strings.Join(paths, ","), strings.Join(parked, ",")))
	if i%1201 == 0 && len(f.members) <= 3 {
		w := f.witness()
		w["points_per_member"] = traces
		c.run.SampleKind("shared-family", w)
	}
}
