package main

// Part 2: the per-field decoder matrix (every JSON form of the catalogue x every
// registered field of every type, also inside address / nested actors, as the
// whole document, and fed to the leaf decoders directly) and
// Part 3: generated multi-member documents.

import (
	"encoding/json"
	"fmt"
	"os"
	"path/filepath"
	"reflect"
	"regexp"
	"strconv"
	"strings"

	"github.com/zitadel/oidc/v3/pkg/oidc"

	"verif/internal/ev"
	"verif/internal/mon"
)

// forms is the catalogue of JSON value literals (all valid JSON).
var forms = []string{
	// literals
	`null`, `true`, `false`,
	// numbers
	`0`, `-0`, `1`, `-1`, `1.5`, `-1.5`, `0.999`, `1e3`, `1E+3`, `1e-3`, `1.0`, `2147483648`, `4294967296`, `1700000000`, `1700000000.75`,
	`9007199254740992`, `9007199254740993`, `-9007199254740993`, `9223372036854775807`, `9223372036854775808`, `-9223372036854775808`,
	`-9223372036854775809`, `18446744073709551616`, `1e19`, `-1e19`, `1e30`, `-1e30`, `1e308`, `1e-400`, `123456789012345678901234567890`, `9.3e18`,
	// strings
	`""`, `"a"`, `"true"`, `"false"`, `"TRUE"`, `"True"`, `"1"`, `"0"`, `"t"`, `"T"`, `"f"`, `"y"`, `"on"`, `" true"`, `"true "`, `"1700000000"`, `"-5"`, `"1e3"`, `"null"`, `"a b"`, `" a  b "`,
	`"en"`, `"en de"`, `"en-us de_CH"`, `"xx-ZZ"`, `"notatagatall"`, `"iw"`, `"und"`, `"en  fr"`, `"zh-Hant-TW"`, `"page"`, `"popup"`, `"POPUP"`,
	`"x\u0000y"`, `"😀"`, `"\ud800"`, `"ſub"`,
	// RFC 3339 and look-alikes
	`"2023-11-14T22:13:20Z"`, `"2023-11-14T23:13:20+01:00"`, `"2023-11-14T15:13:20-07:00"`, `"2023-11-14T22:13:20.5Z"`,
	`"2023-11-14T22:13:20.999999999Z"`, `"2023-11-14T22:13:20.123456789123Z"`, `"1969-12-31T23:59:59Z"`, `"1969-12-31T23:59:59.5Z"`,
	`"0001-01-01T00:00:00Z"`, `"0000-01-01T00:00:00Z"`, `"9999-12-31T23:59:59Z"`, `"2024-02-29T00:00:00Z"`, `"2023-02-29T00:00:00Z"`,
	`"2016-12-31T23:59:60Z"`, `"2023-11-14t22:13:20z"`, `"2023-11-14 22:13:20Z"`, `"2023-11-14T22:13:20"`, `"2023-11-14"`,
	`"2023-11-14T22:13:20+24:00"`, `"2023-11-14T22:13:20-00:00"`, `"2023-11-14T22:13:20+23:59"`, `"2023-11-14T22:13Z"`, `"10000-01-01T00:00:00Z"`,
	`"Tue, 14 Nov 2023 22:13:20 GMT"`, `"2023-11-14T22:13:20,5Z"`, `"2023-11-14T24:00:00Z"`, `"2023-13-01T00:00:00Z"`,
	// arrays
	`[]`, `["a"]`, `["a","b"]`, `[""]`, `[1]`, `["a",1]`, `[null]`, `[true]`, `[["a"]]`, `[{}]`, `["en","de"]`, `["en","xx-ZZ",""]`, `[1.5,"x"]`, `["a",null,"b"]`, `[1e30]`,
	// objects
	`{}`, `{"a":"b"}`, `{"sub":"x"}`, `{"sub":1}`, `{"iss":null}`, `{"act":{"sub":"y"}}`, `{"act":1}`, `{"act":{"act":{"act":[1]}}}`, `{"country":"CH"}`,
	`{"country":1}`, `{"aud":[1]}`, `{"exp":1e30}`, `{"http://schemas.openid.net/event/backchannel-logout":{}}`,
}

// leaf decoders fed directly with a document
type leafDecoder struct {
	name   string
	kind   kind
	decode func(raw []byte) (any, error)
}

var leafDecoders = []leafDecoder{
	{"Audience", kAud, func(raw []byte) (any, error) {
		var v oidc.Audience
		err := json.Unmarshal(raw, &v)
		return []string(v), err
	}},
	{"Time", kTime, func(raw []byte) (any, error) {
		var v oidc.Time
		err := json.Unmarshal(raw, &v)
		return int64(v), err
	}},
	{"Bool", kTolBool, func(raw []byte) (any, error) {
		var v oidc.Bool
		err := json.Unmarshal(raw, &v)
		return bool(v), err
	}},
	{"SpaceDelimitedArray", kScope, func(raw []byte) (any, error) {
		var v oidc.SpaceDelimitedArray
		err := json.Unmarshal(raw, &v)
		return []string(v), err
	}},
	{"Locale", kLocale, func(raw []byte) (any, error) {
		var v oidc.Locale
		err := json.Unmarshal(raw, &v)
		return localeM(v.Tag().String()), err
	}},
	{"Locales", kLocales, func(raw []byte) (any, error) {
		var v oidc.Locales
		err := json.Unmarshal(raw, &v)
		out := make([]string, len(v))
		for i, t := range v {
			out[i] = t.String()
		}
		return out, err
	}},
	{"Display", kDisplay, func(raw []byte) (any, error) {
		var v oidc.Display
		err := json.Unmarshal(raw, &v)
		return string(v), err
	}},
}

type mcase struct {
	spec  *typeSpec // nil: leaf decoder
	leaf  *leafDecoder
	where string // "", "address", "act", "act.act", "document", "deep:<n>"
	field string
	form  string
	doc   string
}

func hasField(s *typeSpec, name string) bool { _, ok := s.byName[name]; return ok }

func nestActs(depth int, inner string) string {
	return strings.Repeat(`{"act":`, depth) + inner + strings.Repeat(`}`, depth)
}

// buildMatrix enumerates the finite matrix; the order is fixed, so an index identifies a case.
func buildMatrix(thorough bool) []mcase {
	var out []mcase
	q := func(s string) string { b, _ := json.Marshal(s); return string(b) }
	for _, s := range specs {
		for i := range s.fields {
			fd := &s.fields[i]
			for _, fm := range forms {
				out = append(out, mcase{spec: s, field: fd.name, form: fm, doc: `{` + q(fd.name) + `:` + fm + `}`})
			}
		}
		if hasField(s, "address") {
			for _, sub := range addressFields {
				for _, fm := range forms {
					out = append(out, mcase{spec: s, where: "address", field: sub, form: fm, doc: `{"address":{` + q(sub) + `:` + fm + `}}`})
				}
			}
		}
		if hasField(s, "act") {
			for _, sub := range []string{"iss", "sub", "act", "aud", "exp"} {
				for _, fm := range forms {
					out = append(out, mcase{spec: s, where: "act", field: sub, form: fm, doc: `{"act":{` + q(sub) + `:` + fm + `}}`})
					if sub == "sub" || sub == "act" {
						out = append(out, mcase{spec: s, where: "act.act.act", field: sub, form: fm, doc: `{"act":` + nestActs(2, `{`+q(sub)+`:`+fm+`,"x":1}`) + `}`})
					}
				}
			}
			depths := []int{6, 64, 1000}
			if thorough {
				depths = append(depths, 3000)
			}
			depths = append(depths, 10001) // beyond encoding/json's own nesting limit: an error is the expected answer
			for _, d := range depths {
				out = append(out, mcase{spec: s, where: fmt.Sprintf("deep:%d", d), field: "act", form: "nested-actors", doc: nestActs(d, `{"sub":"innermost","k":[1]}`)})
			}
		}
		for _, fm := range forms {
			out = append(out, mcase{spec: s, where: "document", field: "-", form: fm, doc: fm})
		}
		for _, bad := range []string{``, `{`, `{"sub":}`, `{"sub":"x",}`, `{"sub":"x"} trailing`, `nul`, `{'sub':'x'}`, `{"aud":[1}`, "{\"sub\":\"\xff\"}", `{"exp":01}`, `{"exp":+1}`, `{"exp":.5}`, `{"exp":1.}`, `{"exp":NaN}`, `{"exp":Infinity}`, `{"exp":0x10}`} {
			out = append(out, mcase{spec: s, where: "document", field: "-", form: "malformed", doc: bad})
		}
	}
	for i := range leafDecoders {
		for _, fm := range forms {
			out = append(out, mcase{leaf: &leafDecoders[i], where: "document", field: "-", form: fm, doc: fm})
		}
	}
	return out
}

var recvRe = regexp.MustCompile(`\(\*?([A-Za-z0-9_]+)\)\.`)

// panicKey names the decoder type a panic came from.
func panicType(pi *mon.PanicInfo, fallback string) string {
	if m := recvRe.FindStringSubmatch(pi.Site()); m != nil {
		return m[1]
	}
	site := pi.Site()
	if i := strings.LastIndex(site, "."); i >= 0 && i+1 < len(site) {
		return site[i+1:]
	}
	if site != "" {
		return site
	}
	return fallback
}

func writeInflight(run *ev.Run, caseID int64, what any) {
	path := filepath.Join(ev.Out, "replay", run.ID+".inflight.json")
	b, _ := json.Marshal(map[string]any{"property": run.ID, "seed": run.Seed, "tier": run.Tier, "case": caseID, "witness": what})
	_ = os.MkdirAll(filepath.Dir(path), 0o755)
	_ = os.WriteFile(path, b, 0o644)
}

func clearInflight(run *ev.Run) {
	_ = os.Remove(filepath.Join(ev.Out, "replay", run.ID+".inflight.json"))
}

func trunc(s string, n int) string {
	if len(s) > n {
		return s[:n] + fmt.Sprintf("...(%d bytes)", len(s))
	}
	return s
}

// decodeAndJudge feeds one document to one type and reports what the oracle says.
func decodeAndJudge(c *ctx, caseID int64, part string, s *typeSpec, doc string, wit map[string]any) (res docResult) {
	ptr := s.newPtr()
	var err error
	pi := mon.Catch(func() { err = json.Unmarshal([]byte(doc), ptr) })
	wit["type"] = s.name
	wit["document"] = trunc(doc, 4000)
	if pi != nil {
		c.t.count(part+"_outcome", "panic")
		if pi.Harness || !pi.InRepo {
			c.run.HarnessBug(fmt.Sprintf("panic outside the library while decoding %s: %s at %s", trunc(doc, 200), pi.Value, pi.Frame))
			return
		}
		ty := panicType(pi, s.name)
		wit["panic"] = pi.Value
		wit["site"] = pi.Site()
		c.run.Violation("C12:decode:"+ty+":panic", caseID, fmt.Sprintf("decoding %s into %s panicked at %s: %s", trunc(doc, 120), s.name, pi.Site(), pi.Value), wit)
		res.decided = true
		return
	}
	res = judgeDoc(s, []byte(doc), ptr, err)
	if err != nil {
		wit["error"] = err.Error()
		c.t.count(part+"_outcome", "error")
	} else {
		c.t.count(part+"_outcome", "decoded")
	}
	for _, b := range res.buckets {
		c.t.count(part+"_form", b)
	}
	for _, fd := range res.findings {
		w := map[string]any{}
		for k, v := range wit {
			w[k] = v
		}
		w["field"] = fd.Field
		w["detail"] = fd.Detail
		c.run.Violation("C12:decode:"+fd.Kind+":"+fd.Class, caseID, fd.Detail, w)
	}
	return res
}

func runMatrixCase(c *ctx, idx int, m mcase) {
	caseID := partMatrix*partSize + int64(idx)
	c.run.Eval()
	wit := map[string]any{"part": "matrix", "where": m.where, "field": m.field, "form": trunc(m.form, 200)}
	if m.leaf != nil {
		var got any
		var err error
		pi := mon.Catch(func() { got, err = m.leaf.decode([]byte(m.doc)) })
		wit["type"] = m.leaf.name
		wit["document"] = m.doc
		c.t.dim("matrix|leaf:" + m.leaf.name + "|" + m.form)
		if pi != nil {
			if pi.Harness || !pi.InRepo {
				c.run.HarnessBug(fmt.Sprintf("panic outside the library in leaf decoder %s on %s: %s at %s", m.leaf.name, m.doc, pi.Value, pi.Frame))
				return
			}
			wit["panic"], wit["site"] = pi.Value, pi.Site()
			c.run.Violation("C12:decode:"+panicType(pi, m.leaf.name)+":panic", caseID, fmt.Sprintf("decoding %s into oidc.%s panicked: %s", m.doc, m.leaf.name, pi.Value), wit)
			return
		}
		ref, rerr := refDecode([]byte(m.doc))
		if rerr != nil {
			return
		}
		v := judgeLeaf(m.leaf.kind, ref, got)
		switch {
		case err != nil:
			wit["error"] = err.Error()
			c.t.count("matrix_form", v.bucket+" -> error")
			if v.must {
				c.run.Violation("C12:decode:"+m.leaf.name+":tolerant-form-rejected", caseID, fmt.Sprintf("oidc.%s rejected the documented form %s: %v", m.leaf.name, m.doc, err), wit)
			}
		case v.ok:
			c.t.count("matrix_form", v.bucket+" -> ok")
			if v.must {
				c.observeTolerant(v.bucket)
			}
		case v.lost:
			c.run.Violation("C12:decode:"+m.leaf.name+":value-lost", caseID, fmt.Sprintf("oidc.%s decoded %s without error to the zero value (want %s)", m.leaf.name, m.doc, v.want), wit)
		default:
			wit["decoded"] = show(got)
			c.run.Violation("C12:decode:"+m.leaf.name+":value-not-in-document", caseID, fmt.Sprintf("oidc.%s decoded %s without error to %s (want %s)", m.leaf.name, m.doc, show(got), v.want), wit)
		}
		return
	}
	deep := strings.HasPrefix(m.where, "deep:")
	if deep {
		writeInflight(c.run, caseID, map[string]any{"part": "matrix", "type": m.spec.name, "where": m.where})
	}
	res := decodeAndJudge(c, caseID, "matrix", m.spec, m.doc, wit)
	if deep {
		clearInflight(c.run)
	}
	if res.decided {
		c.t.dim("matrix|" + m.spec.name + "|" + m.where + "|" + m.field + "|" + m.form)
	}
	for _, b := range res.buckets {
		if strings.HasSuffix(b, " -> ok") {
			c.observeTolerant(strings.TrimSuffix(b, " -> ok"))
		}
	}
	if (m.spec.name == "IDTokenClaims" || m.spec.name == "IntrospectionResponse") && m.field == "exp" && m.where == "" && (m.form == `"2023-11-14T23:13:20+01:00"` || m.form == `1.5`) {
		c.run.SampleKind("matrix:"+m.spec.name+":"+m.form, map[string]any{"type": m.spec.name, "document": trunc(m.doc, 300), "outcome_buckets": res.buckets, "error": wit["error"]})
	}
	if m.field == "ui_locales" && m.form == `"en-us de_CH"` {
		c.run.SampleKind("matrix:locales", map[string]any{"type": m.spec.name, "document": m.doc, "outcome_buckets": res.buckets, "decoded": show(readField(reflect.ValueOf(mustDecode(m.spec, m.doc)).Elem(), m.spec.byName["ui_locales"]))})
	}
}

// ---------------------------------------------------------------------------
// generated documents

func (g gen) numberLiteral() string {
	r := g.r
	var b strings.Builder
	if r.IntN(3) == 0 {
		b.WriteByte('-')
	}
	n := pick(r, 1, 1, 2, 5, 10, 10, 16, 19, 19, 20, 25)
	b.WriteByte(byte('1' + r.IntN(9)))
	for i := 1; i < n; i++ {
		b.WriteByte(byte('0' + r.IntN(10)))
	}
	if r.IntN(4) == 0 {
		b.WriteByte('.')
		for i := r.IntN(6) + 1; i > 0; i-- {
			b.WriteByte(byte('0' + r.IntN(10)))
		}
	}
	if r.IntN(5) == 0 {
		b.WriteString(pick(r, "e", "E", "e+", "e-"))
		b.WriteString(strconv.Itoa(r.IntN(25)))
	}
	return b.String()
}

func (g gen) rfc3339(strict bool) string {
	r := g.r
	// instants between year 0000 and 9999 (kept a day away from the ends so that any offset stays inside)
	unix := -62167219200 + 86400 + r.Int64N(253402300799+62167219200-2*86400)
	if r.IntN(3) == 0 {
		unix = 1500000000 + r.Int64N(500000000)
	}
	off := 0
	if r.IntN(2) == 0 {
		off = (r.IntN(2*14*60+1) - 14*60)
	}
	frac := ""
	if r.IntN(3) == 0 {
		for i := r.IntN(9) + 1; i > 0; i-- {
			frac += string(rune('0' + r.IntN(10)))
		}
	}
	s := formatRFC3339(unix, off, frac, r.IntN(2) == 0)
	if strict {
		return s
	}
	switch r.IntN(6) {
	case 0:
		return strings.ToLower(s)
	case 1:
		return strings.Replace(s, "T", " ", 1)
	case 2:
		return s[:19]
	case 3:
		return s[:10]
	case 4:
		return strings.Replace(s, "-", "/", 2)
	default:
		return s + "x"
	}
}

func (g gen) jsonString(s string) string { b, _ := json.Marshal(s); return string(b) }

// formFor draws a JSON literal aimed at a field of kind k: half documented forms, half hostile ones.
func (g gen) formFor(k kind) string {
	r := g.r
	if r.IntN(5) == 0 {
		return pick(r, forms...)
	}
	arr := func(items ...string) string { return "[" + strings.Join(items, ",") + "]" }
	switch k {
	case kTime:
		switch r.IntN(6) {
		case 0, 1:
			return g.numberLiteral()
		case 2:
			return strconv.FormatInt(g.time(), 10)
		case 3, 4:
			return g.jsonString(g.rfc3339(true))
		default:
			return g.jsonString(g.rfc3339(false))
		}
	case kAud, kStrings:
		switch r.IntN(5) {
		case 0:
			return g.jsonString(g.str())
		case 1, 2:
			n := r.IntN(4)
			items := make([]string, n)
			for i := range items {
				items[i] = g.jsonString(g.str())
			}
			return arr(items...)
		default:
			n := r.IntN(4) + 1
			items := make([]string, n)
			for i := range items {
				if r.IntN(2) == 0 {
					items[i] = g.jsonString(g.str())
				} else {
					items[i] = pick(r, "1", "null", "true", "{}", `["x"]`, "1e30", "-0.5")
				}
			}
			return arr(items...)
		}
	case kScope:
		if r.IntN(4) == 0 {
			return arr(g.jsonString("openid"), g.jsonString("email"))
		}
		return g.jsonString(strings.Join(g.strs(true), pick(r, " ", " ", "  ")))
	case kBool, kTolBool:
		return pick(r, "true", "false", `"true"`, `"false"`, `"TRUE"`, `"yes"`, "1", "0", `"1"`, "null", `""`, "[true]", `{"true":true}`, `"t"`, `"T"`, `"y"`, `"on"`, `" true"`, "2", "1.0", "-1")
	case kLocale:
		return pick(r, g.jsonString(pick(r, localeTags...)), g.jsonString(strings.ToLower(pick(r, localeTags...))), g.jsonString(g.str()), `"en_GB"`, `"x-private"`, `"i-klingon"`, `"en-Latn-US-u-ca-gregory"`, "1", "null", `["en"]`)
	case kLocales:
		n := r.IntN(4)
		toks := make([]string, n)
		for i := range toks {
			toks[i] = pick(r, pick(r, localeTags...), "xx-ZZ", "???", "", "en_GB", "DE")
		}
		if r.IntN(2) == 0 {
			return g.jsonString(strings.Join(toks, " "))
		}
		items := make([]string, n)
		for i := range items {
			items[i] = g.jsonString(toks[i])
			if r.IntN(8) == 0 {
				items[i] = pick(r, "1", "null", "[]")
			}
		}
		return arr(items...)
	case kAddress:
		if r.IntN(4) == 0 {
			return pick(r, "null", "1", `"x"`, "[]")
		}
		var ms []string
		for _, n := range addressFields {
			if r.IntN(3) == 0 {
				ms = append(ms, g.jsonString(n)+":"+g.formFor(kString))
			}
		}
		return "{" + strings.Join(ms, ",") + "}"
	case kActor:
		if r.IntN(5) == 0 {
			return pick(r, "null", "1", `"x"`, "[]", `[{"sub":"x"}]`)
		}
		var ms []string
		if r.IntN(2) == 0 {
			ms = append(ms, `"iss":`+g.formFor(kString))
		}
		if r.IntN(2) == 0 {
			ms = append(ms, `"sub":`+g.formFor(kString))
		}
		if r.IntN(3) == 0 {
			ms = append(ms, `"act":`+g.formFor(kActor))
		}
		if r.IntN(3) == 0 {
			ms = append(ms, g.jsonString(g.customKeyPlain()+"c")+":"+g.anyJSON(0))
		}
		return "{" + strings.Join(ms, ",") + "}"
	case kEvents:
		if r.IntN(4) == 0 {
			return pick(r, "null", "1", `"x"`, "[]")
		}
		return `{"http://schemas.openid.net/event/backchannel-logout":` + g.anyJSON(1) + `}`
	case kUintPtr:
		return pick(r, strconv.Itoa(r.IntN(100000)), g.numberLiteral(), `"60"`, "null", "-1", "1.5", "18446744073709551616")
	case kDisplay:
		return pick(r, `"page"`, `"popup"`, `"touch"`, `"wap"`, `"Page"`, `"x"`, `""`, "1", "null")
	}
	// kString
	switch r.IntN(6) {
	case 0:
		return g.anyJSON(0)
	default:
		return g.jsonString(g.str())
	}
}

func (g gen) anyJSON(depth int) string {
	r := g.r
	top := 8
	if depth >= 3 {
		top = 6
	}
	switch r.IntN(top) {
	case 0:
		return "null"
	case 1:
		return pick(r, "true", "false")
	case 2, 3:
		return g.numberLiteral()
	case 4, 5:
		return g.jsonString(g.str())
	case 6:
		n := r.IntN(4)
		items := make([]string, n)
		for i := range items {
			items[i] = g.anyJSON(depth + 1)
		}
		return "[" + strings.Join(items, ",") + "]"
	default:
		n := r.IntN(4)
		items := make([]string, 0, n)
		seen := map[string]bool{}
		for i := 0; i < n; i++ {
			k := g.customKeyPlain() + "j"
			if seen[k] {
				continue
			}
			seen[k] = true
			items = append(items, g.jsonString(k)+":"+g.anyJSON(depth+1))
		}
		return "{" + strings.Join(items, ",") + "}"
	}
}

func runGeneratedDoc(c *ctx, i int) {
	caseID := partGenDoc*partSize + int64(i)
	r := c.run.CaseRand(uint64(partGenDoc), i)
	g := gen{r}
	s := specs[r.IntN(len(specs))]
	n := pick(r, 1, 1, 2, 3, 4, 6, 10)
	var members []string
	var kinds []string
	seen := map[string]bool{}
	ws := func() string { return pick(r, "", "", "", " ", "\n\t", "  ") }
	twist := "plain"
	for j := 0; j < n; j++ {
		var key, val string
		c100 := r.IntN(100)
		fd := &s.fields[r.IntN(len(s.fields))]
		switch {
		case c100 < 70:
			key, val = fd.name, g.formFor(fd.kind)
			kinds = append(kinds, fd.kind.String())
		case c100 < 75:
			if k, ok := foldVariant(r, fd.name, r.IntN(2) == 0); ok {
				key, val = k, g.formFor(fd.kind)
				twist = "case-variant"
			} else {
				key, val = g.customKeyPlain()+"g", g.anyJSON(0)
			}
		default:
			key, val = g.customKeyPlain()+"g", g.anyJSON(0)
		}
		if seen[key] {
			if r.IntN(4) != 0 {
				continue
			}
			twist = "duplicate-key"
		}
		seen[key] = true
		members = append(members, ws()+g.jsonString(key)+ws()+":"+ws()+val+ws())
	}
	doc := ws() + "{" + strings.Join(members, ",") + "}" + ws()
	c.run.Eval()
	wit := map[string]any{"part": "generated-document"}
	res := decodeAndJudge(c, caseID, "gendoc", s, doc, wit)
	if res.decided {
		kk := append([]string{}, kinds...)
		if len(kk) > 3 {
			kk = kk[:3]
		}
		c.t.dim("gendoc|" + s.name + "|" + twist + "|" + strings.Join(kk, ",") + "|" + fmt.Sprint(res.errored))
	}
	for _, b := range res.buckets {
		if strings.HasSuffix(b, " -> ok") {
			c.observeTolerant(strings.TrimSuffix(b, " -> ok"))
		}
	}
	if i < 40 && twist == "plain" && len(doc) < 400 {
		c.run.SampleKind("generated-document:"+twist+":"+fmt.Sprint(res.errored), map[string]any{"type": s.name, "document": trunc(doc, 400), "outcome_buckets": res.buckets, "error": wit["error"]})
	}
}

// mustDecode decodes a document again for a sample (errors ignored: samples are illustration only).
func mustDecode(s *typeSpec, doc string) any {
	ptr := s.newPtr()
	mon.Catch(func() { _ = json.Unmarshal([]byte(doc), ptr) })
	return ptr
}
