// C12 — claims codec: lossless round trip, registered claims win, tolerant decoding; AES sealing.
//
// No provider world: the codecs of pkg/oidc and pkg/crypto are driven directly.
//
//	part 1  round trips of generated values of the eight claims types (custom maps whose keys collide with
//	        registered names exactly, by ASCII case and by Unicode simple folding; nested actors <= 6), judged
//	        at JSON level against a model, decoded again, re-populated and marshalled a second time
//	part 2  the finite decoder matrix: every catalogued JSON form x every registered field of every type
//	        (also inside address / nested actors, as the whole document, and on the leaf decoders directly)
//	part 3  generated multi-member documents (documented and hostile forms, custom members, duplicates)
//	part 4  AES sealing: plaintexts x key lengths 0..40 x wrong keys x malformed sealed strings
//	part 5  histories: a probe value is marshalled before and after codec calls that FAIL (values with a custom
//	        claim JSON cannot express, documents that cannot be decoded); its document must stay a function of
//	        the value alone; a failing encoding that reports success must still hold every claim (see history.go)
//	part 6  families of values that share objects (one claims map, actor, address, events map, userinfo, the same
//	        pointer), built through the library's constructors / SetUserInfo / GetUserInfo / AppendClaims, encoded in
//	        sequence and under forced single preemptions at yield points inside the encoding (see shared.go)
//
// A case is a pure function of (seed, part, index); the case number of a replay file is part*1e9+index.
package main

import (
	"fmt"
	"runtime"
	"sort"
	"strings"
	"time"

	"verif/internal/ev"
)

const (
	partRoundTrip int64 = 1
	partMatrix    int64 = 2
	partGenDoc    int64 = 3
	partAES       int64 = 4
	partSize      int64 = 1_000_000_000
)

// tally is a worker-local set of histograms / dimension vectors, merged into the run at the end
// (the shared Run takes one mutex per call, which millions of cases would contend on).
type tally struct {
	hist     map[string]map[string]int64
	distinct map[string]struct{}
	seen     map[string]bool
}

func newTally() *tally {
	return &tally{hist: map[string]map[string]int64{}, distinct: map[string]struct{}{}, seen: map[string]bool{}}
}

func (t *tally) count(h, b string) {
	m := t.hist[h]
	if m == nil {
		m = map[string]int64{}
		t.hist[h] = m
	}
	m[b]++
}

func (t *tally) dim(k string) { t.distinct[k] = struct{}{} }

type ctx struct {
	run *ev.Run
	t   *tally
}

func (c *ctx) observe(name string) { c.t.seen[name] = true }

// observeTolerant records that a documented tolerant form was accepted with the right value.
func (c *ctx) observeTolerant(bucket string) { c.t.seen["tolerant:"+bucket] = true }

var mandatoryTolerant = []string{
	"tolerant:aud:string", "tolerant:Audience:array-of-strings", "tolerant:time:number-in-range", "tolerant:time:rfc3339",
	"tolerant:Bool:string-true", "tolerant:Bool:string-false", "tolerant:Bool:bool", "tolerant:scope:string",
	"tolerant:locale:well-formed", "tolerant:locales:space-delimited", "tolerant:locales:array-of-strings",
}

func main() {
	run := ev.Start("C12", "exploration")
	run.SetRule("part 1: generated values of {IDTokenClaims, AccessTokenClaims, LogoutTokenClaims, UserInfo, IntrospectionResponse, JWTProfileAssertionClaims, JWTTokenRequest, ActorClaims} " +
		"(registered fields set with density 15-100 %, custom maps of 0-8 keys: ~40 % registered names, ~7 % ASCII case variants, ~8 % Unicode-fold variants, rest foreign; actors nested 0-6) -> Marshal -> JSON-level reference -> Unmarshal -> compare -> new registered values -> Marshal -> JSON-level reference; " +
		"part 2 (finite, enumerated completely): catalogue of JSON forms x every registered field of 9 types (incl. RequestObject), also inside address and nested actors, as whole document, malformed documents, actors nested 6..10001, and the 7 leaf decoders directly; " +
		"part 3: generated documents of 1-10 members (documented / hostile forms per field kind, custom members, case variants, duplicate keys, white space); " +
		"part 4: AES seal/open over arbitrary byte strings, keys of 16/24/32 bytes, every bad key length 0..40, a positional other-key sweep per case (one flipped bit and one replaced byte at every key byte, shared 8/16/24-byte prefixes, shared last 16 bytes, unrelated, cross-length) for crypto.DecryptAES and for op.NewAESCrypto, eight classes of malformed sealed strings, op.NewAESCrypto. " +
		"part 5: histories of 3-10 codec calls on one goroutine (the first share of them on a single P, the rest on 16 goroutines; a failing call optionally on a goroutine of its own): probe value P marshalled + decoded, then 1-3 failing calls (json.Marshal of a rich value Q with one unencodable custom value: non-finite float / chan, func, complex, bool-keyed map / Marshaler returning an error, broken JSON or panicking / cyclic map; as top-level custom claim, nested in a custom claim, in a nested actor's custom claims, in the logout events; or json.Unmarshal of Q's document with one member of the wrong JSON kind) interleaved with other valid values, P marshalled again after them: every document of a valid value is judged against that value alone, equal values must give equal documents, unexplained members are traced in the ledger of earlier values. " +
		"part 6: families of 2-5 values over harness-owned shared objects (shape: one claims map / one *ActorClaims / a shared actor below own outer actors / one address / one events map / one *UserInfo feeding SetUserInfo of an ID token and an introspection response / the same pointer twice / nothing shared), members built by field assignment, NewIDTokenClaims / NewAccessTokenClaims / NewLogoutTokenClaims, SetUserInfo onto nil / empty / prepopulated claims, GetUserInfo, AppendClaims, NewJWTProfileAssertion + JWTProfileCustomClaim; every custom value is a json.Marshaler of the harness that passes a yield point and writes the model value: all members encoded in sequence, then member A parked at its k-th yield point (inside the encoding of that map / actor level / events) while member B is encoded (or A's document decoded and B encoded) to completion, enumerated over <= 8 points x <= 4 ordered pairs, then all members in sequence again; every call judged alone against the harness-owned model (document, decode, same value = same document), unexplained members traced to the other members. " +
		"distinct = distinct vectors (part 6: sharing shape, member types, construction paths, classes of park points; part 5: scheduling, probe type, custom y/n, fault classes, fault positions, own goroutine, length; part 1: type, collision classes x set/unset, actor depth, decoded|grey-error; part 2: type, position, field, form; part 3: type, twist, first three field kinds, errored; part 4: class, key length, plaintext length bucket) that reached the deciding step")
	run.Assume(
		"JSON-level reference = encoding/json into map[string]any with UseNumber; BCP 47 reference = golang.org/x/text/language; RFC 3339 and number references are the harness's own (math/big, civil-date arithmetic)",
		"a registered claim is 'set' iff its omitempty encoding is non-empty; claims without omitempty (IntrospectionResponse.active, all of JWTProfileAssertionClaims / JWTTokenRequest) are always set",
		"modelled, not flagged: empty list = absent; Locale{und} = nil; non-nil empty address/actor left open; IntrospectionResponse.username defaults to preferred_username; single aud re-emitted as array; only the outer nbf of IDTokenClaims is populated",
		"a custom key that equals a registered name case-insensitively (Go's struct decoding folds names) counts as colliding: with an unset registered claim everything is grey; with a set registered claim the decoded field must still hold the registered value",
		"times beyond +-2^53 are drawn in ~1 % of the time fields; coming back float64-rounded, as zero, or as a decode error is grey, a different value (sign flip) is a violation",
		"decoders are judged on fresh targets only; numbers in custom claims are float64-exact; strings are valid UTF-8; scope items contain no spaces",
		"part 5: an error (or the custom Marshaler's own panic) from a call that cannot succeed is outside the quantifier and only counted; if such a call reports success the document must hold every set registered claim, every JSON-native custom claim and a member for the unencodable one (lossless or error, never silently less); custom keys that are case variants of registered names are left to part 1; scheduling (one P / 16 goroutines) is a dimension of the exploration, never part of a verdict",
		"part 6: encoding is a read of the value, so encoding values that share maps / pointers, one after the other or overlapping, is legal use; the expected document comes from the harness's own model of what it put into the shared objects, never from reading them back; what SetUserInfo / GetUserInfo / AppendClaims / the constructors mean is taken from their documentation (copy the userinfo's subject, profile, email, phone, address and claims; keys of the token's own map are disjoint from the userinfo's); forced interleavings only (sched yield points in harness-implemented json.Marshalers), a blocked overlap is inconclusive",
		"AES: opening under another key is judged only for plaintexts of >= 8 bytes; base64 white space leniency (CR/LF) and opening truncated or tampered sealed strings (CFB has no integrity) are outside the statement and only observed",
	)
	if problems := initSpecs(); len(problems) > 0 {
		for _, p := range problems {
			run.HarnessBug("type table does not match the library: " + p)
		}
		run.Finish()
	}
	thorough := run.Tier == ev.Thorough
	matrix := buildMatrix(thorough)
	nRT := run.N(100_000, 2_000_000)
	nGen := run.N(60_000, 1_000_000)
	nAES := run.N(20_000, 300_000)
	nHist := run.N(16_000, 300_000)
	nHistSerial := run.N(3_000, 30_000) // of nHist: run on a single P
	nShared := run.N(4_000, 120_000)

	if rc := run.ReplayCase(); rc >= 0 {
		c := &ctx{run: run, t: newTally()}
		part, idx := rc/partSize, int(rc%partSize)
		switch part {
		case partRoundTrip:
			runRoundTrip(c, idx)
		case partMatrix:
			if idx < len(matrix) {
				runMatrixCase(c, idx, matrix[idx])
			}
		case partGenDoc:
			runGeneratedDoc(c, idx)
		case partAES:
			runAES(c, idx)
		case partShared:
			runShared(c, idx)
		case partHistory:
			if sched := historySched(idx, nHistSerial); sched == schedSingleP {
				old := runtime.GOMAXPROCS(1)
				runHistory(c, idx, sched)
				runtime.GOMAXPROCS(old)
			} else {
				runHistory(c, idx, sched)
			}
		default:
			run.HarnessBug(fmt.Sprintf("replay file names case %d of an unknown part", rc))
		}
		flush(run, []*tally{c.t})
		run.Distinct("replay")
		run.Distinct("replay-2")
		run.Finish()
	}

	for _, s := range roundTripSpecs {
		run.Mandatory("roundtrip:" + s.name)
	}
	run.Mandatory("override:exact-collision-with-set-claim", "override:second-generation")
	run.Mandatory(mandatoryTolerant...)
	run.Mandatory("aes:roundtrip:key16", "aes:roundtrip:key24", "aes:roundtrip:key32", "aes:wrong-key", "aes:wrong-key:crypto.DecryptAES", "aes:wrong-key:op.NewAESCrypto", "aes:bad-key-length", "aes:malformed-input", "aes:op-crypto")

	run.Mandatory(historyMandatory...)
	run.Mandatory(sharedMandatory...)

	const workers = 16
	tallies := make([]*tally, workers)
	for i := range tallies {
		tallies[i] = newTally()
	}
	// part 2 first: it is finite, cheap and holds the deep-nesting documents
	walls := map[string]float64{}
	timed := func(name string, fn func()) {
		t0 := time.Now()
		fn()
		walls[name] = float64(time.Since(t0).Milliseconds()) / 1000
	}
	timed("matrix", func() {
		ev.Parallel(len(matrix), workers, func(w, i int) { runMatrixCase(&ctx{run, tallies[w]}, i, matrix[i]) })
	})
	timed("roundtrip", func() { ev.Parallel(nRT, workers, func(w, i int) { runRoundTrip(&ctx{run, tallies[w]}, i) }) })
	timed("generated_documents", func() { ev.Parallel(nGen, workers, func(w, i int) { runGeneratedDoc(&ctx{run, tallies[w]}, i) }) })
	// part 5 after parts 1-3, so that those see codecs in which nothing has failed yet
	timed("histories", func() { runHistories(run, tallies, nHist, nHistSerial, workers) })
	timed("shared", func() { ev.Parallel(nShared, workers, func(w, i int) { runShared(&ctx{run, tallies[w]}, i) }) })
	timed("aes", func() { ev.Parallel(nAES, workers, func(w, i int) { runAES(&ctx{run, tallies[w]}, i) }) })
	flush(run, tallies)
	run.Extra("sizes", map[string]int{"roundtrip_cases": nRT, "matrix_cases": len(matrix), "generated_documents": nGen, "aes_cases": nAES, "histories": nHist, "histories_on_a_single_P": nHistSerial, "shared_families": nShared, "catalogue_forms": len(forms)})
	histDims := map[string]struct{}{}
	for _, t := range tallies {
		for k := range t.distinct {
			if strings.HasPrefix(k, "hist|") {
				histDims[k] = struct{}{}
			}
		}
	}
	run.Extra("history_distinct_vectors", len(histDims))
	run.Extra("part_wall_s", walls) // informational only: no verdict depends on it
	run.Finish()
}

func flush(run *ev.Run, ts []*tally) {
	for _, t := range ts {
		hs := make([]string, 0, len(t.hist))
		for h := range t.hist {
			hs = append(hs, h)
		}
		sort.Strings(hs)
		for _, h := range hs {
			for b, n := range t.hist[h] {
				run.CountN(h, b, n)
			}
		}
		for k := range t.distinct {
			run.Distinct(k)
		}
		for k := range t.seen {
			run.Observed(k)
		}
	}
}
