package main

// Part F — one remote key set (and one ID token verifier over it) through a HISTORY of provider-side events: the
// provider publishes a document, rotates it, and its JWKS endpoint fails for the next one or two downloads in one of
// seven ways (connection error, 503, 500 with an OAuth error body, 404, a body that is not JSON, a JSON body of the
// wrong shape, a body that breaks off); between the events tokens signed by keys of the current document, of earlier
// documents, by never published keys and by a foreign key under a published key ID are presented.
//
// The endpoint is the harness' RoundTripper, so the harness knows, for every presentation, which downloads happened
// during it and what each returned. After every presentation that caused a download the case waits until the download
// goroutine the key set started has ended (goroutine dump: "created by ...(*remoteKeySet).keysFromRemote in goroutine
// <this one>"); all bookkeeping of a finished download is then complete whatever the implementation looks like, so
// the reference below is exact and no verdict depends on timing (a wait that never ends is INCONCLUSIVE).
//
// Reference, from the statement ("a key of the configured key set" = a key of the document behind the configured
// JWKS URL) plus the one tolerance a cache needs: the key set may go on trusting the document of its last SUCCESSFUL
// download until another download succeeds; a failed download neither adds trust nor may it cost the key set its
// ability to learn the current document later.
//   - accept is legal only if the signing key, under the token's key ID, is in the document stored by the last
//     successful download that completed before the call, or in a document successfully downloaded during the call;
//   - a genuine token of a key the provider publishes NOW must be accepted when the endpoint answers the next download
//     properly (whatever failed before);
//   - the claims handed back are the signed payload, byte for byte.
// Everything else (refusing while the endpoint is down, refusing a key only the stale cache knows) is grey.
//
// Replay: case index faultBase + i.

import (
	"bytes"
	"context"
	"encoding/json"
	"errors"
	"fmt"
	"io"
	"net/http"
	"runtime"
	"strings"
	"sync"
	"time"

	jose "github.com/go-jose/go-jose/v4"

	"github.com/zitadel/oidc/v3/pkg/client/rp"
	"github.com/zitadel/oidc/v3/pkg/oidc"

	"verif/internal/ev"
	"verif/internal/keys"
	"verif/internal/mon"
)

const faultBase = int64(1) << 42

var faultKinds = []string{"connection-error", "status-503", "status-500-oauth-error-body", "status-404", "body-not-json", "body-wrong-shape", "body-breaks-off"}

// fDoc is one published document.
type fDoc struct {
	n     int // ordinal within the history
	keys  []rotKey
	noise []placedNoise // entries of the document no verifier can use (noise.go); not keys of the document
}

func (d *fDoc) has(kid, name string) bool {
	if d == nil {
		return false
	}
	for _, k := range d.keys {
		if k.kid == kid && k.name == name {
			return true
		}
	}
	return false
}

func (d *fDoc) String() string {
	if d == nil {
		return "(nothing stored)"
	}
	var ks []string
	for _, k := range d.keys {
		ks = append(ks, k.kid)
	}
	if len(d.noise) > 0 {
		return fmt.Sprintf("doc#%d[%s; document order with the unusable entries: %s]", d.n, strings.Join(ks, " "), jwksBody(d.entries(), d.noise))
	}
	return fmt.Sprintf("doc#%d[%s]", d.n, strings.Join(ks, " "))
}

func (d *fDoc) entries() []ksEntry {
	out := make([]ksEntry, len(d.keys))
	for i, k := range d.keys {
		out[i] = k.entry()
	}
	return out
}

// listedAfterNoise: is the key listed after an unusable entry of the document?
func (d *fDoc) listedAfterNoise(kid string) bool {
	if d == nil {
		return false
	}
	for i, k := range d.keys {
		if k.kid == kid && usableAfterNoise(d.noise, i) {
			return true
		}
	}
	return false
}

type dlEvent struct {
	kind string // "ok" or a fault kind
	doc  *fDoc  // what was served (ok only)
}

// faultRT is the provider: discovery document, JWKS document, and a queue of faults for the next downloads.
type faultRT struct {
	mu     sync.Mutex
	disc   []byte
	served *fDoc
	body   []byte
	plan   []string
	log    []dlEvent
	gate   chan struct{} // probe only: a download waits here
	atGate chan struct{}
}

func (t *faultRT) publish(d *fDoc) {
	set := jose.JSONWebKeySet{Keys: []jose.JSONWebKey{}}
	for _, k := range d.keys {
		set.Keys = append(set.Keys, k.entry().jwk())
	}
	b, err := json.Marshal(set)
	if err != nil {
		panic(err)
	}
	if len(d.noise) > 0 {
		b = jwksBody(d.entries(), d.noise)
	}
	t.mu.Lock()
	t.served, t.body = d, b
	t.mu.Unlock()
}

type brokenBody struct {
	r io.Reader
}

func (b *brokenBody) Read(p []byte) (int, error) {
	n, err := b.r.Read(p)
	if err == io.EOF {
		return n, io.ErrUnexpectedEOF
	}
	return n, err
}
func (b *brokenBody) Close() error { return nil }

func (t *faultRT) RoundTrip(req *http.Request) (*http.Response, error) {
	t.mu.Lock()
	if t.disc != nil && strings.HasSuffix(req.URL.Path, oidc.DiscoveryEndpoint) {
		b := t.disc
		t.mu.Unlock()
		return jsonResponse(req, b), nil
	}
	gate := t.gate
	t.mu.Unlock()
	if gate != nil {
		t.atGate <- struct{}{}
		<-gate
	}
	t.mu.Lock()
	defer t.mu.Unlock()
	if len(t.plan) == 0 {
		t.log = append(t.log, dlEvent{kind: "ok", doc: t.served})
		return jsonResponse(req, t.body), nil
	}
	kind := t.plan[0]
	t.plan = t.plan[1:]
	t.log = append(t.log, dlEvent{kind: kind})
	status := func(code int, text, body string) (*http.Response, error) {
		return &http.Response{StatusCode: code, Status: fmt.Sprintf("%d %s", code, text), Proto: "HTTP/1.1", ProtoMajor: 1, ProtoMinor: 1,
			Header: http.Header{"Content-Type": {"application/json"}}, Body: io.NopCloser(strings.NewReader(body)), ContentLength: int64(len(body)), Request: req}, nil
	}
	switch kind {
	case "connection-error":
		return nil, errors.New("injected: connection reset by peer")
	case "status-503":
		return status(503, "Service Unavailable", "down for maintenance")
	case "status-500-oauth-error-body":
		return status(500, "Internal Server Error", `{"error":"server_error","error_description":"injected"}`)
	case "status-404":
		return status(404, "Not Found", "404 page not found")
	case "body-not-json":
		return status(200, "OK", "<html><body>captive portal</body></html>")
	case "body-wrong-shape":
		return status(200, "OK", `{"keys":"temporarily unavailable"}`)
	case "body-breaks-off":
		half := t.body[:len(t.body)/2]
		return &http.Response{StatusCode: 200, Status: "200 OK", Proto: "HTTP/1.1", ProtoMajor: 1, ProtoMinor: 1,
			Header: http.Header{"Content-Type": {"application/json"}}, Body: &brokenBody{r: bytes.NewReader(half)}, ContentLength: -1, Request: req}, nil
	}
	panic("c02: unknown fault kind " + kind)
}

func (t *faultRT) logLen() int {
	t.mu.Lock()
	defer t.mu.Unlock()
	return len(t.log)
}

func (t *faultRT) logSince(n int) []dlEvent {
	t.mu.Lock()
	defer t.mu.Unlock()
	return append([]dlEvent{}, t.log[n:]...)
}

func (t *faultRT) planLen() int {
	t.mu.Lock()
	defer t.mu.Unlock()
	return len(t.plan)
}

// ---------- goroutine observation ----------

func curGID() int64 {
	var b [64]byte
	n := runtime.Stack(b[:], false)
	s := strings.TrimPrefix(string(b[:n]), "goroutine ")
	var id int64
	for _, c := range s {
		if c < '0' || c > '9' {
			break
		}
		id = id*10 + int64(c-'0')
	}
	return id
}

var (
	dumpMu      sync.Mutex
	dumpBuf     = make([]byte, 1<<20)
	dumpN       int64
	dumpNs      int64
	snapSeq     int64         // mon.Seq stamp taken just before the latest dump began
	snapParents map[int64]int // goroutine id -> live download goroutines created on its behalf, as of that dump
)

var createdByDownload = []byte(".(*remoteKeySet).keysFromRemote in goroutine ")

// downloadsStartedBy counts the live goroutines that the remote key set created on behalf of goroutine gid. One dump
// of all goroutines is a consistent snapshot; callers share a dump that began after they asked.
func downloadsStartedBy(gid int64) int {
	asked := mon.Seq()
	dumpMu.Lock()
	defer dumpMu.Unlock()
	if snapSeq > asked {
		return snapParents[gid]
	}
	start := mon.Seq()
	t0 := time.Now()
	var b []byte
	for {
		n := runtime.Stack(dumpBuf, true)
		if n < len(dumpBuf) {
			b = dumpBuf[:n]
			break
		}
		dumpBuf = make([]byte, 2*len(dumpBuf))
	}
	m := map[int64]int{}
	for {
		k := bytes.Index(b, createdByDownload)
		if k < 0 {
			break
		}
		b = b[k+len(createdByDownload):]
		var id int64
		for _, c := range b {
			if c < '0' || c > '9' {
				break
			}
			id = id*10 + int64(c-'0')
		}
		m[id]++
	}
	snapSeq, snapParents = start, m
	dumpN++
	dumpNs += int64(time.Since(t0))
	return m[gid]
}

// quiesce waits until no download goroutine started on behalf of gid is alive. A barrier, not an oracle.
func quiesce(gid int64) bool {
	for n := 0; n < 4; n++ { // the download goroutine has a few statements left when its caller returns
		runtime.Gosched()
	}
	for n := 0; n < 40000; n++ {
		if downloadsStartedBy(gid) == 0 {
			return true
		}
		if n < 50 {
			runtime.Gosched()
		} else {
			time.Sleep(50 * time.Microsecond)
		}
	}
	return false
}

// probeDownloadGoroutine proves that the harness can see the key set's download goroutine: a download is held at the
// endpoint, the dump must show exactly one goroutine created for the caller, and none once the call has returned and
// the barrier has passed. Without that proof part F does not run (its mandatory scenarios stay unobserved).
func probeDownloadGoroutine(run *ev.Run) bool {
	rt := &faultRT{gate: make(chan struct{}), atGate: make(chan struct{}, 1)}
	rt.publish(&fDoc{keys: rotPool[:1]})
	ks := rp.NewRemoteKeySet(&http.Client{Transport: rt}, jwksURL)
	tok := keys.SignAs(keys.Get(rotPool[0].name, rotPool[0].alg), rotPool[0].alg, rotPool[0].kid, []byte(`{"probe":true}`), "")
	jws, err := jose.ParseSigned(tok, []jose.SignatureAlgorithm{rotPool[0].alg})
	if err != nil {
		panic(err)
	}
	gidCh := make(chan int64, 1)
	errCh := make(chan error, 1)
	go func() {
		gidCh <- curGID()
		var verr error
		if pi := mon.Catch(func() { _, verr = ks.VerifySignature(context.Background(), jws) }); pi != nil {
			verr = errors.New("panic: " + pi.Value)
		}
		errCh <- verr
	}()
	gid := <-gidCh
	select {
	case <-rt.atGate:
	case <-time.After(20 * time.Second):
		run.Inconclusive("part F probe: the held download never reached the endpoint")
		return false
	}
	seen := downloadsStartedBy(gid)
	close(rt.gate)
	verr := <-errCh
	if seen != 1 {
		run.Inconclusive(fmt.Sprintf("part F probe: %d download goroutines identified while one download was held at the endpoint", seen))
		return false
	}
	if verr != nil {
		run.Inconclusive("part F probe: genuine token refused: " + verr.Error())
		return false
	}
	if !quiesce(gid) {
		run.Inconclusive("part F probe: the download goroutine never ended")
		return false
	}
	run.Observed("faults:download-goroutine-identified")
	return true
}

// ---------- the histories ----------

type fStep struct {
	Step  int    `json:"step"`
	Event string `json:"event"`
	Note  string `json:"note,omitempty"`
}

func faultCount(run *ev.Run) int { return run.N(1000, 30000) }

func runFaults(run *ev.Run, i int) {
	r := run.CaseRand(78, i)
	caseID := faultBase + int64(i)
	gid := curGID()
	route := pick(r, "direct", "direct", "direct-skip-remote-check", "relying-party")
	rt := &faultRT{}
	hc := &http.Client{Transport: rt}
	var hist []fStep
	step := 0
	note := func(event, n string) {
		step++
		hist = append(hist, fStep{Step: step, Event: event, Note: n})
	}
	fail := func(key, what string, extra map[string]any) {
		w := map[string]any{"verifier_from": route, "history": hist, "case": i}
		for k, v := range extra {
			w[k] = v
		}
		run.Violation(key, caseID, what, w)
	}

	// first document
	perm := r.Perm(len(rotPool))
	var cur []rotKey
	for _, p := range perm[:1+r.IntN(3)] {
		cur = append(cur, rotPool[p])
	}
	docN := 0
	nr := run.CaseRand(80, i) // document dimension (own stream): entries no verifier can use among the published keys
	newDoc := func(ks []rotKey) *fDoc {
		docN++
		d := &fDoc{n: docN, keys: append([]rotKey{}, ks...)}
		if nr.IntN(4) == 0 {
			d.noise = genNoise(nr, len(ks), nil)
			if len(ks) > 0 && nr.IntN(2) == 0 {
				d.noise[0].Before = nr.IntN(len(ks))
			}
		}
		return d
	}
	served := newDoc(cur)
	rt.publish(served)
	note("publish", served.String())

	var ver *rp.IDTokenVerifier
	algs := []string{"RS256", "ES256", "PS256"}
	if pi := mon.Catch(func() {
		switch route {
		case "relying-party":
			rt.disc = discoveryDoc(algs)
			ver = relyingPartyVerifier(hc, "relying-party+discovery-algs", r.IntN(2), algs)
		case "direct-skip-remote-check":
			ver = rp.NewIDTokenVerifier(issuer, rpClient, rp.NewRemoteKeySet(hc, jwksURL, rp.SkipRemoteCheck()), rp.WithSupportedSigningAlgorithms(algs...))
		default:
			ver = rp.NewIDTokenVerifier(issuer, rpClient, rp.NewRemoteKeySet(hc, jwksURL), rp.WithSupportedSigningAlgorithms(algs...))
		}
	}); pi != nil {
		if pi.InRepo {
			fail("C02:rp-remote:panic:"+pi.Site(), "building the verifier panicked: "+pi.Value, nil)
		} else {
			run.HarnessBug("part F: " + pi.Value + " at " + pi.Frame)
		}
		return
	}

	var stored *fDoc                // document of the last successful download that has completed
	everStored := map[string]bool{} // kid -> some stored document held it
	failedBefore := false           // some download of this history failed
	coldFailure := false            // the very first download failed
	now := time.Now()
	unknownKey := keys.Get("c02-rot-unknown", jose.ES256)
	foreignRSA := keys.Get("c02-rot-unknown", jose.RS256)

	present := func() bool {
		// whom to present: a key of the document served now, of the stored document, of any document, a never
		// published key under its own kid, or a foreign key under a published kid
		var k rotKey
		signer, cls := (*keys.Key)(nil), ""
		pickOf := func(ks []rotKey) bool {
			if len(ks) == 0 {
				return false
			}
			k = ks[r.IntN(len(ks))]
			return true
		}
		switch x := r.IntN(20); {
		case x < 8 && pickOf(served.keys):
		case x < 12 && stored != nil && pickOf(stored.keys):
		case x < 16:
			k = rotPool[r.IntN(len(rotPool))]
		case x < 18:
			k, signer, cls = rotKey{name: "c02-rot-unknown", alg: jose.ES256, kid: "rot-unknown-kid"}, unknownKey, "never-published-key"
		default:
			// a foreign key of the fitting type under the kid of a key the provider has published at some time
			k = rotPool[r.IntN(len(rotPool))]
			signer, cls = unknownKey, "foreign-key-under-a-kid-of-the-provider"
			if k.alg != jose.ES256 {
				signer = foreignRSA
			}
		}
		if signer == nil {
			signer = keys.Get(k.name, k.alg)
		}
		marker := fmt.Sprintf("f%d-%d", i, step+1)
		payload := mkPayload(pkIDToken, marker, "user-"+marker, now, false)
		tok := keys.SignAs(signer, k.alg, k.kid, payload, "")
		genuine := cls == ""
		inServed := genuine && served.has(k.kid, k.name)
		inStored := genuine && stored.has(k.kid, k.name)
		healthy := rt.planLen() == 0
		before := rt.logLen()
		storedBefore := stored
		if cls == "" {
			switch {
			case inServed && inStored:
				cls = "published-and-stored"
			case inServed:
				cls = "published-not-yet-stored"
			case inStored:
				cls = "withdrawn-still-stored"
			case everStored[k.kid]:
				cls = "withdrawn-and-replaced"
			default:
				cls = "not-published-now"
			}
		}

		var raw []byte
		var err error
		pi := mon.Catch(func() {
			var cl *rawClaims
			cl, err = rp.VerifyIDToken[*rawClaims](context.Background(), tok, ver)
			if err == nil && cl != nil {
				raw = cl.raw
			}
		})
		run.Eval()
		downloaded := rt.logLen() > before
		if downloaded && !quiesce(gid) {
			run.Inconclusive("part F: a download goroutine of the key set never ended")
			return false
		}
		evs := rt.logSince(before)
		legalDocs := []*fDoc{storedBefore}
		var dl []string
		for _, e := range evs {
			dl = append(dl, e.kind)
			if e.kind == "ok" {
				legalDocs = append(legalDocs, e.doc)
				stored = e.doc
				for _, sk := range e.doc.keys {
					everStored[sk.kid] = true
				}
			} else {
				run.Observed("faults:kind:" + e.kind)
				if before == 0 && len(dl) == 1 {
					coldFailure = true
				}
				failedBefore = true
			}
		}
		accepted := err == nil && pi == nil
		verdict := "refused: " + errClass(err)
		if accepted {
			verdict = "accepted"
		}
		note("present", fmt.Sprintf("token signed by %s kid=%s (%s); stored before: %s; endpoint %s; downloads during the call: %v -> %s",
			map[bool]string{true: k.name, false: "a never published key"}[genuine], k.kid, cls, storedBefore, map[bool]string{true: "healthy", false: "failing"}[healthy], dl, verdict))
		wit := map[string]any{"token": tok, "signed_payload": string(payload), "error": err2str(err), "served_now": served.String(), "stored_before_the_call": storedBefore.String(),
			"downloads_during_the_call": dl, "endpoint_healthy_for_the_next_download": healthy}
		run.Count("faults:"+route, cls+" endpoint="+map[bool]string{true: "healthy", false: "failing"}[healthy]+" -> "+verdict)
		switch {
		case pi != nil && pi.InRepo:
			fail("C02:rp-remote:panic:"+pi.Site(), "verifier panicked: "+pi.Value, wit)
			return false
		case pi != nil:
			run.HarnessBug("part F: " + pi.Value + " at " + pi.Frame)
			return false
		}
		if accepted {
			legal := false
			for _, d := range legalDocs {
				if genuine && d.has(k.kid, k.name) {
					legal = true
				}
			}
			switch {
			case !genuine:
				fail("C02:rp-remote:faults:accepted:"+cls, "accepted a token signed by a key the provider never published", wit)
				return false
			case !legal && everStored[k.kid]:
				fail("C02:rp-remote:faults:accepted:withdrawn-key-after-completed-refresh",
					fmt.Sprintf("accepted a token signed by %s: the provider withdrew that key and the key set has since completed the download of a newer document without it (%s), and downloaded nothing during this call", k.kid, storedBefore), wit)
				return false
			case !legal:
				fail("C02:rp-remote:faults:accepted:key-of-no-downloaded-document", fmt.Sprintf("accepted a token signed by %s, a key of no document the key set has downloaded successfully", k.kid), wit)
				return false
			case !bytes.Equal(trimJSONSpace(raw), trimJSONSpace(payload)):
				wit["claims_returned"] = string(raw)
				fail("C02:rp-remote:faults:claims-differ", "the claims handed back are not the payload the accepted signature covers", wit)
				return false
			}
			run.Distinct(fmt.Sprintf("faults|%s|%s|healthy=%v|failed-before=%v|accepted", route, cls, healthy, failedBefore))
			if failedBefore && !inStored {
				run.Observed("faults:published-key-accepted-by-a-download-after-a-failed-one")
			}
			if coldFailure {
				run.Observed("faults:accepted-after-the-first-download-ever-failed")
			}
			if inServed && served.listedAfterNoise(k.kid) {
				run.Observed("jwks-unusable-entries:part-F:published-key-listed-after-one-accepted")
				for _, n := range served.noise {
					run.Count("unusable-jwks-entry:part-F", n.Kind+" -> published key accepted")
				}
			}
			if !inServed {
				run.Count("grey:rp-remote", "faults:legal-by-stored-document-only")
			}
			return true
		}
		// refused
		if inServed && healthy {
			why := "the endpoint answered (or would have answered) a download properly"
			if inStored {
				why = "the key is also in the document the key set has stored"
			}
			fail("C02:rp-remote:faults:rejected-genuine:"+map[bool]string{true: "after-a-failed-download", false: "no-failure-before"}[failedBefore],
				fmt.Sprintf("a genuine token signed by %s, a key the provider publishes now, was rejected although %s: %v", k.kid, why, err), wit)
			return false
		}
		run.Distinct(fmt.Sprintf("faults|%s|%s|healthy=%v|failed-before=%v|refused", route, cls, healthy, failedBefore))
		if cls == "withdrawn-and-replaced" && failedBefore {
			run.Observed("faults:withdrawn-key-refused-after-a-failed-download-and-a-refresh")
		}
		if !healthy && inServed {
			// availability while the provider's endpoint is down is not this property's subject
			run.Count("grey:rp-remote", map[bool]string{true: "faults:stored-published-key-refused-while-the-endpoint-fails", false: "faults:published-key-refused-while-the-endpoint-fails"}[inStored])
		}
		return true
	}

	// the history
	if r.IntN(3) == 0 { // the very first download meets a failing endpoint
		n := 1 + r.IntN(2)
		kind := pick(r, faultKinds...)
		for j := 0; j < n; j++ {
			rt.mu.Lock()
			rt.plan = append(rt.plan, kind)
			rt.mu.Unlock()
		}
		note("endpoint-fails", fmt.Sprintf("next %d download(s): %s", n, kind))
	}
	if !present() {
		return
	}
	steps := 8 + r.IntN(8)
	for j := 0; j < steps; j++ {
		switch x := r.IntN(12); {
		case x < 2: // rotation
			var rest []rotKey
			for _, p := range rotPool {
				if !(&fDoc{keys: cur}).has(p.kid, p.name) {
					rest = append(rest, p)
				}
			}
			mode := rotModes[r.IntN(len(rotModes))]
			var S []rotKey
			switch mode {
			case "empty":
			case "withdraw-one":
				if len(cur) > 0 {
					S = append(S, cur[1:]...)
				}
			case "disjoint":
				if len(rest) > 0 {
					S = append(S, rest[:1+r.IntN(min(2, len(rest)))]...)
				}
			case "add-one":
				S = append(S, cur...)
				if len(rest) > 0 {
					S = append(S, rest[0])
				}
			case "same":
				S = append(S, cur...)
			case "withdraw-all-but-one":
				if len(cur) > 0 {
					S = append(S, cur[len(cur)-1])
				}
			}
			cur = S
			served = newDoc(cur)
			rt.publish(served)
			note("publish", mode+": "+served.String())
		case x < 4: // the endpoint fails for the next downloads
			n := 1 + r.IntN(2)
			kind := pick(r, faultKinds...)
			rt.mu.Lock()
			for k := 0; k < n; k++ {
				rt.plan = append(rt.plan, kind)
			}
			rt.mu.Unlock()
			note("endpoint-fails", fmt.Sprintf("next %d download(s): %s", n, kind))
		case x == 4: // the endpoint recovers before anybody noticed
			rt.mu.Lock()
			dropped := len(rt.plan)
			rt.plan = nil
			rt.mu.Unlock()
			if dropped > 0 {
				note("endpoint-recovers", "")
			}
		default:
			if !present() {
				return
			}
		}
	}
	run.Observed("faults:history-completed:" + route)
}
