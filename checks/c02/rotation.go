package main

// Part R — the remote key set across a rotation: which keys are trusted AFTER the provider changed what it
// publishes and the verifier has demonstrably downloaded the new document.
//
// A case: a key set C is published and cached (warm-up); the provider then publishes S' (C with one key withdrawn,
// a disjoint new set, C plus a new key, the EMPTY set, or C itself); a token with an unknown key ID forces a
// download, and a second forced download proves that the first one's result has been stored (the second download
// can only start once the first one's bookkeeping is complete). From then on "a key of the configured key set" means
// a key of S' and nothing else: a token signed by a withdrawn key of C - key ID and all - must be refused, a token
// signed by a key of S' must be accepted, and what VerifySignature hands back must be the signed payload.
//
// Replay: case index rotationBase + i.

import (
	"bytes"
	"context"
	"fmt"
	"net/http"
	"runtime"

	jose "github.com/go-jose/go-jose/v4"

	"github.com/zitadel/oidc/v3/pkg/client/rp"

	"verif/internal/ev"
	"verif/internal/keys"
	"verif/internal/mon"
)

const rotationBase = int64(1) << 41

type rotKey struct {
	name string
	alg  jose.SignatureAlgorithm
	kid  string
}

func (k rotKey) entry() ksEntry {
	return ksEntry{K: keys.Get(k.name, k.alg), Kid: k.kid, Use: "sig"}
}

var rotPool = []rotKey{
	{"c02-rot-r1", jose.RS256, "rot-r1"}, {"c02-rot-e1", jose.ES256, "rot-e1"}, {"c02-rot-p1", jose.PS256, "rot-p1"},
	{"c02-rot-r2", jose.RS256, "rot-r2"}, {"c02-rot-e2", jose.ES256, "rot-e2"}, {"c02-rot-e3", jose.ES256, "rot-e3"},
}

var rotModes = []string{"empty", "withdraw-one", "disjoint", "add-one", "same", "withdraw-all-but-one"}

func runRotation(run *ev.Run, i int) {
	r := run.CaseRand(77, i)
	caseID := rotationBase + int64(i)
	perm := r.Perm(len(rotPool))
	nC := 1 + r.IntN(3)
	var C, rest []rotKey
	for j, p := range perm {
		if j < nC {
			C = append(C, rotPool[p])
		} else {
			rest = append(rest, rotPool[p])
		}
	}
	mode := rotModes[i%len(rotModes)]
	var S []rotKey
	switch mode {
	case "empty":
	case "withdraw-one":
		S = append(S, C[1:]...)
	case "disjoint":
		S = append(S, rest[:1+r.IntN(2)]...)
	case "add-one":
		S = append(append(S, C...), rest[0])
	case "same":
		S = append(S, C...)
	case "withdraw-all-but-one":
		S = append(S, C[len(C)-1])
	}
	inS := map[string]bool{}
	for _, k := range S {
		inS[k.kid] = true
	}
	entries := func(ks []rotKey) []ksEntry {
		out := make([]ksEntry, len(ks))
		for j, k := range ks {
			out[j] = k.entry()
		}
		return out
	}
	skip := r.IntN(4) == 0
	// document dimension (own stream): entries no verifier can use among the published keys (noise.go)
	var noiseC, noiseS []placedNoise
	if nr := run.CaseRand(79, i); nr.IntN(3) == 0 {
		noiseS = genNoise(nr, len(S), nil)
		if len(S) > 0 && nr.IntN(2) == 0 {
			noiseS[0].Before = nr.IntN(len(S)) // before at least one published key
		}
		if nr.IntN(2) == 0 {
			noiseC = genNoise(nr, len(C), nil)
		}
	}
	rt := &jwksRT{}
	hc := &http.Client{Transport: rt}
	ks := rp.NewRemoteKeySet(hc, "https://op.verif.test/keys")
	if skip {
		ks = rp.NewRemoteKeySet(hc, "https://op.verif.test/keys", rp.SkipRemoteCheck())
	}
	verify := func(tok string) ([]byte, error, *mon.PanicInfo) {
		var payload []byte
		var err error
		pi := mon.Catch(func() {
			jws, perr := jose.ParseSigned(tok, []jose.SignatureAlgorithm{jose.RS256, jose.ES256, jose.PS256})
			if perr != nil {
				err = perr
				return
			}
			payload, err = ks.VerifySignature(context.Background(), jws)
		})
		return payload, err, pi
	}
	sign := func(k rotKey, tag string) (string, []byte) {
		payload := []byte(fmt.Sprintf(`{"iss":"https://op.verif.test","sub":"rot-%d-%s-%s"}`, i, k.kid, tag))
		return keys.SignAs(keys.Get(k.name, k.alg), k.alg, k.kid, payload, ""), payload
	}
	unknown := keys.SignAs(keys.Get("c02-rot-unknown", jose.ES256), jose.ES256, "rot-unknown-kid", []byte(`{"force":"refresh"}`), "")
	wit := func(extra map[string]any) map[string]any {
		m := map[string]any{"cached_before_rotation": describeSet(entries(C)), "published_after_rotation": describeSet(entries(S)), "rotation": mode, "skip_remote_check": skip}
		if len(noiseC) > 0 || len(noiseS) > 0 {
			m["jwks_document_before_rotation"], m["jwks_document_after_rotation"] = string(jwksBody(entries(C), noiseC)), string(jwksBody(entries(S), noiseS))
			m["note"] = "the documents also list entries no verifier can use for a signature; the published keys are the other entries"
		}
		for k, v := range extra {
			m[k] = v
		}
		return m
	}
	fail := func(key, what string, extra map[string]any) {
		if len(noiseC) > 0 || len(noiseS) > 0 {
			key += ":jwks-with-unusable-entries"
		}
		run.Violation(key, caseID, what, wit(extra))
	}

	// 1. publish C, warm the cache with a genuine token of C
	rt.setDoc(entries(C), noiseC)
	t0, p0 := sign(C[0], "warm")
	got, err, pi := verify(t0)
	run.Eval()
	if pi != nil {
		if pi.InRepo {
			fail("C02:panic:"+pi.Site(), "remote key set panicked: "+pi.Value, nil)
		} else {
			run.HarnessBug("rotation: " + pi.Value)
		}
		return
	}
	if err != nil || !bytes.Equal(got, p0) {
		fail("C02:rp-remote:rotation:genuine-rejected-before-rotation", fmt.Sprintf("a token signed by a published key was not accepted on a fresh key set: %v", err), map[string]any{"token": t0})
		return
	}
	// 2. rotate, force a download and prove that its result is stored
	rt.setDoc(entries(S), noiseS)
	h0 := rt.hitCount()
	stored := false
	for n := 0; n < 2000; n++ {
		if _, e, pi := verify(unknown); e == nil || pi != nil {
			if pi != nil && pi.InRepo {
				fail("C02:panic:"+pi.Site(), "remote key set panicked: "+pi.Value, nil)
			} else {
				fail("C02:rp-remote:rotation:unknown-kid-accepted", "a token with an unknown key ID signed by an unpublished key verified", map[string]any{"token": unknown})
			}
			return
		}
		if rt.hitCount() >= h0+2 {
			stored = true
			break
		}
		runtime.Gosched() // let the download goroutine finish its bookkeeping (a barrier, no verdict depends on it)
	}
	if !stored {
		run.Inconclusive("rotation: the forced downloads never became two distinct downloads")
		return
	}
	run.Observed("rotation:refresh-proven:" + mode)
	// 3. every key of C and S': accepted exactly when published now
	seen := map[string]bool{}
	for _, k := range append(append([]rotKey{}, C...), S...) {
		if seen[k.kid] {
			continue
		}
		seen[k.kid] = true
		tok, payload := sign(k, "after")
		got, err, pi := verify(tok)
		run.Eval()
		cls := "withdrawn"
		if inS[k.kid] {
			cls = "published"
		}
		switch {
		case pi != nil && pi.InRepo:
			fail("C02:panic:"+pi.Site(), "remote key set panicked: "+pi.Value, map[string]any{"token": tok})
		case pi != nil:
			run.HarnessBug("rotation: " + pi.Value)
		case !inS[k.kid] && err == nil:
			fail("C02:rp-remote:rotation:withdrawn-key-accepted:"+mode,
				fmt.Sprintf("after the provider stopped publishing key %s and the key set downloaded the new document, a token signed with that key is still accepted", k.kid), map[string]any{"token": tok, "downloads_since_rotation": rt.hitCount() - h0})
		case inS[k.kid] && err != nil:
			fail("C02:rp-remote:rotation:published-key-rejected:"+mode,
				fmt.Sprintf("a token signed with the published key %s is rejected after the rotation: %v", k.kid, err), map[string]any{"token": tok})
		case inS[k.kid] && !bytes.Equal(got, payload):
			fail("C02:rp-remote:rotation:payload-differs", "VerifySignature handed back bytes other than the signed payload", map[string]any{"token": tok, "got": string(got)})
		default:
			run.Observed("rotation:" + cls + "-judged")
			if inS[k.kid] && len(noiseS) > 0 {
				for si, sk := range S {
					if sk.kid == k.kid && usableAfterNoise(noiseS, si) {
						run.Observed("jwks-unusable-entries:part-R:published-key-listed-after-one-accepted")
					}
				}
				for _, n := range noiseS {
					run.Count("unusable-jwks-entry:part-R", n.Kind+" -> published key accepted")
				}
			}
			run.Count("rotation", mode+" "+cls+" "+map[bool]string{true: "accepted", false: "refused"}[err == nil])
			run.Distinct(fmt.Sprintf("rotation|%s|%d->%d|%s|skip=%v|unusable=%s/%s", mode, len(C), len(S), cls, skip, noisePlacement(len(C), noiseC), noisePlacement(len(S), noiseS)))
		}
	}
}

func rotationCount(run *ev.Run) int { return run.N(1200, 24000) }
