package main

// Drivers of the six verifiers under test. Every call into the library goes through mon.Catch.

import (
	"bytes"
	"context"
	"encoding/json"
	"errors"
	"fmt"
	"io"
	"net/http"
	"strings"
	"sync"
	"time"

	jose "github.com/go-jose/go-jose/v4"

	"github.com/zitadel/oidc/v3/pkg/client/rp"
	"github.com/zitadel/oidc/v3/pkg/oidc"
	"github.com/zitadel/oidc/v3/pkg/op"

	"verif/internal/keys"
	"verif/internal/mon"
	"verif/internal/opdrv"
	"verif/internal/sched"
	"verif/internal/vstore"
)

var verifierNames = []string{"rp-remote", "rp-static", "op-access-token", "op-id-token-hint", "op-jwt-assertion", "op-request-object"}

const (
	vRemote = iota
	vStatic
	vAccess
	vHint
	vAssertion
	vRequestObject
)

// rawClaims captures the exact bytes the library hands to the claims object, so that "byte-for-byte the
// payload that signature covers" can be compared literally.
type rawClaims struct {
	oidc.TokenClaims
	raw []byte
}

func (c *rawClaims) UnmarshalJSON(b []byte) error {
	sched.Point("callback:claims.UnmarshalJSON") // a yield point of part O (inert elsewhere)
	c.raw = append([]byte{}, b...)
	return json.Unmarshal(b, &c.TokenClaims)
}

type outcome struct {
	accepted bool
	err      error
	raw      []byte         // literal claims bytes (rawClaims only)
	m        map[string]any // decoded claims handed back
	pi       *mon.PanicInfo
	typed    bool
	note     string
}

// staticKeySet is the documented way to build an oidc.KeySet over a fixed list of published keys:
// selection by oidc.FindMatchingKey, verification by go-jose.
type staticKeySet struct{ keys []jose.JSONWebKey }

func (s *staticKeySet) VerifySignature(ctx context.Context, jws *jose.JSONWebSignature) ([]byte, error) {
	sched.Point("keyset:VerifySignature") // a yield point of part O (inert elsewhere)
	kid, alg := oidc.GetKeyIDAndAlg(jws)
	key, err := oidc.FindMatchingKey(kid, oidc.KeyUseSignature, alg, s.keys...)
	if err != nil {
		return nil, err
	}
	return jws.Verify(&key)
}

// jwksRT serves a JWKS document from memory.
type jwksRT struct {
	mu   sync.Mutex
	body []byte
	hits int
	disc []byte // discovery document served under oidc.DiscoveryEndpoint (relying-party routes)
}

const jwksURL = "https://op.verif.test/keys"

// everyAlg is what a provider announces when the relying party was not asked to follow the announcement.
var everyAlg = []string{"RS256", "RS384", "RS512", "PS256", "PS384", "PS512", "ES256", "ES384", "ES512", "EdDSA", "HS256", "none"}

func discoveryDoc(algs []string) []byte {
	b, err := json.Marshal(map[string]any{"issuer": issuer, "authorization_endpoint": issuer + "/authorize", "token_endpoint": issuer + "/token",
		"jwks_uri": jwksURL, "id_token_signing_alg_values_supported": algs, "response_types_supported": []string{"code"}, "subject_types_supported": []string{"public"}})
	if err != nil {
		panic(err)
	}
	return b
}

func jsonResponse(req *http.Request, b []byte) *http.Response {
	return &http.Response{StatusCode: 200, Status: "200 OK", Proto: "HTTP/1.1", ProtoMajor: 1, ProtoMinor: 1,
		Header: http.Header{"Content-Type": {"application/json"}}, Body: io.NopCloser(bytes.NewReader(b)), ContentLength: int64(len(b)), Request: req}
}

// relyingPartyVerifier builds a relying party against the in-memory provider behind hc and returns ITS ID token verifier.
func relyingPartyVerifier(hc *http.Client, route string, order int, A []string) *rp.IDTokenVerifier {
	var opts []rp.Option
	switch route {
	case "relying-party+verifier-opts":
		var vo []rp.VerifierOption
		if A != nil {
			vo = append(vo, rp.WithSupportedSigningAlgorithms(A...))
		}
		opts = []rp.Option{rp.WithHTTPClient(hc), rp.WithVerifierOpts(vo...)}
	case "relying-party+discovery-algs":
		opts = []rp.Option{rp.WithHTTPClient(hc), rp.WithVerifierOpts()}
		if order == 0 {
			opts = append([]rp.Option{rp.WithSigningAlgsFromDiscovery()}, opts...)
		} else {
			opts = append(opts, rp.WithSigningAlgsFromDiscovery())
		}
	default:
		panic("c02: unknown route " + route)
	}
	party, err := rp.NewRelyingPartyOIDC(context.Background(), issuer, rpClient, "secret", "https://rp.verif.test/cb", []string{"openid"}, opts...)
	if err != nil {
		panic("c02 harness: relying party cannot be built: " + err.Error())
	}
	return party.IDTokenVerifier()
}

func (t *jwksRT) set(S []ksEntry) {
	set := jose.JSONWebKeySet{}
	for _, e := range S {
		set.Keys = append(set.Keys, e.jwk())
	}
	b, err := json.Marshal(set)
	if err != nil {
		panic(err)
	}
	t.mu.Lock()
	t.body = b
	t.mu.Unlock()
}

// setDoc publishes S together with entries no verifier can use (noise.go); without such entries it is set.
func (t *jwksRT) setDoc(S []ksEntry, noise []placedNoise) {
	if len(noise) == 0 {
		t.set(S)
		return
	}
	b := jwksBody(S, noise)
	t.mu.Lock()
	t.body = b
	t.mu.Unlock()
}

func (t *jwksRT) hitCount() int {
	t.mu.Lock()
	defer t.mu.Unlock()
	return t.hits
}

func (t *jwksRT) RoundTrip(req *http.Request) (*http.Response, error) {
	t.mu.Lock()
	if t.disc != nil && strings.HasSuffix(req.URL.Path, oidc.DiscoveryEndpoint) {
		b := t.disc
		t.mu.Unlock()
		return jsonResponse(req, b), nil
	}
	b := t.body
	t.hits++
	t.mu.Unlock()
	return jsonResponse(req, b), nil
}

// worker holds the per-goroutine provider worlds (one per allow-list) so that cases never share mutable state.
// optWorld is a provider built with one combination of allow-list and key-set options; the configured key sets
// are worker-local static sets whose content is replaced per case.
type optWorld struct {
	*opdrv.World
	access *staticKeySet // handed to op.WithAccessTokenKeySet (nil = option not used)
	hint   *staticKeySet // handed to op.WithIDTokenHintKeySet (nil = option not used)
}

var ksModes = []string{"default", "access-keyset", "hint-keyset", "both"}

type worker struct {
	worlds   [6]*opdrv.World
	optW     map[string]*optWorld
	profile  *opdrv.World
	profileN int
	warmJWS  *jose.JSONWebSignature
	// long-lived JWT-profile verifier objects over the profile world's storage (default / permissive subject check)
	kept [2]*op.JWTProfileVerifier
}

func newProfileVerifier(world *opdrv.World, permissive bool) *op.JWTProfileVerifier {
	if permissive {
		// the documented way to allow delegation: same storage, issuer and windows as the provider's
		// own verifier, custom subject check
		return op.NewJWTProfileVerifier(world.Storage, issuer, time.Hour, time.Second,
			op.SubjectCheck(func(*oidc.JWTTokenRequest) error { sched.Point("callback:CheckSubject"); return nil }))
	}
	return op.NewJWTProfileVerifier(world.Storage, issuer, time.Hour, time.Second)
}

func (w *worker) keptVerifier(world *opdrv.World, permissive bool) *op.JWTProfileVerifier {
	i := 0
	if permissive {
		i = 1
	}
	if w.kept[i] == nil {
		w.kept[i] = newProfileVerifier(world, permissive)
	}
	return w.kept[i]
}

func newWorker() *worker {
	w := &worker{}
	for i, a := range allowLists {
		var opts []op.Option
		if a != nil {
			opts = append(opts, op.WithAccessTokenVerifierOpts(op.WithSupportedAccessTokenSigningAlgorithms(a...)),
				op.WithIDTokenHintVerifierOpts(op.WithSupportedIDTokenHintSigningAlgorithms(a...)))
		}
		w.worlds[i] = opdrv.MustWorld(opdrv.Options{Issuer: issuer, Config: opdrv.DefaultConfig(), Caps: vstore.Full, ProviderOpts: opts})
		w.worlds[i].Store.SetJournal(false)
	}
	return w
}

func (w *worker) optWorld(allowIdx int, mode string) *optWorld {
	if mode == "" || mode == "default" {
		return &optWorld{World: w.worlds[allowIdx]}
	}
	key := fmt.Sprintf("%d/%s", allowIdx, mode)
	if ow, ok := w.optW[key]; ok {
		return ow
	}
	if w.optW == nil {
		w.optW = map[string]*optWorld{}
	}
	ow := &optWorld{}
	var opts []op.Option
	if a := allowLists[allowIdx]; a != nil {
		opts = append(opts, op.WithAccessTokenVerifierOpts(op.WithSupportedAccessTokenSigningAlgorithms(a...)),
			op.WithIDTokenHintVerifierOpts(op.WithSupportedIDTokenHintSigningAlgorithms(a...)))
	}
	if mode == "access-keyset" || mode == "both" {
		ow.access = &staticKeySet{}
		opts = append(opts, op.WithAccessTokenKeySet(ow.access))
	}
	if mode == "hint-keyset" || mode == "both" {
		ow.hint = &staticKeySet{}
		opts = append(opts, op.WithIDTokenHintKeySet(ow.hint))
	}
	ow.World = opdrv.MustWorld(opdrv.Options{Issuer: issuer, Config: opdrv.DefaultConfig(), Caps: vstore.Full, ProviderOpts: opts})
	ow.World.Store.SetJournal(false)
	w.optW[key] = ow
	return ow
}

func jwksOf(S []ksEntry) []jose.JSONWebKey {
	out := make([]jose.JSONWebKey, len(S))
	for i, e := range S {
		out[i] = e.jwk()
	}
	return out
}

func (w *worker) profileWorld() *opdrv.World {
	if w.profile == nil || w.profileN > 2000 {
		w.profile = opdrv.MustWorld(opdrv.Options{Issuer: issuer, Config: opdrv.DefaultConfig(), Caps: vstore.Full})
		w.profile.Store.SetJournal(false)
		w.profileN = 0
		w.kept = [2]*op.JWTProfileVerifier{} // they hold the replaced world's storage
	}
	w.profileN++
	return w.profile
}

func opCtx() context.Context { return op.ContextWithIssuer(context.Background(), issuer) }

func marshalToMap(v any) map[string]any {
	b, err := json.Marshal(v)
	if err != nil {
		return map[string]any{"<marshal-error>": err.Error()}
	}
	m, _ := decodeMap(b)
	return m
}

// prepare installs the case's trust set where the verifier will really look for it and returns the
// function that presents one token.
func (w *worker) prepare(c *caseCtx, useRaw bool, skipRemote bool) func(tok string) outcome {
	switch c.verifier {
	case "rp-remote":
		return func(tok string) outcome {
			rt := &jwksRT{}
			var ks oidc.KeySet
			var ver *rp.IDTokenVerifier
			hc := &http.Client{Transport: rt}
			switch {
			case c.route != "" && c.route != "direct":
				rt.disc = discoveryDoc(everyAlg)
				if c.route == "relying-party+discovery-algs" {
					rt.disc = discoveryDoc(c.A)
				}
				if pi := mon.Catch(func() { ver = relyingPartyVerifier(hc, c.route, c.routeOrder, c.A) }); pi != nil {
					return outcome{pi: pi, note: "relying-party construction"}
				}
				ks = ver.KeySet
			case skipRemote:
				ks = rp.NewRemoteKeySet(hc, jwksURL, rp.SkipRemoteCheck())
			default:
				ks = rp.NewRemoteKeySet(hc, jwksURL)
			}
			if c.cached != nil {
				rt.setDoc(c.cached, c.cachedNoise)
				if pi := mon.Catch(func() { _, _ = ks.VerifySignature(context.Background(), w.warm()) }); pi != nil {
					return outcome{pi: pi, note: "warm-up"}
				}
				time.Sleep(20 * time.Microsecond) // let the download goroutine publish its result; no verdict depends on it
			}
			rt.setDoc(c.S, c.noise)
			if ver != nil {
				return verifyRPWith(ver, tok, useRaw)
			}
			return verifyRP(c, ks, tok, useRaw)
		}
	case "rp-static":
		ks := &staticKeySet{}
		for _, e := range c.S {
			ks.keys = append(ks.keys, e.jwk())
		}
		return func(tok string) outcome { return verifyRP(c, ks, tok, useRaw) }
	case "op-access-token", "op-id-token-hint":
		ow := w.optWorld(c.allowIdx, c.ksMode)
		world := ow.World
		if c.ksMode == "" || c.ksMode == "default" {
			installOPKeys(world, c.S)
		} else {
			installOPKeys(world, c.storageS)
			if ow.access != nil {
				ow.access.keys = jwksOf(c.accessS)
			}
			if ow.hint != nil {
				ow.hint.keys = jwksOf(c.hintS)
			}
		}
		ctx := opCtx()
		if c.verifier == "op-access-token" {
			return func(tok string) outcome {
				var o outcome
				o.typed = !useRaw
				o.pi = mon.Catch(func() {
					v := world.Provider.AccessTokenVerifier(ctx)
					if useRaw {
						cl, err := op.VerifyAccessToken[*rawClaims](ctx, tok, v)
						o.err = err
						if err == nil && cl != nil {
							o.accepted, o.raw = true, cl.raw
							o.m, _ = decodeMap(cl.raw)
						}
					} else {
						cl, err := op.VerifyAccessToken[*oidc.AccessTokenClaims](ctx, tok, v)
						o.err = err
						if err == nil && cl != nil {
							o.accepted, o.m = true, marshalToMap(cl)
						}
					}
				})
				return o
			}
		}
		return func(tok string) outcome {
			var o outcome
			o.typed = !useRaw
			o.pi = mon.Catch(func() {
				v := world.Provider.IDTokenHintVerifier(ctx)
				var expired op.IDTokenHintExpiredError
				if useRaw {
					cl, err := op.VerifyIDTokenHint[*rawClaims](ctx, tok, v)
					o.err = err
					// claims handed back together with an "expired" error are explicitly meant to be trusted by the caller
					if (err == nil || errors.As(err, &expired)) && cl != nil {
						o.accepted, o.raw = true, cl.raw
						o.m, _ = decodeMap(cl.raw)
					}
				} else {
					cl, err := op.VerifyIDTokenHint[*oidc.IDTokenClaims](ctx, tok, v)
					o.err = err
					if (err == nil || errors.As(err, &expired)) && cl != nil {
						o.accepted, o.m = true, marshalToMap(cl)
					}
				}
				if o.accepted && err2str(o.err) != "" {
					o.note = "expired-hint"
				}
			})
			return o
		}
	case "op-jwt-assertion":
		world := w.profileWorld()
		installClientKeys(world, c.who, c.S)
		if c.subMode == "other-client" {
			installClientKeys(world, c.sub, c.otherS)
		}
		if c.pred != "" {
			installClientKeys(world, c.pred, c.predS)
		}
		ctx := opCtx()
		var keptV *op.JWTProfileVerifier
		switch c.vlife {
		case "per-case":
			keptV = newProfileVerifier(world, c.permissive)
		case "per-worker":
			keptV = w.keptVerifier(world, c.permissive)
		}
		return func(tok string) outcome {
			var o outcome
			o.typed = true
			o.pi = mon.Catch(func() {
				v := keptV
				switch {
				case v != nil:
				case c.permissive:
					v = newProfileVerifier(world, true)
				default:
					v = world.Provider.JWTProfileVerifier(ctx)
				}
				req, err := op.VerifyJWTAssertion(ctx, tok, v)
				o.err = err
				if err == nil && req != nil {
					o.accepted, o.m = true, marshalToMap(req)
				}
			})
			return o
		}
	case "op-request-object":
		world := w.profileWorld()
		installClientKeys(world, c.who, c.S)
		ctx := opCtx()
		return func(tok string) outcome {
			var o outcome
			o.typed = true
			o.pi = mon.Catch(func() {
				ar := &oidc.AuthRequest{ClientID: c.who, ResponseType: oidc.ResponseTypeCode, Scopes: oidc.SpaceDelimitedArray{"openid"},
					State: "outer-state", Nonce: "outer-nonce", RedirectURI: "https://outer.example/cb", RequestParam: tok}
				err := op.ParseRequestObject(ctx, ar, world.Storage, issuer)
				o.err = err
				if err == nil {
					o.accepted = true
					o.m = map[string]any{"state": ar.State, "nonce": ar.Nonce, "redirect_uri": ar.RedirectURI, "scope": strings.Join(ar.Scopes, " ")}
				}
			})
			return o
		}
	}
	panic("c02: unknown verifier " + c.verifier)
}

func err2str(err error) string {
	if err == nil {
		return ""
	}
	return err.Error()
}

func verifyRP(c *caseCtx, ks oidc.KeySet, tok string, useRaw bool) outcome {
	var v *rp.IDTokenVerifier
	if pi := mon.Catch(func() {
		var opts []rp.VerifierOption
		if c.A != nil {
			opts = append(opts, rp.WithSupportedSigningAlgorithms(c.A...))
		}
		v = rp.NewIDTokenVerifier(issuer, rpClient, ks, opts...)
	}); pi != nil {
		return outcome{pi: pi, typed: !useRaw}
	}
	return verifyRPWith(v, tok, useRaw)
}

func verifyRPWith(v *rp.IDTokenVerifier, tok string, useRaw bool) outcome {
	var o outcome
	o.typed = !useRaw
	o.pi = mon.Catch(func() {
		if useRaw {
			cl, err := rp.VerifyIDToken[*rawClaims](context.Background(), tok, v)
			o.err = err
			if err == nil && cl != nil {
				o.accepted, o.raw = true, cl.raw
				o.m, _ = decodeMap(cl.raw)
			}
		} else {
			cl, err := rp.VerifyIDToken[*oidc.IDTokenClaims](context.Background(), tok, v)
			o.err = err
			if err == nil && cl != nil {
				o.accepted, o.m = true, marshalToMap(cl)
			}
		}
	})
	return o
}

// errClass maps a rejection to a stable bucket for the evidence histograms.
func errClass(err error) string {
	if err == nil {
		return "nil"
	}
	s := err.Error()
	switch {
	case errors.Is(err, oidc.ErrSignatureInvalidPayload):
		return "ErrSignatureInvalidPayload"
	case errors.Is(err, oidc.ErrSignatureMultiple):
		return "ErrSignatureMultiple"
	case errors.Is(err, oidc.ErrSignatureMissing):
		return "ErrSignatureMissing"
	case errors.Is(err, oidc.ErrSignatureUnsupportedAlg):
		return "ErrSignatureUnsupportedAlg"
	case errors.Is(err, oidc.ErrSignatureInvalid) || strings.Contains(s, oidc.ErrSignatureInvalid.Error()):
		switch {
		case strings.Contains(s, oidc.ErrKeyMultiple.Error()):
			return "ErrSignatureInvalid(ErrKeyMultiple)"
		case strings.Contains(s, oidc.ErrKeyNone.Error()):
			return "ErrSignatureInvalid(ErrKeyNone)"
		case strings.Contains(s, "client key not found"):
			return "ErrSignatureInvalid(storage: no such client key)"
		case strings.Contains(s, "error in cryptographic primitive"):
			return "ErrSignatureInvalid(crypto)"
		case strings.Contains(s, "too many signatures"):
			return "ErrSignatureInvalid(too many signatures)"
		}
		return "ErrSignatureInvalid(other)"
	case strings.Contains(s, oidc.ErrSignatureInvalidPayload.Error()):
		return "ErrSignatureInvalidPayload"
	case strings.Contains(s, oidc.ErrSignatureUnsupportedAlg.Error()):
		return "ErrSignatureUnsupportedAlg"
	case errors.Is(err, oidc.ErrParse) || strings.Contains(s, oidc.ErrParse.Error()):
		return "ErrParse"
	case errors.Is(err, oidc.ErrIssuerInvalid), errors.Is(err, oidc.ErrSubjectMissing), errors.Is(err, oidc.ErrAudience), errors.Is(err, oidc.ErrExpired):
		return "claims-check"
	}
	var se *json.SyntaxError
	if errors.As(err, &se) || strings.Contains(s, "invalid character") || strings.Contains(s, "unexpected end of JSON") || strings.Contains(s, "cannot unmarshal") {
		return "json"
	}
	return "other"
}

func jwkAlg(e ksEntry) jose.SignatureAlgorithm {
	if e.Alg != "" {
		return jose.SignatureAlgorithm(e.Alg)
	}
	return e.K.Alg
}

// installOPKeys publishes S as the provider's key set (vstore.KeySet -> op.OpenIDKeySet).
func installOPKeys(world *opdrv.World, S []ksEntry) {
	pub := make([]*keys.Key, len(S))
	for i, e := range S {
		k := e.K.With(e.Kid, jwkAlg(e), e.Use)
		k.RawUse = true
		pub[i] = k
	}
	world.Store.SetSigningKey(world.Store.SigningKeyOf(), pub...)
}

// installClientKeys registers S as the keys of client id (vstore.GetKeyByIDAndClientID -> jwtProfileKeySet).
func installClientKeys(world *opdrv.World, id string, S []ksEntry) {
	for _, e := range S {
		world.Store.AddClientKey(id, e.K.With(e.Kid, jwkAlg(e), e.Use))
	}
}

func (w *worker) warm() *jose.JSONWebSignature {
	if w.warmJWS == nil {
		tok := keys.SignAs(attackPool[1].k, jose.ES256, "warm-up", []byte(`{"warm":"up"}`), "")
		j, err := jose.ParseSigned(tok, []jose.SignatureAlgorithm{jose.ES256})
		if err != nil {
			panic(err)
		}
		w.warmJWS = j
	}
	return w.warmJWS
}
