package main

// oidc.FindMatchingKey against the reference selection written from the statement.

import (
	"errors"
	"fmt"

	jose "github.com/go-jose/go-jose/v4"

	"github.com/zitadel/oidc/v3/pkg/oidc"

	"verif/internal/ev"
	"verif/internal/keys"
	"verif/internal/mon"
)

const (
	findKeyBase   = int64(1) << 40
	findKeyRandom = int64(1) << 38
)

var (
	fkKids  = []string{"", "a", "b"}
	fkUses  = []string{"sig", "enc", ""}
	fkTok   = []string{"", "a", "b", "c"}
	fkAlgs  = []string{"RS256", "PS384", "ES256", "ES384", "ES512", "EdDSA", "HS256", "none", ""}
	fkTypes = []string{"RSA", "P256", "ECother", "OKP"}
)

// fkKey returns the key used at position pos for a type; every position has its own key so that the
// returned key identifies the entry that was selected.
func fkKey(typ string, pos int) *keys.Key {
	name := map[string][]string{
		"RSA": {"R1", "R2", "R3", "XR", "R1"}, "P256": {"E1", "E2", "E3", "XE", "E1"},
		"ECother": {"F1", "XF", "G1", "XG", "F1"}, "OKP": {"D1", "D2", "XD", "D1", "D2"},
	}[typ][pos]
	for _, p := range allPool {
		if p.name == name {
			return p.k
		}
	}
	panic("c02: no pool key " + name)
}

const perKey = 36 // 4 types x 3 kids x 3 uses

func fkEntry(code, pos int) ksEntry {
	t := code % 4
	kid := (code / 4) % 3
	use := code / 12
	return ksEntry{K: fkKey(fkTypes[t], pos), Kid: fkKids[kid], Use: fkUses[use]}
}

// setFromIndex decodes the idx-th key set of the complete enumeration (0 keys, then 1, 2, 3 keys).
func setFromIndex(idx int) []ksEntry {
	n, span := 0, 1
	for idx >= span {
		idx -= span
		n++
		span *= perKey
	}
	S := make([]ksEntry, n)
	for i := 0; i < n; i++ {
		S[i] = fkEntry(idx%perKey, i)
		idx /= perKey
	}
	return S
}

const enumSets = 1 + perKey + perKey*perKey + perKey*perKey*perKey

// judgeFind returns the violation class of one FindMatchingKey result under one reading of "type fits" ("" = fine).
func judgeFind(S []ksEntry, keyID, alg string, got jose.JSONWebKey, err error, strict bool) (class string, grey string) {
	sel := selectRef(S, keyID, alg, strict)
	if err == nil {
		idx := -1
		for i, e := range S {
			if got.Key != nil && samePub(e.K.Public(), got.Key) && e.Kid == got.KeyID && e.Use == got.Use {
				idx = i
				break
			}
		}
		if idx < 0 {
			return "returned-key-not-in-set", ""
		}
		e := S[idx]
		switch {
		case !usePermitsSig(e.Use):
			return "returned-key-whose-use-forbids-signatures", ""
		case !fits(e.K.Public(), alg, strict):
			return "returned-key-type-does-not-fit-alg", ""
		case keyID != "" && e.Kid == keyID:
			return "", ""
		case keyID != "" && e.Kid != "":
			return "returned-key-with-other-kid", ""
		}
		n := distinctPubs(S, sel.loose)
		switch {
		case n == 1:
			if len(sel.exact) > 0 {
				return "", "kidless-key-returned-beside-exact-match"
			}
			return "", ""
		case keyID == "":
			return "guessed-among-several-candidates", ""
		default:
			return "", "kid-token-several-kidless-keys-one-returned"
		}
	}
	switch {
	case keyID == "" && distinctPubs(S, sel.cand) >= 2 && !errors.Is(err, oidc.ErrKeyMultiple):
		return "ambiguity-not-reported", ""
	case len(sel.exact) == 1 && len(sel.loose) == 0:
		return "missed-exact-kid-match", ""
	case len(sel.exact) == 0 && len(sel.loose) == 1:
		return "missed-unique-candidate", ""
	}
	return "", ""
}

// agg collects histogram counts locally (the enumeration makes millions of calls; the shared run is only
// touched once per chunk).
type agg struct {
	counts   map[string]int64
	grey     map[string]int64
	distinct map[string]struct{}
	evals    int
}

func newAgg() *agg {
	return &agg{counts: map[string]int64{}, grey: map[string]int64{}, distinct: map[string]struct{}{}}
}

func (a *agg) flush(run *ev.Run) {
	for k, v := range a.counts {
		run.CountN("FindMatchingKey", k, v)
	}
	for k, v := range a.grey {
		run.CountN("grey:FindMatchingKey", k, v)
	}
	for k := range a.distinct {
		run.Distinct(k)
	}
	run.EvalN(a.evals)
}

func findOne(run *ev.Run, a *agg, S []ksEntry, keyID, alg string, caseID int64) {
	jwks := make([]jose.JSONWebKey, len(S))
	for i, e := range S {
		jwks[i] = e.jwk()
	}
	var got jose.JSONWebKey
	var err error
	pi := mon.Catch(func() { got, err = oidc.FindMatchingKey(keyID, oidc.KeyUseSignature, alg, jwks...) })
	a.evals++
	wit := func() map[string]any {
		w := map[string]any{"call": fmt.Sprintf("oidc.FindMatchingKey(%q, \"sig\", %q, keys...)", keyID, alg), "keys": describeSet(S), "error": err2str(err)}
		if err == nil {
			w["returned"] = fmt.Sprintf("{%s kid=%q use=%q}", pubFamily(got.Key), got.KeyID, got.Use)
		}
		return w
	}
	if pi != nil {
		if pi.Harness {
			run.HarnessBug("panic in harness: " + pi.Value + " at " + pi.Frame)
		} else {
			run.Violation("C02:FindMatchingKey:panic:"+pi.Site(), caseID, "FindMatchingKey panicked: "+pi.Value, wit())
		}
		return
	}
	// the deprecated wrapper oidc.FindKey must say the same: (the key FindMatchingKey selects, whether it selected one)
	var got2 jose.JSONWebKey
	var ok2 bool
	if pi2 := mon.Catch(func() { got2, ok2 = oidc.FindKey(keyID, oidc.KeyUseSignature, alg, jwks...) }); pi2 != nil && !pi2.Harness {
		run.Violation("C02:FindKey:panic:"+pi2.Site(), caseID, "FindKey panicked: "+pi2.Value, wit())
		return
	}
	if ok2 != (err == nil) || (ok2 && (got2.KeyID != got.KeyID || !samePub(got2.Key, got.Key))) {
		w := wit()
		w["FindKey_returned"] = fmt.Sprintf("ok=%v {%s kid=%q}", ok2, pubFamily(got2.Key), got2.KeyID)
		run.Violation("C02:FindKey:differs-from-FindMatchingKey", caseID, "oidc.FindKey does not report what oidc.FindMatchingKey selects for the same arguments", w)
		return
	}
	c1, g1 := judgeFind(S, keyID, alg, got, err, false)
	c2, g2 := judgeFind(S, keyID, alg, got, err, true)
	sel := selectRef(S, keyID, alg, false)
	outcome := "ErrKeyNone"
	switch {
	case err == nil:
		outcome = "key"
	case errors.Is(err, oidc.ErrKeyMultiple):
		outcome = "ErrKeyMultiple"
	}
	shape := fmt.Sprintf("cand%d/exact%d/loose%d/kid%v", min(len(sel.cand), 3), min(len(sel.exact), 2), min(len(sel.loose), 3), keyID != "")
	a.counts[shape+" -> "+outcome]++
	a.distinct["FindMatchingKey|"+shape+"|"+algFamily(alg)+"|"+outcome+"|"+shapeSig(S)] = struct{}{}
	if c1 != "" && c2 != "" {
		run.Violation("C02:FindMatchingKey:"+c1, caseID, "FindMatchingKey contradicts the reference selection (use permits signatures, key type fits alg, kid equal or unique kid-less candidate, ambiguity reported): "+c1, wit())
		return
	}
	if g1 != "" {
		a.grey[g1]++
	} else if g2 != "" {
		a.grey[g2]++
	}
	switch {
	case outcome == "ErrKeyMultiple" && keyID == "":
		a.counts["scenario:ambiguity-reported"]++
	case err == nil && keyID != "" && got.KeyID == keyID:
		a.counts["scenario:exact-kid-match-returned"]++
	case err == nil && keyID == "" && len(sel.cand) == 1:
		a.counts["scenario:unique-candidate-for-kidless-token-returned"]++
	}
}

func enumCase(run *ev.Run, a *agg, k int) {
	S := setFromIndex(k / (len(fkTok) * len(fkAlgs)))
	inner := k % (len(fkTok) * len(fkAlgs))
	findOne(run, a, S, fkTok[inner%len(fkTok)], fkAlgs[inner/len(fkTok)], findKeyBase+int64(k))
}

func randomCase(run *ev.Run, a *agg, j int) {
	r := run.CaseRand(99, j)
	n := 4 + r.IntN(2)
	S := make([]ksEntry, n)
	for i := range S {
		S[i] = fkEntry(r.IntN(perKey), i)
	}
	findOne(run, a, S, pick(r, fkTok...), pick(r, fkAlgs...), findKeyBase+findKeyRandom+int64(j))
}

func runFindKey(run *ev.Run) {
	total := enumSets * len(fkTok) * len(fkAlgs)
	const chunk = 4096
	chunks := (total + chunk - 1) / chunk
	ev.Parallel(chunks, 0, func(_ int, ci int) {
		a := newAgg()
		for k := ci * chunk; k < (ci+1)*chunk && k < total; k++ {
			enumCase(run, a, k)
		}
		a.flush(run)
	})
	run.Observed("FindMatchingKey:enumeration-complete")
	run.Extra("find_matching_key_enumerated_calls", total)
	nr := run.N(100000, 1500000)
	rchunks := (nr + chunk - 1) / chunk
	ev.Parallel(rchunks, 0, func(_ int, ci int) {
		a := newAgg()
		for j := ci * chunk; j < (ci+1)*chunk && j < nr; j++ {
			randomCase(run, a, j)
		}
		a.flush(run)
	})
	if run.Get("FindMatchingKey", "scenario:ambiguity-reported") > 0 {
		run.Observed("FindMatchingKey:ambiguity-seen")
	}
	if run.Get("FindMatchingKey", "scenario:exact-kid-match-returned") > 0 {
		run.Observed("FindMatchingKey:exact-seen")
	}
	if run.Get("FindMatchingKey", "scenario:unique-candidate-for-kidless-token-returned") > 0 {
		run.Observed("FindMatchingKey:unique-kidless-seen")
	}
}

func replayFindKey(run *ev.Run, rc int64) {
	rc -= findKeyBase
	a := newAgg()
	if rc >= findKeyRandom {
		randomCase(run, a, int(rc-findKeyRandom))
	} else {
		enumCase(run, a, int(rc))
	}
	a.flush(run)
	run.Distinct("replay-a")
	run.Distinct("replay-b")
	run.Observed("FindMatchingKey:enumeration-complete")
}
