package main

// Part O — ONE verifier object (and the key set behind it) used by OVERLAPPING calls.
//
// The statement speaks about every token a verifier is handed; nothing in it depends on what else the same verifier is
// verifying at that moment. All six verifiers are objects an application keeps and shares between its request
// goroutines: the *op.JWTProfileVerifier returned by op.NewJWTProfileVerifier, the provider (Provider.AccessTokenVerifier
// / IDTokenHintVerifier and the OpenIDKeySet behind them) or a verifier object obtained from it once, the storage a
// request object's key is looked up in, an *rp.IDTokenVerifier over a static or a remote key set.
//
// A case draws two tokens A and B for one such object and presents them
//   - one after the other (A, B, A), recording the yield points each call passes (internal/sched: every span the
//     library opens, every storage call of vstore, and the harness' own callbacks: key set, subject check, claims
//     decoder);
//   - then, for EVERY yield point k of A: A is started on a goroutine of its own and parked at its k-th point, B runs
//     to completion, A is released; afterwards the roles are swapped. No sleeps, no timing: the interleaving is forced.
//
// Every call is judged ON ITS OWN, exactly as a sequential presentation is judged in the main sweep: an acceptance is
// legal only if the claims handed back are a payload the harness signed with a key the trust set OF THAT TOKEN selects
// (per-client verifiers: the keys registered for the client named in ITS iss); an untouched genuine token with a
// unique eligible key must be accepted.
//
// Pairs are drawn so that what one call leaves in the shared object would matter to the other: a token naming client X
// but signed with (and carrying the kid of) a key of client Y against the genuine token of Y made with that very key;
// a token signed by an unpublished key under the kid of a published key against the genuine token of that kid;
// algorithms inside and outside the allow-list; the same kid string registered for two clients; manipulated tokens
// (every operator of the main sweep) on either side.
//
// Replay: case index overlapBase + i.

import (
	"bytes"
	"context"
	"errors"
	"fmt"
	"math/rand/v2"
	"net/http"
	"strings"
	"time"

	"github.com/zitadel/oidc/v3/pkg/client/rp"
	"github.com/zitadel/oidc/v3/pkg/oidc"
	"github.com/zitadel/oidc/v3/pkg/op"

	"verif/internal/ev"
	"verif/internal/keys"
	"verif/internal/mon"
	"verif/internal/sched"
)

const overlapBase = int64(1) << 43

const overlapPatience = 20 * time.Second

func overlapCount(run *ev.Run) int { return run.N(1800, 36000) }

var (
	overlapKindsPerClient = []string{"forged-by-peer/genuine-of-peer", "forged-by-peer/genuine-of-peer", "forged-by-peer/genuine-of-peer",
		"genuine/genuine-of-peer", "genuine/forged-as-the-same-client", "attacker/genuine-of-peer", "random/random"}
	overlapKindsSharedSet = []string{"attacker-under-kid/genuine-of-kid", "attacker-under-kid/genuine-of-kid", "genuine/genuine", "genuine/attacker",
		"outside-allow-list/genuine", "random/random"}
)

func overlapMandatory() []string {
	var m []string
	for v, n := range verifierNames {
		m = append(m, "overlap:"+n+":sequential-judged", "overlap:"+n+":parked-call-accepted", "overlap:"+n+":parked-call-rejected",
			"overlap:"+n+":parked-before-the-key-lookup", "overlap:"+n+":object-kept-for-the-case", "overlap:"+n+":object-fresh-per-overlap")
		if perClient(v) {
			m = append(m, "overlap:"+n+":token-signed-by-the-peer-client-parked-before-the-key-lookup-while-the-peer's-genuine-token-was-accepted")
		} else {
			m = append(m, "overlap:"+n+":unpublished-key-under-a-published-kid-parked-before-the-key-lookup-while-the-genuine-token-of-that-kid-was-accepted")
		}
	}
	return m
}

// oCall is one of the two presentations of a case.
type oCall struct {
	c      *caseCtx
	pr     *presented
	signer *keys.Key
	kid    string
	alg    string
	desc   string // what the base token is, relative to the trust set of ITS issuer
}

func (oc *oCall) witness() map[string]any {
	m := map[string]any{"token": oc.pr.Token, "operator": oc.pr.Op, "variant": oc.pr.Variant, "speaks_for": oc.c.who, "base_token_is": oc.desc,
		"base_signer": keyName(oc.signer), "base_alg": oc.alg, "base_kid": oc.kid, "base_token": oc.c.base.Token,
		"trust_set_of_this_token": describeSet(oc.c.S), "genuine_payload": string(oc.c.P), "forged_payload": string(oc.c.Evil)}
	if oc.pr.Bound != nil {
		m["bound_signature"] = map[string]any{"signer": keyName(oc.pr.Bound.Key), "alg": oc.pr.Bound.Alg, "kid_declared": oc.pr.EffKid, "payload": string(oc.pr.Bound.Payload)}
	}
	return m
}

func outBrief(o outcome) map[string]any {
	m := map[string]any{"accepted": o.accepted, "error": err2str(o.err)}
	if o.accepted {
		m["claims_returned"] = o.m
	}
	if o.pi != nil {
		m["panic"] = o.pi.Value
	}
	return m
}

// judgeOverlap applies the statement to ONE call (the reference of the main sweep: legalFor / mustAcceptFor). other is
// the other call of the pair and only serves the wording of a claims mismatch.
func judgeOverlap(v int, oc, other *oCall, out outcome) (class, what string, harness bool) {
	c, pr := oc.c, oc.pr
	if out.pi != nil {
		switch {
		case out.pi.InRepo:
			return "panic:" + out.pi.Site(), "verifier panicked: " + out.pi.Value, false
		case out.pi.Harness:
			return "", "panic in harness: " + out.pi.Value + " at " + out.pi.Frame, true
		}
		return "panic:dependency", "verifier panicked outside library frames: " + out.pi.Value, false
	}
	if !out.accepted {
		if pr.Op == "genuine" && mustAcceptFor(c, v, oc.kid, oc.alg, oc.signer.Public()) {
			return "rejected-genuine", "an untouched genuinely signed token with a unique eligible key of its trust set and an allowed algorithm was rejected: " + err2str(out.err), false
		}
		return "", "", false
	}
	if pr.Bound == nil {
		return "accepted:" + pr.Op, "accepted a token that carries no signature the harness ever made over these bytes (" + pr.Op + "/" + pr.Variant + ")", false
	}
	if pr.NSig != 1 {
		return "accepted:" + pr.Op, fmt.Sprintf("accepted a serialisation carrying %d signatures", pr.NSig), false
	}
	legal, _, reason := legalFor(c, v, pr.EffKid, pr.Bound.Alg, pr.Bound.Key.Public())
	if !legal {
		cl := pr.Op
		if pr.Bound == c.base || pr.Op == "json-unprotected-kid" {
			cl = reason
		}
		return "accepted:" + cl, fmt.Sprintf("accepted a signature by %s (alg %s, kid %q) that the trust set of this token (%s) does not legitimately select: %s",
			keyName(pr.Bound.Key), pr.Bound.Alg, pr.EffKid, strings.Join(describeSet(c.S), " "), reason), false
	}
	expM, _ := decodeMap(pr.Bound.Payload)
	same := false
	switch {
	case out.raw != nil:
		same = bytes.Equal(trimJSONSpace(out.raw), trimJSONSpace(pr.Bound.Payload))
	case v == vRequestObject:
		proj := map[string]any{}
		for _, k := range []string{"state", "nonce", "redirect_uri", "scope"} {
			proj[k] = expM[k]
		}
		same = mapsEqual(out.m, proj)
		expM = proj
	default:
		same = mapsEqual(out.m, expM)
	}
	if !same {
		what = "the claims handed back are not the payload the accepted signature covers (differing members: " + diffKeys(out.m, expM) + ")"
		if other != nil && other.pr.Bound != nil {
			if om, ok := decodeMap(other.pr.Bound.Payload); ok && v != vRequestObject && mapsEqual(out.m, om) {
				what = "the claims handed back are the payload of the OTHER call's token, not the payload this call's signature covers"
			}
		}
		return "claims-differ", what, false
	}
	return "", "", false
}

// drawBase chooses signer, kid and algorithm of one call's base token and signs it. mode: "own" (a key of the token's
// trust set), "peer" (a key of c.peerS: the other client's), "attacker" (never published / registered), "random".
func drawBase(r *rand.Rand, c *caseCtx, mode string, wantAllowed bool) *oCall {
	oc := &oCall{c: c}
	if mode == "random" {
		mode = pick(r, "own", "own", "own", "attacker", "attacker")
		if len(c.peerS) > 0 {
			mode = pick(r, "own", "own", "peer", "peer", "attacker")
		}
	}
	// when an allowed algorithm is wanted, prefer a key that has one
	usable := func(S []ksEntry) int {
		var idx []int
		for j, e := range S {
			for _, a := range famAlgs(poolOf(e.K).fam) {
				if allowed(c.A, a) {
					idx = append(idx, j)
					break
				}
			}
		}
		if wantAllowed && len(idx) > 0 {
			return idx[r.IntN(len(idx))]
		}
		return r.IntN(len(S))
	}
	switch mode {
	case "own":
		ei := usable(c.S)
		e := c.S[ei]
		oc.signer = e.K
		c.signerIn = true
		switch x := r.IntN(20); {
		case x < 13:
			oc.kid, c.kidMode = e.Kid, "key's-own"
		case x < 16:
			oc.kid, c.kidMode = "", "absent"
		case x < 18:
			oc.kid, c.kidMode = c.S[(ei+1)%len(c.S)].Kid, "other-key's"
		default:
			oc.kid, c.kidMode = "zz", "unknown"
		}
		oc.desc = "signed with a key of its own trust set, kid " + c.kidMode
	case "peer":
		e := c.peerS[usable(c.peerS)]
		oc.signer = e.K
		switch x := r.IntN(10); {
		case x < 6:
			oc.kid, c.kidMode = e.Kid, "peer-key's-own"
		case x < 9:
			oc.kid, c.kidMode = c.S[r.IntN(len(c.S))].Kid, "issuer-key's"
		default:
			oc.kid, c.kidMode = "", "absent"
		}
		oc.desc = "names " + c.who + " but is signed with a key registered for the OTHER client of this case, kid " + c.kidMode
	default:
		t := c.S[r.IntN(len(c.S))]
		oc.signer = attackerFor(poolOf(t.K).fam)
		switch x := r.IntN(10); {
		case x < 6:
			oc.kid, c.kidMode = t.Kid, "copied"
		case x < 9:
			oc.kid, c.kidMode = "", "absent"
		default:
			oc.kid, c.kidMode = "zz", "unknown"
		}
		oc.desc = "signed with a key nobody published or registered, kid " + c.kidMode
	}
	oc.alg = drawAlg(r, c, oc.signer, wantAllowed)
	return oc
}

func drawAlg(r *rand.Rand, c *caseCtx, signer *keys.Key, wantAllowed bool) string {
	algs := famAlgs(poolOf(signer).fam)
	var ok, notOK []string
	for _, a := range algs {
		if allowed(c.A, a) {
			ok = append(ok, a)
		} else {
			notOK = append(notOK, a)
		}
	}
	switch {
	case wantAllowed && len(ok) > 0:
		return pick(r, ok...)
	case !wantAllowed && len(notOK) > 0:
		return pick(r, notOK...)
	}
	return pick(r, algs...)
}

// finish signs the base token of a call and chooses what is presented: the untouched token or one manipulation of it.
func (oc *oCall) finish(r *rand.Rand, manipulate bool) {
	c := oc.c
	c.algMode = "outside-allow-list"
	if allowed(c.A, oc.alg) {
		c.algMode = "allowed"
	}
	c.base = c.sign(oc.signer, oc.alg, oc.kid, c.P, nil)
	oc.pr = &presented{Op: "genuine", Token: c.base.Token, Bound: c.base, NSig: 1, EffKid: oc.kid}
	if !manipulate {
		return
	}
	for _, oi := range r.Perm(len(operators))[:3] {
		o := operators[oi]
		if pr := o.fn(c); pr != nil {
			pr.Op = o.name
			oc.pr = pr
			return
		}
	}
}

// sharedObject builds the ONE object both calls of an overlap use and returns the function presenting a token to it.
func (w *worker) sharedObject(v int, c0 *caseCtx, useRaw bool, variant string) (present func(tok string) outcome, text string) {
	ctx := opCtx()
	switch v {
	case vRemote:
		rt := &jwksRT{}
		rt.setDoc(c0.S, c0.noise)
		hc := &http.Client{Transport: rt}
		var ks oidc.KeySet
		text = "one *rp.IDTokenVerifier (rp.NewIDTokenVerifier) over one rp.NewRemoteKeySet"
		if strings.Contains(variant, "skip-remote-check") {
			ks = rp.NewRemoteKeySet(hc, jwksURL, rp.SkipRemoteCheck())
			text += " with rp.SkipRemoteCheck()"
		} else {
			ks = rp.NewRemoteKeySet(hc, jwksURL)
		}
		if strings.Contains(variant, "warm") {
			_ = mon.Catch(func() { _, _ = ks.VerifySignature(context.Background(), w.warm()) })
			text += ", cache warm with the served document"
		} else {
			text += ", cache cold"
		}
		var opts []rp.VerifierOption
		if c0.A != nil {
			opts = append(opts, rp.WithSupportedSigningAlgorithms(c0.A...))
		}
		ver := rp.NewIDTokenVerifier(issuer, rpClient, ks, opts...)
		return func(tok string) outcome { return verifyRPWith(ver, tok, useRaw) }, text
	case vStatic:
		ks := &staticKeySet{keys: jwksOf(c0.S)}
		var opts []rp.VerifierOption
		if c0.A != nil {
			opts = append(opts, rp.WithSupportedSigningAlgorithms(c0.A...))
		}
		ver := rp.NewIDTokenVerifier(issuer, rpClient, ks, opts...)
		return func(tok string) outcome { return verifyRPWith(ver, tok, useRaw) }, "one *rp.IDTokenVerifier (rp.NewIDTokenVerifier) over one static key set (oidc.FindMatchingKey + go-jose)"
	case vAccess, vHint:
		world := w.worlds[c0.allowIdx]
		installOPKeys(world, c0.S)
		if variant == "one-provider" {
			p := w.prepare(c0, useRaw, false)
			return p, "one op.Provider; every call obtains its verifier from Provider.AccessTokenVerifier / IDTokenHintVerifier (one OpenIDKeySet over one storage)"
		}
		text = "one verifier object obtained once from the provider (Provider.AccessTokenVerifier / IDTokenHintVerifier) and kept"
		if v == vAccess {
			ver := world.Provider.AccessTokenVerifier(ctx)
			return func(tok string) outcome {
				var o outcome
				o.typed = !useRaw
				o.pi = mon.Catch(func() {
					if useRaw {
						cl, err := op.VerifyAccessToken[*rawClaims](ctx, tok, ver)
						o.err = err
						if err == nil && cl != nil {
							o.accepted, o.raw = true, cl.raw
							o.m, _ = decodeMap(cl.raw)
						}
						return
					}
					cl, err := op.VerifyAccessToken[*oidc.AccessTokenClaims](ctx, tok, ver)
					o.err = err
					if err == nil && cl != nil {
						o.accepted, o.m = true, marshalToMap(cl)
					}
				})
				return o
			}, text
		}
		ver := world.Provider.IDTokenHintVerifier(ctx)
		return func(tok string) outcome {
			var o outcome
			o.typed = !useRaw
			o.pi = mon.Catch(func() {
				var expired op.IDTokenHintExpiredError
				if useRaw {
					cl, err := op.VerifyIDTokenHint[*rawClaims](ctx, tok, ver)
					o.err = err
					if (err == nil || errors.As(err, &expired)) && cl != nil {
						o.accepted, o.raw = true, cl.raw
						o.m, _ = decodeMap(cl.raw)
					}
					return
				}
				cl, err := op.VerifyIDTokenHint[*oidc.IDTokenClaims](ctx, tok, ver)
				o.err = err
				if (err == nil || errors.As(err, &expired)) && cl != nil {
					o.accepted, o.m = true, marshalToMap(cl)
				}
			})
			return o
		}, text
	case vAssertion:
		world := w.profile
		ver := newProfileVerifier(world, c0.permissive)
		text = "one *op.JWTProfileVerifier (op.NewJWTProfileVerifier over the storage"
		if c0.permissive {
			text += ", op.SubjectCheck(allow all)"
		}
		text += ")"
		return func(tok string) outcome {
			var o outcome
			o.typed = true
			o.pi = mon.Catch(func() {
				req, err := op.VerifyJWTAssertion(ctx, tok, ver)
				o.err = err
				if err == nil && req != nil {
					o.accepted, o.m = true, marshalToMap(req)
				}
			})
			return o
		}, text
	}
	// request object: the shared object is the storage the client keys are looked up in; the caller builds the
	// presenting function (it knows which client every token is presented for)
	return nil, "one storage (op.ParseRequestObject looks the client's key up in it); client_id of the outer request = the client the request object names"
}

func runOverlap(run *ev.Run, w *worker, i int) {
	r := run.CaseRand(91, i)
	v := i % len(verifierNames)
	vname := verifierNames[v]
	caseID := overlapBase + int64(i)
	now := time.Now()
	useRaw := r.IntN(2) == 0

	// ---- the two tokens ----
	var cs [2]*caseCtx
	var kind string
	kindOf := func(c *caseCtx) {
		switch v {
		case vRemote, vStatic, vHint:
			c.kind = pkIDToken
		case vAccess:
			c.kind = pkAccessToken
		case vAssertion:
			c.kind = pkAssertion
		default:
			c.kind = pkRequestObject
		}
	}
	for j := range cs {
		cs[j] = &caseCtx{r: rand.New(rand.NewPCG(r.Uint64(), uint64(j))), idx: i, verifier: vname, ksMode: "default", sub: "", subMode: "iss", vlife: "per-call", route: "direct"}
		kindOf(cs[j])
	}
	var calls [2]*oCall
	variant := ""
	if perClient(v) {
		kind = pick(r, overlapKindsPerClient...)
		x, y := fmt.Sprintf("client-o%d-%d-x", v, i), fmt.Sprintf("client-o%d-%d-y", v, i)
		SX := genKeySet(r, 3, true, famsAllowed(nil))
		SY := genOtherClientKeys(r, SX)
		cs[0].who, cs[0].S, cs[0].peerS = x, SX, SY
		cs[1].who, cs[1].S, cs[1].peerS = y, SY, SX
		if kind == "genuine/forged-as-the-same-client" {
			cs[1].who, cs[1].S, cs[1].peerS = x, SX, SY
		}
		permissive := v == vAssertion && r.IntN(3) == 0
		for j := range cs {
			cs[j].permissive = permissive
			cs[j].sub = cs[j].who
			cs[j].P = mkPayloadSub(cs[j].kind, fmt.Sprintf("o%d-%d-%d", v, i, j), cs[j].who, cs[j].who, now, false)
			cs[j].Evil = mkPayloadSub(cs[j].kind, fmt.Sprintf("evil-o%d-%d-%d", v, i, j), cs[j].who, cs[j].who, now, false)
		}
		switch kind {
		case "forged-by-peer/genuine-of-peer":
			calls[0] = drawBase(r, cs[0], "peer", true)
			calls[1] = drawBase(r, cs[1], "own", true)
			if r.IntN(2) == 0 {
				// the genuine token of the peer is made with the very key (kid, algorithm) the forged one was signed with
				for _, e := range SY {
					if samePub(e.K.Public(), calls[0].signer.Public()) {
						calls[1].signer, calls[1].kid, calls[1].alg = e.K, e.Kid, calls[0].alg
						cs[1].kidMode = "key's-own"
						calls[1].desc = "signed with a key of its own trust set, kid key's-own (the key the other call's token was signed with)"
					}
				}
			}
		case "genuine/genuine-of-peer":
			calls[0], calls[1] = drawBase(r, cs[0], "own", true), drawBase(r, cs[1], "own", true)
		case "genuine/forged-as-the-same-client":
			calls[0], calls[1] = drawBase(r, cs[0], "own", true), drawBase(r, cs[1], "peer", true)
		case "attacker/genuine-of-peer":
			calls[0], calls[1] = drawBase(r, cs[0], "attacker", true), drawBase(r, cs[1], "own", true)
		default:
			calls[0], calls[1] = drawBase(r, cs[0], "random", r.IntN(5) != 0), drawBase(r, cs[1], "random", r.IntN(5) != 0)
		}
	} else {
		kind = pick(r, overlapKindsSharedSet...)
		allowIdx := 0
		if r.IntN(5) >= 2 {
			allowIdx = 1 + r.IntN(len(allowLists)-1)
		}
		S := genKeySet(r, 4, false, famsAllowed(allowLists[allowIdx]))
		var noise []placedNoise
		if v == vRemote && r.IntN(4) == 0 {
			noise = genNoise(r, len(S), kidsOf(S))
		}
		for j := range cs {
			cs[j].allowIdx, cs[j].A, cs[j].S, cs[j].noise = allowIdx, allowLists[allowIdx], S, noise
			cs[j].who = fmt.Sprintf("user-o%d-%d", i, j)
			cs[j].sub = cs[j].who
			cs[j].P = mkPayload(cs[j].kind, fmt.Sprintf("o%d-%d-%d", v, i, j), cs[j].who, now, false)
			cs[j].Evil = mkPayload(cs[j].kind, fmt.Sprintf("evil-o%d-%d-%d", v, i, j), "admin", now, false)
		}
		switch kind {
		case "attacker-under-kid/genuine-of-kid":
			calls[1] = drawBase(r, cs[1], "own", true)
			calls[1].kid, cs[1].kidMode = "", "absent"
			for _, e := range S {
				if samePub(e.K.Public(), calls[1].signer.Public()) && e.Kid != "" {
					calls[1].kid, cs[1].kidMode = e.Kid, "key's-own"
					break
				}
			}
			calls[1].desc = "signed with a key of its own trust set, kid " + cs[1].kidMode
			calls[0] = &oCall{c: cs[0], signer: attackerFor(poolOf(calls[1].signer).fam), kid: calls[1].kid, alg: calls[1].alg,
				desc: "signed with a key nobody published, under the kid and algorithm of the OTHER call's genuine token"}
			cs[0].kidMode = "copied"
		case "genuine/genuine":
			calls[0], calls[1] = drawBase(r, cs[0], "own", true), drawBase(r, cs[1], "own", true)
		case "genuine/attacker":
			calls[0], calls[1] = drawBase(r, cs[0], "own", true), drawBase(r, cs[1], "attacker", true)
		case "outside-allow-list/genuine":
			calls[0], calls[1] = drawBase(r, cs[0], "own", false), drawBase(r, cs[1], "own", true)
		default:
			calls[0], calls[1] = drawBase(r, cs[0], "random", r.IntN(5) != 0), drawBase(r, cs[1], "random", r.IntN(5) != 0)
		}
		switch v {
		case vRemote:
			variant = pick(r, "cold", "warm", "warm", "cold+skip-remote-check", "warm+skip-remote-check")
		case vAccess, vHint:
			variant = pick(r, "one-provider", "one-verifier-object")
		}
	}
	for j := range calls {
		calls[j].finish(r, kind == "random/random" || r.IntN(4) == 0)
	}
	objLife := "kept-for-the-case"
	if r.IntN(3) == 0 || (v == vRemote && strings.HasPrefix(variant, "cold") && r.IntN(2) == 0) {
		objLife = "fresh-per-overlap"
	}

	// ---- the shared object ----
	if perClient(v) {
		world := w.profileWorld()
		installClientKeys(world, cs[0].who, cs[0].S)
		installClientKeys(world, cs[1].who, cs[1].S)
		if cs[1].who == cs[0].who { // the peer's keys must be registered too
			installClientKeys(world, fmt.Sprintf("client-o%d-%d-y", v, i), cs[0].peerS)
		}
	}
	tokClient := map[string]string{calls[0].pr.Token: cs[0].who, calls[1].pr.Token: cs[1].who}
	var objText string
	build := func() func(string) outcome {
		p, text := w.sharedObject(v, cs[0], useRaw, variant)
		objText = text
		if v == vRequestObject {
			world := w.profile
			ctx := opCtx()
			return func(tok string) outcome {
				var o outcome
				o.typed = true
				o.pi = mon.Catch(func() {
					ar := &oidc.AuthRequest{ClientID: tokClient[tok], ResponseType: oidc.ResponseTypeCode, Scopes: oidc.SpaceDelimitedArray{"openid"},
						State: "outer-state", Nonce: "outer-nonce", RedirectURI: "https://outer.example/cb", RequestParam: tok}
					err := op.ParseRequestObject(ctx, ar, world.Storage, issuer)
					o.err = err
					if err == nil {
						o.accepted = true
						o.m = map[string]any{"state": ar.State, "nonce": ar.Nonce, "redirect_uri": ar.RedirectURI, "scope": strings.Join(ar.Scopes, " ")}
					}
				})
				return o
			}
		}
		return p
	}
	present := build()
	run.Observed("overlap:" + vname + ":object-" + objLife)

	base := func() map[string]any {
		m := map[string]any{"part": "O: one verifier object, overlapping calls", "verifier": vname, "shared_object": objText, "object_life": objLife, "pair_kind": kind,
			"allow_list": allowName(cs[0].allowIdx), "claims_type": map[bool]string{true: "raw-capturing type", false: "library type"}[useRaw],
			"call_0": calls[0].witness(), "call_1": calls[1].witness(), "case": i}
		if perClient(v) {
			m["keys_registered"] = map[string]any{cs[0].who: describeSet(cs[0].S), fmt.Sprintf("client-o%d-%d-y", v, i): describeSet(map[bool][]ksEntry{true: cs[0].peerS, false: cs[1].S}[cs[1].who == cs[0].who])}
			if v == vAssertion {
				m["subject_check"] = map[bool]string{true: "op.SubjectCheck(allow all)", false: "default SubjectIsIssuer"}[cs[0].permissive]
			}
		} else {
			m["key_set"] = describeSet(cs[0].S)
			if len(cs[0].noise) > 0 {
				m["jwks_document_served"] = string(jwksBody(cs[0].S, cs[0].noise))
			}
		}
		return m
	}

	// ---- sequential: A, B, A on one object ----
	var traces [2][]string
	for _, n := range []int{0, 1, 0} {
		var o outcome
		p := present
		if objLife == "fresh-per-overlap" {
			p = build()
		}
		tr := sched.Trace(func() { o = p(calls[n].pr.Token) })
		run.Eval()
		traces[n] = tr
		run.Count("overlap:sequential:"+vname, fmt.Sprintf("%s call %d (%s) -> %s", kind, n, map[bool]string{true: "untouched", false: "manipulated"}[calls[n].pr.Op == "genuine"],
			map[bool]string{true: "accepted", false: "refused: " + errClass(o.err)}[o.accepted]))
		class, what, harness := judgeOverlap(v, calls[n], calls[1-n], o)
		if harness {
			run.HarnessBug("part O: " + what)
			return
		}
		if class != "" {
			wit := base()
			wit["judged_call"], wit["outcome"] = n, outBrief(o)
			run.Violation("C02:"+vname+":one-object-sequential:"+class, caseID, fmt.Sprintf("one object, calls in sequence, call %d: %s", n, what), wit)
			return
		}
	}
	run.Observed("overlap:" + vname + ":sequential-judged")
	run.Count("overlap:points-per-call:"+vname, fmt.Sprintf("%d", len(traces[0])))

	// ---- forced preemptions ----
	for _, pa := range []int{0, 1} {
		pb := 1 - pa
		for k := range traces[pa] {
			p := present
			if objLife == "fresh-per-overlap" {
				p = build()
			}
			var oa, ob outcome
			res := sched.Preempt(k, func() { oa = p(calls[pa].pr.Token) }, func() { ob = p(calls[pb].pr.Token) }, overlapPatience)
			run.Eval()
			if res.Blocked {
				run.Count("overlap:blocked-at:"+vname, res.At)
				run.Inconclusive("part O: the running call could not finish while the other was parked at " + res.At)
				continue
			}
			if !res.Reached {
				run.Count("overlap:point-not-reached:"+vname, fmt.Sprintf("#%d of %d", k, len(traces[pa])))
				continue
			}
			bad := false
			for _, jc := range []struct {
				n    int
				o    outcome
				role string
			}{{pa, oa, "parked"}, {pb, ob, "running"}} {
				class, what, harness := judgeOverlap(v, calls[jc.n], calls[1-jc.n], jc.o)
				if harness {
					run.HarnessBug("part O: " + what)
					return
				}
				if class == "" {
					continue
				}
				bad = true
				wit := base()
				wit["parked_call"], wit["running_call"], wit["parked_at_point"], wit["parked_point_index"], wit["points_of_the_parked_call"] = pa, pb, res.At, k, traces[pa]
				wit["judged_call"], wit["judged_role"] = jc.n, jc.role
				wit["outcome_parked"], wit["outcome_running"] = outBrief(oa), outBrief(ob)
				run.Violation("C02:"+vname+":overlapping-calls:"+class, caseID,
					fmt.Sprintf("one object, call %d parked at its yield point #%d (%s) while call %d ran to completion, then released; the %s call: %s", pa, k, res.At, pb, jc.role, what), wit)
			}
			if bad {
				return
			}
			acc := map[bool]string{true: "accepted", false: "refused"}
			run.Count("overlap:parked-at:"+vname, res.At)
			run.Count("overlap:outcomes:"+vname, fmt.Sprintf("%s: parked %s, running %s", kind, acc[oa.accepted], acc[ob.accepted]))
			run.Distinct(strings.Join([]string{"overlap", vname, kind, variant, objLife, res.At, calls[pa].pr.Op, cs[pa].kidMode, cs[pa].algMode, acc[oa.accepted], calls[pb].pr.Op, cs[pb].kidMode, acc[ob.accepted], fmt.Sprint(pa)}, "|"))
			if oa.accepted {
				run.Observed("overlap:" + vname + ":parked-call-accepted")
			} else {
				run.Observed("overlap:" + vname + ":parked-call-rejected")
			}
			if beforeKeyLookup(v, res.At) {
				run.Observed("overlap:" + vname + ":parked-before-the-key-lookup")
				if pa == 0 && ob.accepted && calls[0].pr.Op == "genuine" && calls[1].pr.Op == "genuine" {
					switch kind {
					case "forged-by-peer/genuine-of-peer":
						run.Observed("overlap:" + vname + ":token-signed-by-the-peer-client-parked-before-the-key-lookup-while-the-peer's-genuine-token-was-accepted")
					case "attacker-under-kid/genuine-of-kid":
						run.Observed("overlap:" + vname + ":unpublished-key-under-a-published-kid-parked-before-the-key-lookup-while-the-genuine-token-of-that-kid-was-accepted")
					}
				}
			}
		}
	}
}

// beforeKeyLookup: is the yield point one the call passes before its key set has been consulted for a key?
func beforeKeyLookup(v int, at string) bool {
	switch v {
	case vAssertion, vRequestObject:
		return at == "span:VerifySignature" || at == "storage:GetKeyByIDAndClientID"
	case vAccess, vHint:
		return at == "storage:KeySet"
	case vStatic:
		return at == "keyset:VerifySignature"
	}
	return at == "span:VerifySignature"
}
