package main

// Mutation operators: every operator starts from the genuinely signed base token of the case and
// returns the token that is presented together with what the harness knows about it (the ledger
// entry its single signature really binds to, if any).

import (
	"crypto/ecdsa"
	"encoding/base64"
	"encoding/json"
	"fmt"
	"math/big"
	"math/rand/v2"
	"sort"
	"strings"
	"unicode"

	jose "github.com/go-jose/go-jose/v4"

	"verif/internal/keys"
)

type caseCtx struct {
	r        *rand.Rand
	idx      int
	verifier string
	kind     payloadKind
	S        []ksEntry // trust set (for the remote key set: the document served while the token is verified)
	cached   []ksEntry // remote key set only: the document the cache was warmed with (nil = cold)
	allowIdx int
	A        []string
	ledger   []*entry
	who      string // subject / client the genuine payload speaks for
	P        []byte // genuine payload
	Evil     []byte // forged payload (never signed by a trusted key)
	base     *entry
	signerIn bool   // signer's public key is published in S
	kidMode  string // right, absent, other, unknown
	algMode  string // allowed, outside
	mkEvil   func(marker string) []byte

	// op-jwt-assertion only: the subject dimension. The trust set stays "keys the storage holds for the client
	// named in iss" (c.S), whatever sub says.
	sub        string    // "sub" claim of the payloads ("" = same as who)
	subMode    string    // iss, other-client, unknown
	otherS     []ksEntry // keys registered for the client named in sub (never for who)
	permissive bool      // verifier built with a custom SubjectCheck that permits sub != iss
	signerOf   string    // iss-client, sub-client, unregistered

	// op-access-token / op-id-token-hint only: the provider-option dimension. c.S is always the trust set of the
	// verifier under test (its configured key set, the storage keys when none is configured).
	ksMode   string               // default, access-keyset, hint-keyset, both
	storageS []ksEntry            // keys the storage publishes
	accessS  []ksEntry            // key set handed to op.WithAccessTokenKeySet (nil = not configured)
	hintS    []ksEntry            // key set handed to op.WithIDTokenHintKeySet (nil = not configured)
	foreign  map[string][]ksEntry // the key sets that are NOT this verifier's trust set, by name
	signedBy string               // which set the base signer was drawn from

	// op-jwt-assertion only: the life time of the verifier OBJECT. "per-call" builds one for every presentation (what
	// Provider.JWTProfileVerifier does); "per-case" / "per-worker" keep one *op.JWTProfileVerifier, as an application
	// holding the result of op.NewJWTProfileVerifier does, and present the genuine assertion of another registered
	// client (pred) to that same object before this case's issuer is seen. The trust set stays the keys of the
	// client named in iss of the assertion at hand, whatever the object has verified before.
	vlife string    // per-call, per-case, per-worker
	pred  string    // client whose genuine assertion the kept verifier object verifies first
	predS []ksEntry // keys registered for pred (never keys of who)

	// rp-remote only: how the verifier is obtained. "direct" = rp.NewIDTokenVerifier over rp.NewRemoteKeySet;
	// "relying-party+verifier-opts" = rp.NewRelyingPartyOIDC(..., rp.WithVerifierOpts(allow-list)).IDTokenVerifier();
	// "relying-party+discovery-algs" = rp.NewRelyingPartyOIDC(..., rp.WithSigningAlgsFromDiscovery()) against a provider
	// whose discovery document announces exactly the allow-list. The allowed list is c.A in all three.
	route      string
	routeOrder int // position of rp.WithSigningAlgsFromDiscovery among the options (0 = first, 1 = last)

	// rp-remote only: entries of the served / cached JWKS document that no verifier can use (noise.go). They are not
	// part of the trust set c.S / c.cached.
	noise       []placedNoise
	cachedNoise []placedNoise

	// part O (overlap.go) only: keys of the client whose token the OTHER of the two overlapping calls presents
	peerS []ksEntry
}

type presented struct {
	Op      string
	Variant string
	Token   string
	Bound   *entry // ledger entry the token's only signature verifies for (header+payload bytes), nil = none
	NSig    int    // signatures the serialisation carries
	EffKid  string // kid the presented token declares (protected, else unprotected header)
	Seen    []byte // payload a naive 3-way split on "." decodes (what ParseToken hands to the claims)
}

type operator struct {
	name string
	fn   func(c *caseCtx) *presented
}

func (c *caseCtx) parts() (h, p, s string) {
	x := strings.Split(c.base.Token, ".")
	return x[0], x[1], x[2]
}

// target picks the published key an attack aims at (prefers one the base signer is, else any).
func (c *caseCtx) target() ksEntry {
	return c.S[c.r.IntN(len(c.S))]
}

func rawHeader(alg, kid string, extra string) []byte {
	var sb strings.Builder
	sb.WriteString(`{"alg":`)
	b, _ := json.Marshal(alg)
	sb.Write(b)
	if kid != "" {
		sb.WriteString(`,"kid":`)
		b, _ = json.Marshal(kid)
		sb.Write(b)
	}
	sb.WriteString(extra)
	sb.WriteByte('}')
	return []byte(sb.String())
}

func attackerFor(fam string) *keys.Key {
	for _, p := range attackPool {
		if p.fam == fam {
			return p.k
		}
	}
	return attackPool[0].k
}

func stripSpace(s string) string {
	return strings.Map(func(r rune) rune {
		if unicode.IsSpace(r) {
			return -1
		}
		return r
	}, s)
}

// bindCompact is the reference reading of a compact serialisation: whitespace removed, three parts,
// Go's (lenient about trailing bits) unpadded base64url; bound iff header, payload and signature BYTES are
// those of the ledger entry.
func bindCompact(tok string, e *entry) *entry {
	x := strings.Split(stripSpace(tok), ".")
	if len(x) != 3 {
		return nil
	}
	dec := func(s string) ([]byte, bool) {
		b, err := base64.RawURLEncoding.DecodeString(s)
		return b, err == nil
	}
	h, ok1 := dec(x[0])
	p, ok2 := dec(x[1])
	s, ok3 := dec(x[2])
	if !ok1 || !ok2 || !ok3 {
		return nil
	}
	if string(h) == string(e.Header) && string(p) == string(e.Payload) && string(s) == string(e.Sig) {
		return e
	}
	return nil
}

func naiveSeen(tok string) []byte {
	x := strings.Split(tok, ".")
	if len(x) != 3 {
		return nil
	}
	b, err := base64.RawURLEncoding.DecodeString(x[1])
	if err != nil {
		return nil
	}
	return b
}

// nonCanonical changes the unused trailing bits of the last base64 character (same bytes when decoded leniently).
func nonCanonical(s string) (string, bool) {
	const abc = "ABCDEFGHIJKLMNOPQRSTUVWXYZabcdefghijklmnopqrstuvwxyz0123456789-_"
	if len(s) == 0 || len(s)%4 == 0 || len(s)%4 == 1 {
		return s, false
	}
	i := strings.IndexByte(abc, s[len(s)-1])
	if i < 0 {
		return s, false
	}
	return s[:len(s)-1] + string(abc[i|1]) + "", i|1 != i
}

func (c *caseCtx) smuggle(where string, seen []byte) *presented {
	h, p, s := c.parts()
	dotted := "x." + keys.B64(seen) + ".y"
	var tok string
	switch where {
	case "flat-header":
		tok = fmt.Sprintf(`{"payload":"%s","protected":"%s","header":{"x":"%s"},"signature":"%s"}`, p, h, dotted, s)
	case "flat-member":
		tok = fmt.Sprintf(`{"payload":"%s","protected":"%s","signature":"%s","zz":"%s"}`, p, h, s, dotted)
	case "flat-member-first":
		tok = fmt.Sprintf(`{"zz":"%s","payload":"%s","protected":"%s","signature":"%s"}`, dotted, p, h, s)
	case "general-header":
		tok = fmt.Sprintf(`{"payload":"%s","signatures":[{"protected":"%s","header":{"x":"%s"},"signature":"%s"}]}`, p, h, dotted, s)
	case "general-member":
		tok = fmt.Sprintf(`{"payload":"%s","signatures":[{"protected":"%s","signature":"%s"}],"zz":"%s"}`, p, h, s, dotted)
	case "leading-ws":
		tok = fmt.Sprintf(" \n{\"payload\":\"%s\",\"protected\":\"%s\",\"header\":{\"x\":\"%s\"},\"signature\":\"%s\"}", p, h, dotted, s)
	case "flat-typ":
		tok = fmt.Sprintf(`{"payload":"%s","protected":"%s","header":{"cty":"%s"},"signature":"%s"}`, p, h, dotted, s)
	}
	return &presented{Variant: where, Token: tok, Bound: c.base, NSig: 1, EffKid: c.base.Kid, Seen: seen}
}

var smuggleWhere = []string{"flat-header", "flat-member", "flat-member-first", "general-header", "general-member", "leading-ws", "flat-typ"}

var operators = []operator{
	{"alg-none", func(c *caseCtx) *presented {
		alg := pick(c.r, "none", "none", "None", "NONE", "nOnE")
		kid := c.base.Kid
		payload := c.Evil
		v := "evil-emptysig"
		_, p, s := c.parts()
		sig := ""
		switch c.r.IntN(4) {
		case 1:
			v, sig = "evil-keepsig", s
		case 2:
			v, payload = "genuine-payload-emptysig", c.P
		case 3:
			v, payload, sig = "genuine-payload-keepsig", c.P, s
		}
		_ = p
		tok := keys.B64(rawHeader(alg, kid, "")) + "." + keys.B64(payload) + "." + sig
		return &presented{Variant: alg + "/" + v, Token: tok, NSig: 0, EffKid: kid}
	}},
	{"empty-signature", func(c *caseCtx) *presented {
		h, p, _ := c.parts()
		if c.r.IntN(2) == 0 {
			return &presented{Variant: "genuine-payload", Token: h + "." + p + ".", NSig: 0, EffKid: c.base.Kid}
		}
		return &presented{Variant: "evil-payload", Token: h + "." + keys.B64(c.Evil) + ".", NSig: 0, EffKid: c.base.Kid}
	}},
	{"hmac-pubkey", func(c *caseCtx) *presented {
		t := c.target()
		encs := keys.PublicEncodings(t.K.With(t.Kid, t.K.Alg, t.Use))
		i := c.r.IntN(len(encs))
		alg := pick(c.r, "HS256", "HS384", "HS512")
		kid := t.Kid
		if c.r.IntN(4) == 0 {
			kid = ""
		}
		payload := c.Evil
		if c.r.IntN(5) == 0 {
			payload = c.P
		}
		return &presented{Variant: fmt.Sprintf("%s/enc%d/%s", alg, i, pubFamily(t.K.Public())), Token: keys.HMACSign(alg, kid, encs[i], payload), NSig: 1, EffKid: kid}
	}},
	{"wrong-key-same-kid", func(c *caseCtx) *presented {
		t := c.target()
		pk := poolOf(t.K)
		ak := attackerFor(pk.fam)
		alg := c.base.Alg
		if !fits(ak.Public(), alg, true) {
			alg = pick(c.r, famAlgs(pk.fam)...)
		}
		e := c.sign(ak, alg, t.Kid, c.Evil, nil)
		return &presented{Variant: pk.fam, Token: e.Token, Bound: e, NSig: 1, EffKid: t.Kid}
	}},
	{"type-confusion", func(c *caseCtx) *presented {
		// a key of another family signs with its own algorithm under the kid of a published key
		t := c.target()
		pk := poolOf(t.K)
		fam := pick(c.r, "RSA", "P256", "OKP", "P384")
		for fam == pk.fam {
			fam = pick(c.r, "RSA", "P256", "OKP", "P384")
		}
		ak := attackerFor(fam)
		alg := pick(c.r, famAlgs(fam)...)
		if c.r.IntN(2) == 0 { // prefer an allowed algorithm
			for _, a := range famAlgs(fam) {
				if allowed(c.A, a) {
					alg = a
				}
			}
		}
		e := c.sign(ak, alg, t.Kid, c.Evil, nil)
		return &presented{Variant: pk.fam + "-key/" + alg, Token: e.Token, Bound: e, NSig: 1, EffKid: t.Kid}
	}},
	{"embedded-jwk", func(c *caseCtx) *presented {
		t := c.target()
		ak := attackerFor(poolOf(c.base.Key).fam)
		pub := jose.JSONWebKey{Key: ak.Public(), KeyID: t.Kid}
		e := c.sign(ak, c.base.Alg, t.Kid, c.Evil, map[jose.HeaderKey]any{"jwk": pub})
		return &presented{Variant: c.base.Alg, Token: e.Token, Bound: e, NSig: 1, EffKid: t.Kid}
	}},
	{"sig-bitflip", func(c *caseCtx) *presented {
		h, p, _ := c.parts()
		s := append([]byte{}, c.base.Sig...)
		i := c.r.IntN(len(s))
		s[i] ^= 1 << c.r.IntN(8)
		return &presented{Variant: "1bit", Token: h + "." + p + "." + keys.B64(s), NSig: 1, EffKid: c.base.Kid}
	}},
	{"sig-noncanonical-b64", func(c *caseCtx) *presented {
		h, p, s := c.parts()
		s2, changed := nonCanonical(s)
		tok := h + "." + p + "." + s2
		v := "trailing-bits"
		if !changed {
			v = "unchanged"
		}
		return &presented{Variant: v, Token: tok, Bound: bindCompact(tok, c.base), NSig: 1, EffKid: c.base.Kid}
	}},
	{"ecdsa-malleate", func(c *caseCtx) *presented {
		pub, ok := c.base.Key.Public().(*ecdsa.PublicKey)
		if !ok {
			return nil
		}
		h, p, _ := c.parts()
		n := len(c.base.Sig) / 2
		rr := new(big.Int).SetBytes(c.base.Sig[:n])
		ss := new(big.Int).SetBytes(c.base.Sig[n:])
		ss.Sub(pub.Curve.Params().N, ss)
		out := make([]byte, 2*n)
		rr.FillBytes(out[:n])
		ss.FillBytes(out[n:])
		// the complement (r, n-s) is a valid signature of the same bytes by the same key
		return &presented{Variant: c.base.Alg, Token: h + "." + p + "." + keys.B64(out), Bound: c.base, NSig: 1, EffKid: c.base.Kid}
	}},
	{"payload-swap", func(c *caseCtx) *presented {
		h, _, s := c.parts()
		return &presented{Variant: "evil", Token: h + "." + keys.B64(c.Evil) + "." + s, NSig: 1, EffKid: c.base.Kid}
	}},
	{"payload-edit", func(c *caseCtx) *presented {
		h, _, s := c.parts()
		p := append([]byte{}, c.P...)
		// change one character inside a string value (keeps the JSON well formed and every claim check satisfied)
		i := strings.Index(string(p), `"vm":"`)
		p[i+6] ^= 0x01
		return &presented{Variant: "1bit-in-string", Token: h + "." + keys.B64(p) + "." + s, NSig: 1, EffKid: c.base.Kid}
	}},
	{"payload-reencode", func(c *caseCtx) *presented {
		h, _, s := c.parts()
		p, v := reencode(c.r, c.P)
		return &presented{Variant: v, Token: h + "." + keys.B64(p) + "." + s, NSig: 1, EffKid: c.base.Kid}
	}},
	{"payload-b64-variant", func(c *caseCtx) *presented {
		h, p, s := c.parts()
		v := pick(c.r, "padded", "std-alphabet", "trailing-bits", "percent")
		p2 := p
		switch v {
		case "padded":
			p2 = p + strings.Repeat("=", (4-len(p)%4)%4)
			if p2 == p {
				p2 = p + "="
			}
		case "std-alphabet":
			p2 = base64.RawStdEncoding.EncodeToString(c.P)
			if p2 == p {
				p2 = p + "+"
			}
		case "trailing-bits":
			p2, _ = nonCanonical(p)
		case "percent":
			p2 = p + "%3D"
		}
		tok := h + "." + p2 + "." + s
		return &presented{Variant: v, Token: tok, Bound: bindCompact(tok, c.base), NSig: 1, EffKid: c.base.Kid}
	}},
	{"header-edit", func(c *caseCtx) *presented {
		_, p, s := c.parts()
		v := pick(c.r, "kid", "alg-same-family", "alg-other-family", "add-member", "drop-kid")
		t := c.target()
		kid, alg, extra := c.base.Kid, c.base.Alg, ""
		switch v {
		case "kid":
			kid = t.Kid
			if kid == c.base.Kid {
				kid = "k9"
			}
		case "drop-kid":
			if kid == "" {
				kid = "k9"
			} else {
				kid = ""
			}
		case "alg-same-family":
			as := famAlgs(poolOf(c.base.Key).fam)
			alg = pick(c.r, as...)
			if alg == c.base.Alg {
				alg = pick(c.r, "RS256", "PS256", "ES256", "ES384")
				if alg == c.base.Alg {
					alg = "PS384"
				}
			}
		case "alg-other-family":
			alg = pick(c.r, "RS256", "ES256", "EdDSA", "PS256")
			if alg == c.base.Alg {
				alg = "ES512"
			}
		case "add-member":
			extra = `,"typ":"at+jwt"`
		}
		return &presented{Variant: v, Token: keys.B64(rawHeader(alg, kid, extra)) + "." + p + "." + s, NSig: 1, EffKid: kid}
	}},
	{"dup-alg-header", func(c *caseCtx) *presented {
		_, _, s := c.parts()
		kidm := ""
		if c.base.Kid != "" {
			b, _ := json.Marshal(c.base.Kid)
			kidm = `,"kid":` + string(b)
		}
		var hdr string
		v := pick(c.r, "none-first", "none-last", "hs-last")
		switch v {
		case "none-first":
			hdr = `{"alg":"none","alg":"` + c.base.Alg + `"` + kidm + `}`
		case "none-last":
			hdr = `{"alg":"` + c.base.Alg + `"` + kidm + `,"alg":"none"}`
		default:
			hdr = `{"alg":"` + c.base.Alg + `"` + kidm + `,"alg":"HS256"}`
		}
		return &presented{Variant: v, Token: keys.B64([]byte(hdr)) + "." + keys.B64(c.Evil) + "." + s, NSig: 1, EffKid: c.base.Kid}
	}},
	{"truncate", func(c *caseCtx) *presented {
		h, p, s := c.parts()
		cuts := []struct{ v, t string }{
			{"empty", ""}, {"header-only", h}, {"header-dot", h + "."}, {"header-payload", h + "." + p}, {"header-payload-dot", h + "." + p + "."},
			{"sig-half", h + "." + p + "." + s[:len(s)/2]}, {"sig-minus-1", h + "." + p + "." + s[:len(s)-1]}, {"sig-minus-2", h + "." + p + "." + s[:len(s)-2]},
			{"no-header", "." + p + "." + s}, {"only-sig", ".." + s}, {"no-payload", h + ".." + s}, {"payload-half", h + "." + p[:len(p)/2] + "." + s},
			{"payload-minus-1", h + "." + p[:len(p)-1] + "." + s}, {"header-minus-1", h[:len(h)-1] + "." + p + "." + s}, {"dots-only", ".."},
			{"header-half", h[:len(h)/2] + "." + p + "." + s},
		}
		x := cuts[c.r.IntN(len(cuts))]
		return &presented{Variant: x.v, Token: x.t, NSig: 1, EffKid: c.base.Kid}
	}},
	{"parts-count", func(c *caseCtx) *presented {
		h, p, s := c.parts()
		xs := []struct{ v, t string }{
			{"4-parts", h + "." + p + "." + s + ".x"}, {"5-parts-jwe-like", h + "." + p + "." + s + "." + p + "." + s}, {"trailing-dot", c.base.Token + "."},
			{"leading-dot", "." + c.base.Token}, {"4-parts-evil-second", h + "." + keys.B64(c.Evil) + "." + p + "." + s}, {"2-parts", h + "." + p},
			{"token-twice", c.base.Token + "." + c.base.Token}, {"1-part", h + p + s},
		}
		x := xs[c.r.IntN(len(xs))]
		return &presented{Variant: x.v, Token: x.t, NSig: 1, EffKid: c.base.Kid}
	}},
	{"whitespace", func(c *caseCtx) *presented {
		h, p, s := c.parts()
		mid := len(p) / 2
		xs := []struct{ v, t string }{
			{"newline-in-payload", h + "." + p[:mid] + "\n" + p[mid:] + "." + s}, {"space-in-payload", h + "." + p[:mid] + " " + p[mid:] + "." + s},
			{"tab-in-sig", h + "." + p + "." + s[:len(s)/2] + "\t" + s[len(s)/2:]}, {"trailing-newline", c.base.Token + "\n"}, {"leading-space", " " + c.base.Token},
			{"crlf-around-dots", h + "\r\n.\r\n" + p + "\r\n.\r\n" + s}, {"newline-in-header", h[:len(h)/2] + "\n" + h[len(h)/2:] + "." + p + "." + s},
			{"nbsp-in-payload", h + "." + p[:mid] + "\u00a0" + p[mid:] + "." + s},
		}
		x := xs[c.r.IntN(len(xs))]
		return &presented{Variant: x.v, Token: x.t, Bound: bindCompact(x.t, c.base), NSig: 1, EffKid: c.base.Kid}
	}},
	{"json-plain", func(c *caseCtx) *presented {
		h, p, s := c.parts()
		var tok, v string
		if c.r.IntN(2) == 0 {
			v, tok = "flattened", fmt.Sprintf(`{"payload":"%s","protected":"%s","signature":"%s"}`, p, h, s)
		} else {
			v, tok = "general-1sig", fmt.Sprintf(`{"payload":"%s","signatures":[{"protected":"%s","signature":"%s"}]}`, p, h, s)
		}
		return &presented{Variant: v, Token: tok, Bound: c.base, NSig: 1, EffKid: c.base.Kid}
	}},
	{"json-multisig", func(c *caseCtx) *presented {
		// the genuine signature plus a second one by an attacker key (or by the same key again)
		h, p, s := c.parts()
		second := attackerFor(poolOf(c.base.Key).fam)
		v := "trusted+attacker"
		if c.r.IntN(4) == 0 {
			second, v = c.base.Key, "trusted-twice"
		}
		e2 := c.sign(second, c.base.Alg, c.base.Kid, c.P, nil)
		x := strings.Split(e2.Token, ".")
		sigs := fmt.Sprintf(`{"protected":"%s","signature":"%s"},{"protected":"%s","signature":"%s"}`, h, s, x[0], x[2])
		if c.r.IntN(2) == 0 {
			sigs = fmt.Sprintf(`{"protected":"%s","signature":"%s"},{"protected":"%s","signature":"%s"}`, x[0], x[2], h, s)
			v += "/attacker-first"
		}
		var tok string
		switch c.r.IntN(3) {
		case 0:
			v += "/plain"
			tok = fmt.Sprintf(`{"payload":"%s","signatures":[%s]}`, p, sigs)
		case 1:
			v += "/smuggle-same-payload"
			tok = fmt.Sprintf(`{"payload":"%s","signatures":[%s],"zz":"x.%s.y"}`, p, sigs, p)
		default:
			v += "/smuggle-evil"
			tok = fmt.Sprintf(`{"payload":"%s","signatures":[%s],"zz":"x.%s.y"}`, p, sigs, keys.B64(c.Evil))
		}
		return &presented{Variant: v, Token: tok, Bound: c.base, NSig: 2, EffKid: c.base.Kid, Seen: naiveSeen(tok)}
	}},
	{"json-smuggle", func(c *caseCtx) *presented {
		// the one case the signed-payload == parsed-payload comparison exists for
		seen, v := c.nearEvil()
		pr := c.smuggle(pick(c.r, smuggleWhere...), seen)
		pr.Variant += "/" + v
		return pr
	}},
	{"json-smuggle-same", func(c *caseCtx) *presented {
		// smuggled copy equals the signed payload: believing it is legal (it is what the signature covers)
		return c.smuggle(pick(c.r, smuggleWhere...), c.P)
	}},
	{"json-unprotected-kid", func(c *caseCtx) *presented {
		// kid only in the unprotected header (not covered by the signature) steering key selection
		t := c.target()
		kid := t.Kid
		if kid == "" {
			kid = "k9"
		}
		e := c.sign(c.base.Key, c.base.Alg, "", c.P, nil)
		x := strings.Split(e.Token, ".")
		seen := c.P
		v := "same-payload"
		if c.r.IntN(2) == 0 {
			seen, v = c.nearEvil()
			v = "evil-payload:" + v
		}
		kb, _ := json.Marshal(kid)
		tok := fmt.Sprintf(`{"payload":"%s","protected":"%s","header":{"kid":%s},"signature":"%s","zz":"x.%s.y"}`, x[1], x[0], kb, x[2], keys.B64(seen))
		return &presented{Variant: v, Token: tok, Bound: e, NSig: 1, EffKid: kid, Seen: seen}
	}},
}

func opNames() []string {
	out := []string{"genuine"}
	for _, o := range operators {
		out = append(out, o.name)
	}
	return out
}

// safeKeys are the string claims whose value can be altered without tripping a claim check that runs before
// the signature check (and whose value the verifier hands back, so that a difference is observable).
func safeKeys(kind payloadKind) []string {
	switch kind {
	case pkIDToken:
		return []string{"sub", "vm", "email"}
	case pkAccessToken:
		return []string{"sub", "vm", "jti"}
	case pkAssertion:
		return []string{"vm"}
	default:
		return []string{"state", "nonce", "vm"}
	}
}

// editValue applies f to the string value of member key of the compact JSON object p.
func editValue(p []byte, key string, f func(string) string) []byte {
	s := string(p)
	pat := `"` + key + `":"`
	i := strings.Index(s, pat)
	if i < 0 {
		return p
	}
	i += len(pat)
	j := strings.IndexByte(s[i:], '"')
	if j < 0 {
		return p
	}
	return []byte(s[:i] + f(s[i:i+j]) + s[i+j:])
}

func toggleCase(r *rand.Rand, v string) string {
	b := []byte(v)
	changed := false
	for i := range b {
		if (b[i]|0x20 >= 'a' && b[i]|0x20 <= 'z') && (r.IntN(2) == 0 || !changed) {
			b[i] ^= 0x20
			changed = true
		}
	}
	return string(b)
}

// mapNames rewrites every member name of the top-level compact object.
func mapNames(p []byte, f func(string) string) []byte {
	var m map[string]json.RawMessage
	if json.Unmarshal(p, &m) != nil {
		return p
	}
	ks := make([]string, 0, len(m))
	for k := range m {
		ks = append(ks, k)
	}
	sort.Strings(ks)
	var sb strings.Builder
	sb.WriteByte('{')
	for i, k := range ks {
		if i > 0 {
			sb.WriteByte(',')
		}
		kb, _ := json.Marshal(f(k))
		sb.Write(kb)
		sb.WriteByte(':')
		sb.Write(m[k])
	}
	sb.WriteByte('}')
	return []byte(sb.String())
}

var nearKinds = []string{"far", "far", "case-value-upper", "case-value-mixed", "case-names-upper", "case-names-capitalised", "case-names-and-values",
	"case-whole-payload-upper", "one-byte-changed", "one-byte-appended", "one-byte-removed", "same-length-different-bytes", "whitespace-only"}

// nearEvil returns a never-signed payload for the smuggling operators: the far forged one, or one at a small edit
// distance from the signed payload (letter case only, one byte changed / appended / removed, same length, whitespace only).
func (c *caseCtx) nearEvil() ([]byte, string) {
	kind := pick(c.r, nearKinds...)
	key := pick(c.r, safeKeys(c.kind)...)
	var out []byte
	switch kind {
	case "far":
		return c.Evil, "far"
	case "case-value-upper":
		out = editValue(c.P, key, strings.ToUpper)
	case "case-value-mixed":
		out = editValue(c.P, key, func(v string) string { return toggleCase(c.r, v) })
	case "case-names-upper":
		out = mapNames(c.P, strings.ToUpper)
	case "case-names-capitalised":
		out = mapNames(c.P, func(k string) string { return strings.ToUpper(k[:1]) + k[1:] })
	case "case-names-and-values":
		out = mapNames(c.P, func(k string) string { return toggleCase(c.r, k) })
		for _, k := range safeKeys(c.kind) {
			out = editValueFold(out, k, strings.ToUpper)
		}
	case "case-whole-payload-upper":
		out = []byte(strings.ToUpper(string(c.P)))
	case "one-byte-changed":
		out = editValue(c.P, key, func(v string) string { return v[:len(v)-1] + string(v[len(v)-1]^0x01) })
	case "one-byte-appended":
		out = editValue(c.P, key, func(v string) string { return v + "x" })
	case "one-byte-removed":
		out = editValue(c.P, key, func(v string) string { return v[:len(v)-1] })
	case "same-length-different-bytes":
		out = editValue(c.P, key, func(v string) string {
			b := []byte(v)
			for i, j := 0, len(b)-1; i < j; i, j = i+1, j-1 {
				b[i], b[j] = b[j], b[i]
			}
			if string(b) == v {
				b[0] ^= 0x01
			}
			return string(b)
		})
	case "whitespace-only":
		switch c.r.IntN(3) {
		case 0:
			out = []byte(strings.Replace(string(c.P), ":", ": ", 1))
		case 1:
			out = []byte(strings.Replace(string(c.P), ",", ", ", 1))
		default:
			out = []byte(strings.Replace(string(c.P), ":", ":\t", 1))
		}
	}
	if string(out) == string(c.P) {
		return c.Evil, "far"
	}
	return out, kind + "(" + key + ")"
}

// editValueFold is editValue with a case-insensitive search for the member name.
func editValueFold(p []byte, key string, f func(string) string) []byte {
	s := string(p)
	pat := `"` + key + `":"`
	i := strings.Index(strings.ToLower(s), pat)
	if i < 0 {
		return p
	}
	i += len(pat)
	j := strings.IndexByte(s[i:], '"')
	if j < 0 {
		return p
	}
	return []byte(s[:i] + f(s[i:i+j]) + s[i+j:])
}
