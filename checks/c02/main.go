// C02 — only payloads signed by a trusted key with an allowed algorithm are believed.
//
// Six verifiers (rp.VerifyIDToken over the real remote key set and over a static set, op.VerifyAccessToken and
// op.VerifyIDTokenHint over the provider's OpenIDKeySet, op.VerifyJWTAssertion and op.ParseRequestObject over the
// per-client key set) and oidc.FindMatchingKey are driven with genuinely signed tokens and ~25 families of
// manipulations of them, crossed with key-set shapes and allow-lists. The oracle is a provenance ledger: an
// acceptance is legal only if the claims handed back are a payload the harness itself signed with a key that the
// verifier's trust set legitimately selects (see ref.go).
//
// Beyond single presentations: part R (rotation.go) follows one remote key set across a key rotation, part F
// (faults.go) across histories of rotations and failing JWKS downloads; the JWT-profile verifier is also used as a kept
// object that has verified another client's assertion before; the RP verifier is also taken from a relying party built
// by rp.NewRelyingPartyOIDC (allow-list by verifier option or from the discovery document). Every JWKS document the
// harness serves may also list entries no verifier can use for a signature (noise.go); part O (overlap.go) uses ONE
// verifier object of every kind for two overlapping calls, the first parked at each of its yield points in turn.
package main

import (
	"bytes"
	"crypto"
	"fmt"
	"sort"
	"strings"
	"time"

	"verif/internal/ev"
	"verif/internal/keys"
	"verif/internal/mon"
	"verif/internal/sched"
)

const opsPerCase = 5

func famsAllowed(A []string) []string {
	var out []string
	for _, f := range []string{"RSA", "P256", "P384", "P521", "OKP"} {
		for _, a := range famAlgs(f) {
			if allowed(A, a) {
				out = append(out, f)
				break
			}
		}
	}
	return out
}

func describeSet(S []ksEntry) []string {
	var out []string
	for _, e := range S {
		out = append(out, e.String())
	}
	return out
}

func perClient(v int) bool { return v == vAssertion || v == vRequestObject }

// legalFor applies the reference selection to the verifier's trust set(s).
func legalFor(c *caseCtx, v int, kid, alg string, signer crypto.PublicKey) (legal bool, grey, reason string) {
	if !allowed(c.A, alg) {
		return false, "", "alg-not-allowed"
	}
	if perClient(v) {
		// the storage selects the client's key by exact key ID; the statement's use/kid clauses speak about keys
		// selected from a published key set, so a use=enc client key is grey here
		for _, e := range c.S {
			if e.Kid == kid && samePub(e.K.Public(), signer) && fits(signer, alg, true) {
				if !usePermitsSig(e.Use) {
					return true, "client-key-with-use-enc", ""
				}
				return true, "", ""
			}
		}
		for _, e := range c.S {
			if samePub(e.K.Public(), signer) {
				return false, "", "kid-mismatch"
			}
		}
		for _, e := range c.peerS {
			if samePub(e.K.Public(), signer) {
				return false, "", "key-of-the-client-of-the-other-call-on-the-same-object"
			}
		}
		for _, e := range c.otherS {
			if samePub(e.K.Public(), signer) {
				return false, "", "key-of-the-subject-client-not-of-the-issuer"
			}
		}
		for _, e := range c.predS {
			if samePub(e.K.Public(), signer) {
				return false, "", "key-of-an-earlier-issuer-verified-by-the-same-verifier-object"
			}
		}
		return false, "", "untrusted-key"
	}
	legal, grey, reason = acceptLegal(c.S, kid, alg, signer)
	if !legal && reason == "untrusted-key" {
		for name, set := range c.foreign {
			for _, e := range set {
				if samePub(e.K.Public(), signer) {
					reason = "key-of-the-" + name + "-key-set-not-of-this-verifier's"
				}
			}
		}
	}
	if legal || c.cached == nil {
		return
	}
	if l2, g2, _ := acceptLegal(c.cached, kid, alg, signer); l2 {
		if g2 == "" {
			g2 = "legal-by-cached-key-set-only"
		}
		return true, g2, ""
	}
	return
}

func mustAcceptFor(c *caseCtx, v int, kid, alg string, signer crypto.PublicKey) bool {
	if !allowed(c.A, alg) {
		return false
	}
	if perClient(v) {
		if c.sub != c.who && !c.permissive {
			return false // the default SubjectIsIssuer check legitimately refuses before the signature is looked at
		}
		for _, e := range c.S {
			if e.Kid == kid {
				return samePub(e.K.Public(), signer) && usePermitsSig(e.Use) && fits(signer, alg, true)
			}
		}
		return false
	}
	if c.cached != nil && !sameSet(c.cached, c.S) {
		return false
	}
	return mustAccept(c.S, kid, alg, signer)
}

func sameSet(a, b []ksEntry) bool {
	if len(a) != len(b) {
		return false
	}
	for i := range a {
		if a[i].Kid != b[i].Kid || a[i].Use != b[i].Use || !samePub(a[i].K.Public(), b[i].K.Public()) {
			return false
		}
	}
	return true
}

func decidingStepReached(o outcome) bool {
	if o.accepted {
		return true
	}
	s := err2str(o.err)
	if strings.Contains(s, "invalid number of segments") || strings.Contains(s, "malformed jwt payload") {
		return false
	}
	switch errClass(o.err) {
	case "json", "claims-check", "other":
		return false
	}
	return true
}

func runCase(run *ev.Run, w *worker, v int, i int, onlyOp string) {
	r := run.CaseRand(uint64(20+v), i)
	vname := verifierNames[v]
	caseID := int64(i)*int64(len(verifierNames)) + int64(v)
	c := &caseCtx{r: r, idx: i, verifier: vname}
	switch v {
	case vRemote, vStatic, vHint:
		c.kind = pkIDToken
	case vAccess:
		c.kind = pkAccessToken
	case vAssertion:
		c.kind = pkAssertion
	default:
		c.kind = pkRequestObject
	}
	if !perClient(v) && r.IntN(5) >= 2 {
		c.allowIdx = 1 + r.IntN(len(allowLists)-1)
	}
	if v == vRemote {
		// construction dimension: where the application gets its ID token verifier from
		c.route = "direct"
		switch x := r.IntN(6); x {
		case 4:
			c.route = "relying-party+verifier-opts"
		case 5:
			c.route = "relying-party+discovery-algs"
			c.routeOrder = r.IntN(2)
			if c.allowIdx == 0 { // the announced list IS the allow-list on this route
				c.allowIdx = 1 + r.IntN(len(allowLists)-1)
			}
		}
	}
	c.A = allowLists[c.allowIdx]
	c.S = genKeySet(r, 4, perClient(v), famsAllowed(c.A))
	c.ksMode = "default"
	if (v == vAccess || v == vHint) && r.IntN(2) == 0 {
		// provider-option dimension: key sets configured apart from the storage's; three disjoint sets
		c.ksMode = ksModes[1+r.IntN(3)]
		pref := famsAllowed(c.A)
		c.storageS = genKeySet(r, 3, false, pref)
		if c.ksMode == "access-keyset" || c.ksMode == "both" {
			c.accessS = genKeySetExcluding(r, 2, pref, c.storageS)
		}
		if c.ksMode == "hint-keyset" || c.ksMode == "both" {
			c.hintS = genKeySetExcluding(r, 2, pref, c.storageS, c.accessS)
		}
		c.foreign = map[string][]ksEntry{}
		mine := "storage"
		switch {
		case v == vAccess && c.accessS != nil:
			mine = "access"
		case v == vHint && c.hintS != nil:
			mine = "hint"
		}
		for name, set := range map[string][]ksEntry{"storage": c.storageS, "access": c.accessS, "hint": c.hintS} {
			if set == nil {
				continue
			}
			if name == mine {
				c.S = set
			} else {
				c.foreign[name] = set
			}
		}
		c.signedBy = mine
	}
	cacheMode := "n/a"
	skipRemote := false
	if v == vRemote {
		switch x := r.IntN(8); {
		case x < 4:
			cacheMode = "cold"
		case x < 6:
			cacheMode, c.cached = "warm-same", c.S
		default:
			cacheMode, c.cached = "warm-other", genKeySet(r, 3, false, famsAllowed(c.A))
		}
		skipRemote = r.IntN(4) == 0 && c.route == "direct" // rp.SkipRemoteCheck cannot be handed to a relying party
		cacheMode += "/" + c.route
		// document dimension (own stream, so the other dimensions of a case are what they were without it): entries
		// no verifier can use, anywhere among the published keys of the served and / or the cached document
		if nr := run.CaseRand(uint64(40+v), i); nr.IntN(3) == 0 {
			c.noise = genNoise(nr, len(c.S), kidsOf(c.S))
			if len(c.S) >= 2 && nr.IntN(3) == 0 {
				c.noise[0].Before = 1 + nr.IntN(len(c.S)-1) // one of them between two usable entries
			}
			if c.cached != nil {
				switch nr.IntN(3) {
				case 0:
					c.cachedNoise = genNoise(nr, len(c.cached), kidsOf(c.cached))
				case 1:
					if strings.HasPrefix(cacheMode, "warm-same") {
						c.cachedNoise = c.noise
					}
				}
			}
			cacheMode += "/unusable-entries=" + noisePlacement(len(c.S), c.noise)
		}
	}
	marker := fmt.Sprintf("m%d-%d", v, i)
	now := time.Now()
	evilWho := "admin"
	if perClient(v) {
		c.who = fmt.Sprintf("client-%d-%d", v, i)
		evilWho = c.who
	} else {
		c.who = fmt.Sprintf("user-%d", i%97)
	}
	c.sub, c.subMode = c.who, "iss"
	if v == vAssertion {
		c.permissive = r.IntN(2) == 0
		switch x := r.IntN(10); {
		case x < 4:
		case x < 8:
			c.sub, c.subMode = fmt.Sprintf("client-%d-%d-other", v, i), "other-client"
			c.otherS = genOtherClientKeys(r, c.S)
		default:
			c.sub, c.subMode = fmt.Sprintf("client-%d-%d-unknown", v, i), "unknown"
		}
	}
	c.vlife = "per-call"
	if v == vAssertion {
		switch r.IntN(4) {
		case 2:
			c.vlife = "per-case"
		case 3:
			c.vlife = "per-worker"
		}
		if c.vlife != "per-call" {
			c.pred = fmt.Sprintf("client-%d-%d-pred", v, i)
			c.predS = genEarlierIssuerKeys(r, c.S, c.otherS)
		}
	}
	c.P = mkPayloadSub(c.kind, marker, c.who, c.sub, now, false)
	if v == vAssertion {
		c.Evil = mkPayloadSub(c.kind, "evil-"+marker, c.who, c.sub, now, false)
	} else {
		c.Evil = mkPayload(c.kind, "evil-"+marker, evilWho, now, v == vHint && r.IntN(3) == 0)
	}

	// signer, kid and algorithm of the genuinely signed base token
	var signer *keys.Key
	kid := ""
	c.signerOf = "unregistered"
	if c.pred != "" && r.IntN(4) == 0 {
		// signed with a key of the client whose assertion the same verifier object has verified just before (never a key
		// of the issuer), under that key's own kid - which may be a kid string the issuer uses for another key - or
		// under a kid of the issuer
		c.signerOf = "earlier-issuer"
		e := c.predS[r.IntN(len(c.predS))]
		signer = e.K
		switch x := r.IntN(10); {
		case x < 6:
			kid, c.kidMode = e.Kid, "earlier-issuer-key's-own"
			for _, a := range c.S {
				if a.Kid == kid {
					c.kidMode = "same-kid-registered-for-both-clients"
				}
			}
		case x < 9:
			kid, c.kidMode = c.S[r.IntN(len(c.S))].Kid, "issuer-key's"
		default:
			kid, c.kidMode = "", "absent"
		}
	} else if c.subMode == "other-client" && r.IntN(5) < 2 {
		// signed with a key registered for the client named in sub (not for the issuer), under that key's own kid -
		// which may be a kid string the issuer uses for a different key - or under a kid of the issuer
		c.signerOf = "sub-client"
		e := c.otherS[r.IntN(len(c.otherS))]
		signer = e.K
		switch x := r.IntN(10); {
		case x < 6:
			kid, c.kidMode = e.Kid, "sub-client-key's-own"
			for _, a := range c.S {
				if a.Kid == kid {
					c.kidMode = "same-kid-registered-for-both-clients"
				}
			}
		case x < 9:
			kid, c.kidMode = c.S[r.IntN(len(c.S))].Kid, "issuer-key's"
		default:
			kid, c.kidMode = "", "absent"
		}
	} else if len(c.foreign) > 0 && r.IntN(3) == 0 {
		// signed with a key of a key set that exists in this provider but is not this verifier's
		names := make([]string, 0, len(c.foreign))
		for n := range c.foreign {
			names = append(names, n)
		}
		sort.Strings(names)
		c.signedBy = pick(r, names...)
		set := c.foreign[c.signedBy]
		e := set[r.IntN(len(set))]
		signer = e.K
		switch x := r.IntN(10); {
		case x < 6:
			kid, c.kidMode = e.Kid, "foreign-key's-own"
		case x < 8:
			kid, c.kidMode = c.S[r.IntN(len(c.S))].Kid, "trusted-key's"
		default:
			kid, c.kidMode = "", "absent"
		}
	} else if r.IntN(4) != 0 {
		c.signerOf = "iss-client"
		c.signerIn = true
		ei := r.IntN(len(c.S))
		e := c.S[ei]
		signer = e.K
		switch x := r.IntN(20); {
		case x < 12:
			kid, c.kidMode = e.Kid, "key's-own"
			if kid == "" {
				c.kidMode = "absent(key-has-none)"
			}
		case x < 16:
			kid, c.kidMode = "", "absent"
		case x < 18:
			kid, c.kidMode = c.S[(ei+1)%len(c.S)].Kid, "other-key's"
			if kid == e.Kid {
				kid = "k9"
			}
		default:
			kid, c.kidMode = "zz", "unknown"
		}
	} else {
		if c.signedBy != "" {
			c.signedBy = "attacker"
		}
		t := c.S[r.IntN(len(c.S))]
		fam := poolOf(t.K).fam
		if r.IntN(4) == 0 {
			fam = pick(r, "RSA", "P256", "OKP")
		}
		signer = attackerFor(fam)
		switch x := r.IntN(10); {
		case x < 6:
			kid, c.kidMode = t.Kid, "copied"
		case x < 9:
			kid, c.kidMode = "", "absent"
		default:
			kid, c.kidMode = "zz", "unknown"
		}
	}
	algs := famAlgs(poolOf(signer).fam)
	var ok []string
	for _, a := range algs {
		if allowed(c.A, a) {
			ok = append(ok, a)
		}
	}
	alg := pick(r, algs...)
	if len(ok) > 0 && r.IntN(100) < 85 {
		alg = pick(r, ok...)
	}
	c.algMode = "outside-allow-list"
	if allowed(c.A, alg) {
		c.algMode = "allowed"
	}
	c.base = c.sign(signer, alg, kid, c.P, nil)
	useRaw := r.IntN(2) == 0
	present := w.prepare(c, useRaw, skipRemote)
	if c.pred != "" && onlyOp == "" {
		presentEarlierIssuer(run, c, present, marker, now, caseID)
	}

	// the genuine token plus a few manipulations of it
	list := []*presented{{Op: "genuine", Token: c.base.Token, Bound: c.base, NSig: 1, EffKid: kid}}
	perm := r.Perm(len(operators))
	want := opsPerCase - 1
	if r.IntN(2) == 0 { // the smuggling operator is the one the payload comparison exists for: over-sample it
		for j, o := range operators {
			if o.name == "json-smuggle" {
				perm = append([]int{j}, perm...)
			}
		}
	}
	seen := map[string]bool{}
	for _, oi := range perm {
		if len(list)-1 >= want {
			break
		}
		o := operators[oi]
		if seen[o.name] {
			continue
		}
		seen[o.name] = true
		pr := o.fn(c)
		if pr == nil {
			continue
		}
		pr.Op = o.name
		list = append(list, pr)
	}

	for _, pr := range list {
		if onlyOp != "" && pr.Op != onlyOp {
			continue
		}
		out := present(pr.Token)
		run.Eval()
		witness := func() map[string]any {
			wit := map[string]any{"verifier": vname, "operator": pr.Op, "variant": pr.Variant, "token": pr.Token, "key_set": describeSet(c.S),
				"allow_list": allowName(c.allowIdx), "base_signer": keyName(signer), "base_alg": alg, "base_kid": kid, "base_token": c.base.Token,
				"error": err2str(out.err), "claims_returned": out.m, "genuine_payload": string(c.P), "forged_payload": string(c.Evil),
				"claims_type": map[bool]string{true: "library type", false: "raw-capturing type"}[out.typed], "case": i}
			if c.ksMode != "" && c.ksMode != "default" {
				wit["provider_options"] = c.ksMode
				wit["storage_key_set"], wit["access_token_key_set(WithAccessTokenKeySet)"], wit["id_token_hint_key_set(WithIDTokenHintKeySet)"] = describeSet(c.storageS), describeSet(c.accessS), describeSet(c.hintS)
				wit["base_signer_from"] = c.signedBy
			}
			if v == vAssertion {
				wit["subject_check"] = map[bool]string{true: "op.SubjectCheck(func(*oidc.JWTTokenRequest) error { return nil })", false: "default SubjectIsIssuer"}[c.permissive]
				wit["iss"], wit["sub"], wit["signed_by_key_of"] = c.who, c.sub, c.signerOf
				wit["keys_registered_for_sub_client"] = describeSet(c.otherS)
				wit["verifier_object"] = vlifeText(c.vlife)
				if c.pred != "" {
					wit["earlier_issuer_verified_by_the_same_object"], wit["keys_registered_for_earlier_issuer"] = c.pred, describeSet(c.predS)
				}
			}
			if c.route != "" && c.route != "direct" {
				wit["verifier_from"] = routeText(c)
			}
			if c.cached != nil {
				wit["cached_key_set"] = describeSet(c.cached)
				wit["skip_remote_check"] = skipRemote
			}
			if len(c.noise) > 0 || len(c.cachedNoise) > 0 {
				wit["jwks_document_served"] = string(jwksBody(c.S, c.noise))
				wit["unusable_entries_of_the_served_document"] = c.noise
				wit["note_on_key_set"] = "key_set lists the usable entries of the served document in document order; the unusable entries (no signature algorithm has a use for them) stand where jwks_document_served shows them"
				if c.cached != nil {
					wit["jwks_document_cached"] = string(jwksBody(c.cached, c.cachedNoise))
				}
			}
			if pr.Bound != nil {
				wit["bound_signature"] = map[string]any{"signer": keyName(pr.Bound.Key), "alg": pr.Bound.Alg, "kid_declared": pr.EffKid, "payload": string(pr.Bound.Payload)}
			}
			return wit
		}
		if out.pi != nil {
			if out.pi.InRepo {
				run.Violation("C02:"+vname+":panic:"+out.pi.Site(), caseID, "verifier panicked: "+out.pi.Value, witness())
			} else if out.pi.Harness {
				run.HarnessBug("panic in harness: " + out.pi.Value + " at " + out.pi.Frame)
			} else {
				run.Violation("C02:"+vname+":panic:dependency", caseID, "verifier panicked outside library frames: "+out.pi.Value+"\n"+out.pi.Stack, witness())
			}
			continue
		}
		opKey := pr.Op
		if pr.Variant != "" && (pr.Op == "truncate" || pr.Op == "whitespace" || pr.Op == "parts-count" || pr.Op == "json-smuggle" || pr.Op == "header-edit") {
			vv := pr.Variant
			if i := strings.Index(vv, "("); i >= 0 {
				vv = vv[:i]
			}
			run.Count("variants", pr.Op+"/"+vv)
		}
		if decidingStepReached(out) {
			run.Distinct(strings.Join([]string{vname, pr.Op, pr.Variant, shapeSig(c.S), allowName(c.allowIdx), c.kidMode, fmt.Sprint(c.signerIn), c.algMode, cacheMode, fmt.Sprint(out.accepted), subjectDim(c, v), keySetDim(c)}, "|"))
		}
		if !out.accepted {
			ec := errClass(out.err)
			run.Count("rejected:"+vname, opKey+" -> "+ec)
			if pr.Op == "genuine" {
				if mustAcceptFor(c, v, kid, alg, signer.Public()) {
					key, extra := "C02:"+vname+":rejected-genuine", ""
					if c.pred != "" {
						key += ":verifier-object-reused"
						extra = " (the verifier object had verified the assertion of another client before)"
					}
					if c.route != "" && c.route != "direct" {
						key += ":" + c.route
					}
					if len(c.noise) > 0 {
						key += ":jwks-with-unusable-entries"
						extra += " (the served JWKS document also lists entries no verifier can use: " + noiseKindsOf(c.noise) + ")"
					}
					run.Violation(key, caseID,
						"an untouched genuinely signed token with a unique eligible published key and an allowed algorithm was rejected"+extra+": "+err2str(out.err), witness())
				} else {
					_, _, reason := legalFor(c, v, kid, alg, signer.Public())
					if reason == "" {
						reason = "legal-but-not-unique(grey)"
					}
					run.Count("genuine-rejected-because:"+vname, reason+" -> "+ec)
					if kd := keySetDim(c); kd != "" {
						run.Count("key-set-option:"+vname, kd+" -> rejected: "+ec)
						if c.signedBy != "attacker" && len(c.foreign) > 0 && c.foreign[c.signedBy] != nil && strings.HasPrefix(ec, "ErrSignatureInvalid") {
							run.Observed("key-of-another-key-set-refused-at-signature:" + vname)
						}
					}
					if c.route == "relying-party+discovery-algs" && c.algMode == "outside-allow-list" && ec == "ErrSignatureUnsupportedAlg" {
						run.Observed("relying-party:algorithm-outside-the-announced-list-refused")
					}
					if c.route == "relying-party+verifier-opts" && c.algMode == "outside-allow-list" && ec == "ErrSignatureUnsupportedAlg" {
						run.Observed("relying-party:algorithm-outside-the-verifier-option-list-refused")
					}
					if v == vAssertion && c.signerOf == "earlier-issuer" && strings.HasPrefix(ec, "ErrSignatureInvalid") && (c.permissive || c.subMode == "iss") {
						run.Observed("kept-verifier:earlier-issuer's-key-refused-at-signature")
					}
					if v == vAssertion {
						run.Count("subject-dimension:"+vname, subjectDim(c, v)+" kid="+c.kidMode+" -> rejected: "+ec)
						if c.permissive && c.signerOf == "sub-client" && strings.HasPrefix(ec, "ErrSignatureInvalid") {
							run.Observed("subject-clients-key-refused-at-signature:" + vname)
						}
					}
					if ec == "ErrSignatureInvalid(ErrKeyMultiple)" && kid == "" {
						run.Observed("ambiguity-reported:" + vname)
						if noiseBetweenCandidates(c.S, c.noise, alg) {
							run.Observed("jwks-unusable-entries:ambiguity-reported-with-one-between-the-candidates")
						}
					}
				}
			} else {
				if ec != "ErrParse" && ec != "json" && ec != "claims-check" && ec != "other" {
					run.Observed("forgery-rejected-at-signature:" + vname)
				}
				if (pr.Op == "json-smuggle" || pr.Op == "json-unprotected-kid") && ec == "ErrSignatureInvalidPayload" {
					run.Observed("smuggling-reached-payload-comparison:" + vname)
					if strings.Contains(pr.Variant, "/case-") {
						run.Observed("case-variant-smuggling-refused-by-payload-comparison:" + vname)
					}
					if i := strings.Index(pr.Variant, "/"); i >= 0 && pr.Op == "json-smuggle" {
						nk := pr.Variant[i+1:]
						if j := strings.Index(nk, "("); j >= 0 {
							nk = nk[:j]
						}
						run.Count("smuggled-payload-kind-refused-at-comparison:"+vname, nk)
					}
				}
			}
			sampleMaybe(run, vname, pr, out, c)
			continue
		}

		// ---- accepted: provenance ----
		fail := func(class, what string) {
			if len(c.noise) > 0 || len(c.cachedNoise) > 0 {
				class += ":jwks-with-unusable-entries"
				what += " (the JWKS document also lists entries no verifier can use: " + noiseKindsOf(append(append([]placedNoise{}, c.noise...), c.cachedNoise...)) + ")"
			}
			run.Violation("C02:"+vname+":accepted:"+class, caseID, what, witness())
		}
		if pr.Bound == nil {
			fail(pr.Op, "accepted a token that carries no signature the harness ever made over these bytes ("+pr.Op+"/"+pr.Variant+")")
			continue
		}
		if pr.NSig != 1 {
			fail(pr.Op, fmt.Sprintf("accepted a serialisation carrying %d signatures", pr.NSig))
			continue
		}
		legal, grey, reason := legalFor(c, v, pr.EffKid, pr.Bound.Alg, pr.Bound.Key.Public())
		if !legal {
			// the class names what made the acceptance illegal: the operator when it is the operator that put an
			// illegitimate signature on the token, otherwise the reason the (unchanged) base signature is not to be believed
			class := pr.Op
			if pr.Bound == c.base || pr.Op == "json-unprotected-kid" {
				class = reason
			}
			fail(class, fmt.Sprintf("accepted a signature by %s (alg %s, kid %q) that the trust set does not legitimately select: %s", keyName(pr.Bound.Key), pr.Bound.Alg, pr.EffKid, reason))
			continue
		}
		// the claims handed back must be the payload that signature covers
		var same bool
		var how string
		expM, _ := decodeMap(pr.Bound.Payload)
		switch {
		case out.raw != nil:
			same, how = bytes.Equal(trimJSONSpace(out.raw), trimJSONSpace(pr.Bound.Payload)), "bytes"
		case v == vRequestObject:
			proj := map[string]any{}
			for _, k := range []string{"state", "nonce", "redirect_uri", "scope"} {
				proj[k] = expM[k]
			}
			same, how = mapsEqual(out.m, proj), "request-object fields"
		default:
			same, how = mapsEqual(out.m, expM), "decoded JSON"
		}
		if !same {
			what := "the claims handed back are not the payload the accepted signature covers (compared as " + how + "; differing members: " + diffKeys(out.m, expM) + ")"
			if pr.Seen != nil && !bytes.Equal(pr.Seen, pr.Bound.Payload) {
				if sm, ok := decodeMap(pr.Seen); ok && (mapsEqual(out.m, sm) || (out.raw != nil && bytes.Equal(trimJSONSpace(out.raw), trimJSONSpace(pr.Seen)))) {
					what = "the claims handed back are the smuggled, never signed payload instead of the payload the signature covers"
				}
			}
			run.Violation("C02:"+vname+":claims-differ", caseID, what, witness())
			continue
		}
		run.Count("accepted:"+vname, opKey)
		if grey != "" {
			run.Count("grey:"+vname, grey)
		}
		if out.note != "" {
			run.Count("grey:"+vname, out.note)
		}
		if pr.Op == "genuine" {
			run.Observed("accept-genuine:" + vname)
			if kd := keySetDim(c); kd != "" {
				run.Count("key-set-option:"+vname, kd+" -> accepted")
				if (v == vAccess && c.accessS != nil) || (v == vHint && c.hintS != nil) {
					run.Observed("configured-key-set-honoured:" + vname)
				} else {
					run.Observed("storage-keys-kept-when-only-the-other-key-set-is-configured:" + vname)
				}
			}
			if c.route != "" && c.route != "direct" {
				run.Observed("relying-party:accept-genuine:" + c.route)
				run.Count("relying-party-route", c.route+" allow-list="+allowName(c.allowIdx)+" -> accepted "+alg)
			}
			if c.pred != "" {
				run.Observed("kept-verifier:accept-genuine-after-earlier-issuer:" + c.vlife)
			}
			if len(c.noise) > 0 {
				for _, n := range c.noise {
					run.Observed("jwks-unusable-entries:kind:" + n.Kind)
					run.Count("unusable-jwks-entry:rp-remote", n.Kind+" -> genuine token of a usable key accepted")
				}
				for ei, e := range c.S {
					if samePub(e.K.Public(), signer.Public()) && usableAfterNoise(c.noise, ei) {
						run.Observed("jwks-unusable-entries:genuine-of-a-key-listed-after-one-accepted")
					}
				}
			}
			if v == vAssertion {
				run.Count("subject-dimension:"+vname, subjectDim(c, v)+" kid="+c.kidMode+" -> accepted")
				if c.permissive && c.subMode == "other-client" {
					run.Observed("delegated-subject-accepted-under-issuer-key:" + vname)
				}
			}
		}
		sampleMaybe(run, vname, pr, out, c)
	}
}

// presentEarlierIssuer hands the genuine assertion of another registered client (iss = sub = pred, signed with pred's
// own key under its own kid, allowed algorithm) to the verifier object the case keeps. It is judged like every other
// genuine token: it must be accepted and the claims handed back must be the signed payload.
func presentEarlierIssuer(run *ev.Run, c *caseCtx, present func(string) outcome, marker string, now time.Time, caseID int64) {
	e := c.predS[0]
	alg := ""
	for _, a := range famAlgs(poolOf(e.K).fam) {
		if allowed(c.A, a) {
			alg = a
			break
		}
	}
	if alg == "" {
		panic("c02: earlier issuer's key has no allowed algorithm")
	}
	payload := mkPayloadSub(pkAssertion, "pred-"+marker, c.pred, c.pred, now, false)
	ent := c.sign(e.K, alg, e.Kid, payload, nil)
	out := present(ent.Token)
	run.Eval()
	wit := map[string]any{"verifier": c.verifier, "verifier_object": vlifeText(c.vlife), "token": ent.Token, "iss": c.pred, "sub": c.pred, "signer": keyName(e.K), "alg": alg, "kid": e.Kid,
		"keys_registered_for_this_client": describeSet(c.predS), "error": err2str(out.err), "claims_returned": out.m, "case": c.idx}
	switch {
	case out.pi != nil && out.pi.InRepo:
		run.Violation("C02:"+c.verifier+":panic:"+out.pi.Site(), caseID, "verifier panicked: "+out.pi.Value, wit)
	case out.pi != nil:
		run.HarnessBug("panic while presenting the earlier issuer's assertion: " + out.pi.Value + " at " + out.pi.Frame)
	case !out.accepted:
		run.Count("rejected:"+c.verifier, "earlier-issuer-genuine -> "+errClass(out.err))
		run.Violation("C02:"+c.verifier+":rejected-genuine:verifier-object-reused", caseID,
			"a kept verifier object rejected the untouched genuine assertion of a registered client (own key, own kid, allowed algorithm, sub = iss): "+err2str(out.err), wit)
	default:
		expM, _ := decodeMap(payload)
		if !mapsEqual(out.m, expM) {
			run.Violation("C02:"+c.verifier+":claims-differ", caseID, "the claims handed back are not the payload the accepted signature covers (differing members: "+diffKeys(out.m, expM)+")", wit)
			return
		}
		run.Count("accepted:"+c.verifier, "earlier-issuer-genuine")
		run.Observed("kept-verifier:earlier-issuer-accepted:" + c.vlife)
	}
}

func keySetDim(c *caseCtx) string {
	if c.ksMode == "" || c.ksMode == "default" {
		return ""
	}
	return "provider-option=" + c.ksMode + "/signed-by=" + c.signedBy
}

func subjectDim(c *caseCtx, v int) string {
	if v != vAssertion {
		return ""
	}
	chk := "SubjectIsIssuer"
	if c.permissive {
		chk = "permissive-SubjectCheck"
	}
	return chk + "/sub=" + c.subMode + "/signed-by=" + c.signerOf + "/verifier-object=" + c.vlife
}

func vlifeText(l string) string {
	switch l {
	case "per-case":
		return "one *op.JWTProfileVerifier (op.NewJWTProfileVerifier) kept for all presentations of this case; it verified the earlier issuer's genuine assertion first"
	case "per-worker":
		return "one long-lived *op.JWTProfileVerifier (op.NewJWTProfileVerifier) that has verified assertions of many clients; the earlier issuer's genuine assertion immediately before"
	}
	return "built for every call (Provider.JWTProfileVerifier / op.NewJWTProfileVerifier)"
}

func routeText(c *caseCtx) string {
	switch c.route {
	case "relying-party+verifier-opts":
		return "rp.NewRelyingPartyOIDC(..., rp.WithVerifierOpts(rp.WithSupportedSigningAlgorithms(allow-list))).IDTokenVerifier(); discovery announces every algorithm"
	case "relying-party+discovery-algs":
		return fmt.Sprintf("rp.NewRelyingPartyOIDC(..., rp.WithSigningAlgsFromDiscovery() as option #%d of 2).IDTokenVerifier(); id_token_signing_alg_values_supported = allow-list", c.routeOrder)
	}
	return "rp.NewIDTokenVerifier over rp.NewRemoteKeySet"
}

func sampleMaybe(run *ev.Run, vname string, pr *presented, out outcome, c *caseCtx) {
	kind := ""
	switch {
	case pr.Op == "genuine" && out.accepted && vname == "rp-remote":
		kind = "genuine accepted (rp-remote)"
	case pr.Op == "json-smuggle" && errClass(out.err) == "ErrSignatureInvalidPayload" && vname == "op-access-token":
		kind = "smuggled payload refused by the payload comparison (op-access-token)"
	case pr.Op == "hmac-pubkey" && vname == "rp-static" && c.allowIdx >= 4:
		kind = "HMAC keyed with the public key, HS256 in the allow-list (rp-static)"
	case pr.Op == "genuine" && errClass(out.err) == "ErrSignatureInvalid(ErrKeyMultiple)" && vname == "op-id-token-hint":
		kind = "kid-less token, several candidate keys: ambiguity reported (op-id-token-hint)"
	case pr.Op == "alg-none" && vname == "op-jwt-assertion":
		kind = "alg=none (op-jwt-assertion)"
	case pr.Op == "json-multisig" && vname == "op-request-object":
		kind = "two signatures (op-request-object)"
	case pr.Op == "whitespace" && out.accepted:
		kind = "whitespace tolerated, still bound to the signed bytes"
	case pr.Op == "wrong-key-same-kid" && vname == "op-access-token":
		kind = "same kid, wrong key (op-access-token)"
	}
	if kind == "" {
		return
	}
	run.SampleKind(kind, map[string]any{"operator": pr.Op, "variant": pr.Variant, "token": pr.Token, "key_set": describeSet(c.S), "allow_list": allowName(c.allowIdx),
		"accepted": out.accepted, "error": err2str(out.err)})
}

func main() {
	run := ev.Start("C02", "exploration")
	run.SetRule("per case: one verifier, one key-set shape (1-4 published keys x kid/no-kid/duplicate kid x use sig/enc/none x RSA/P-256/P-384/P-521/Ed25519), one allow-list (default or 5 explicit ones), " +
		"one genuinely signed token (signer published or not, kid own/absent/other/unknown, algorithm allowed or not) presented untouched and under 4 of 23 manipulation operators; every presentation is one evaluation; " +
		"distinct = distinct vectors (verifier, operator, variant, key-set shape, allow-list, kid mode, signer published, alg allowed, cache mode, accepted) among presentations that got past ParseToken/claim checks to the signature step; " +
		"smuggled payloads are the far forged payload or one at small edit distance from the signed one (letter case of values / names / both, one byte changed / appended / removed, same length, whitespace only) in 7 placements; " +
		"op-access-token and op-id-token-hint additionally run against providers configured with op.WithAccessTokenKeySet / op.WithIDTokenHintKeySet / both (three disjoint key sets: storage, access, hint; signer drawn from any of them or an attacker key); " +
		"op-jwt-assertion additionally varies the subject check (default / permissive), sub (= iss / other registered client / unknown), whose key signed, and the life time of the verifier OBJECT " +
		"(built per call / one op.NewJWTProfileVerifier object kept for the case / one long-lived object per worker): a kept object first verifies the genuine assertion of another registered client, and one base token in four is signed with that earlier issuer's key; " +
		"rp-remote additionally varies where the verifier comes from (rp.NewIDTokenVerifier / the ID token verifier of rp.NewRelyingPartyOIDC with rp.WithVerifierOpts / with rp.WithSigningAlgsFromDiscovery against a discovery document announcing exactly the allow-list); " +
		"part F: 1000 (thorough 30000) histories over ONE remote key set and verifier (direct, SkipRemoteCheck, relying party): publish / rotate (6 modes) / the JWKS endpoint fails for the next 1-2 downloads in one of 7 ways / recovers, " +
		"interleaved with 9-16 presentations of tokens by currently published, stored, withdrawn, never published and foreign keys, each judged against the exact record of what every download returned; " +
		"every served JWKS document (rp-remote sweep 1 case in 3, part R 1 in 3, part F 1 document in 4, part O rp-remote 1 in 4) may also list 1-3 entries no verifier can use for a signature " +
		"(12 kinds: X25519 / X448 key-agreement keys, unknown kty, RSA with damaged or missing members, EC on an unsupported curve or with a point off the curve, kty missing, string / null / number instead of an object, a symmetric key), " +
		"before, between and after the usable keys, with a key ID of their own, none, or one a usable key carries; " +
		"part O: 1800 (thorough 36000) cases, 300 per verifier: ONE verifier object (kept *op.JWTProfileVerifier; one storage for request objects; one provider or one kept access-token / id_token_hint verifier object; one *rp.IDTokenVerifier over a static / a remote key set, cold or warm, with or without SkipRemoteCheck), " +
		"kept for the case or built fresh for every overlap, two tokens A and B (7 / 6 pair kinds: forged by the peer client vs the peer's genuine token made with the same key, unpublished key under a published kid vs the genuine token of that kid, genuine/genuine, algorithm outside the allow-list vs genuine, random manipulated tokens) " +
		"presented A, B, A in sequence and then overlapping: A parked at EVERY one of its yield points (library spans, vstore storage calls, the harness' key set / subject check / claims decoder callbacks; internal/sched) while B runs to completion, roles swapped afterwards; every call is one evaluation judged on its own; " +
		"oidc.FindMatchingKey is enumerated completely over all key sets of <=3 keys x kid in {none,a,b} x use in {sig,enc,none} x {RSA,EC P-256,EC P-384,Ed25519} x 4 token kids x 9 algorithms and sampled for 4-5 keys")
	run.Assume("acceptance is judged by provenance (the harness' ledger of what it signed), never by string equality with what was serialised",
		"per-client keys (JWT assertion, request object) are selected by the storage by exact key ID; a client key registered with use=enc is grey there",
		"op-access-token / op-id-token-hint: the trust set is exactly the key set the provider was configured with for that verifier (op.WithAccessTokenKeySet / op.WithIDTokenHintKeySet), the storage's published keys when none is configured",
		"op-jwt-assertion: the trust set is the keys the storage holds for the client named in iss, whatever sub says; with the default SubjectIsIssuer check a token with sub != iss may be refused before the signature is looked at",
		"a token with kid facing several kid-less candidate keys is grey (DESIGN 6a); an EC key of another curve counts as a candidate for ambiguity only in favour of the library",
		"remote key set: an acceptance is legal if it is legal for the cached or for the currently served document; must-accept only when both agree",
		"remote key set after a rotation (part R): once two further downloads have been observed at the JWKS endpoint the first one's result is stored, and only the keys of the document published now are trusted",
		"op-jwt-assertion, kept verifier objects: what an object verified before changes nothing - the trust set of an assertion is the keys registered for the client named in ITS iss",
		"rp-remote through a relying party: the allowed list is what rp.WithVerifierOpts(rp.WithSupportedSigningAlgorithms) names, with rp.WithSigningAlgsFromDiscovery what the discovery document announces; the two are never combined in one case",
		"remote key set under endpoint faults (part F): the key set may go on trusting the document of its last successful download until another download succeeds; a failed download adds no trust; "+
			"a genuine token of a currently published key must be accepted when the endpoint answers the next download properly, whatever failed before; refusing while the endpoint fails is grey. "+
			"Between presentations the case waits (goroutine dump) until the download goroutine the key set started for it has ended, so 'stored' is exact; a wait that never ends is inconclusive",
		"JWKS entries no verifier can use for a signature (undecodable, of a key-agreement / unknown / symmetric type, not even an object) are not keys of the configured key set as far as signatures go: "+
			"the trust set is the other entries of the document, all of them, wherever they stand - both for 'ambiguity must be reported' and for 'a genuine token with a unique eligible key must be accepted' (RFC 7517 section 5: such entries are to be ignored; the library documents the same intent)",
		"overlapping calls on one verifier object (part O): what another call on the same object does meanwhile changes nothing - each call is judged exactly as a sequential presentation of its token; "+
			"the interleavings are forced at yield points (no sleeps); a running call that cannot finish while the other is parked is inconclusive",
		"a payload of JSON null is C09's subject and is not generated here")
	var mand []string
	for v, n := range verifierNames {
		mand = append(mand, "accept-genuine:"+n, "forgery-rejected-at-signature:"+n, "smuggling-reached-payload-comparison:"+n,
			"case-variant-smuggling-refused-by-payload-comparison:"+n)
		if v == vAccess || v == vHint {
			mand = append(mand, "configured-key-set-honoured:"+n, "storage-keys-kept-when-only-the-other-key-set-is-configured:"+n,
				"key-of-another-key-set-refused-at-signature:"+n)
		}
		if !perClient(v) {
			mand = append(mand, "ambiguity-reported:"+n)
		}
	}
	mand = append(mand, "delegated-subject-accepted-under-issuer-key:op-jwt-assertion", "subject-clients-key-refused-at-signature:op-jwt-assertion")
	mand = append(mand, "rotation:withdrawn-judged", "rotation:published-judged", "rotation:refresh-proven:empty", "rotation:refresh-proven:withdraw-one", "rotation:refresh-proven:disjoint")
	mand = append(mand, "relying-party:accept-genuine:relying-party+verifier-opts", "relying-party:accept-genuine:relying-party+discovery-algs",
		"relying-party:algorithm-outside-the-announced-list-refused", "relying-party:algorithm-outside-the-verifier-option-list-refused")
	mand = append(mand, "kept-verifier:earlier-issuer-accepted:per-case", "kept-verifier:earlier-issuer-accepted:per-worker",
		"kept-verifier:accept-genuine-after-earlier-issuer:per-case", "kept-verifier:accept-genuine-after-earlier-issuer:per-worker",
		"kept-verifier:earlier-issuer's-key-refused-at-signature")
	mand = append(mand, "faults:download-goroutine-identified", "faults:published-key-accepted-by-a-download-after-a-failed-one",
		"faults:accepted-after-the-first-download-ever-failed", "faults:withdrawn-key-refused-after-a-failed-download-and-a-refresh",
		"faults:history-completed:direct", "faults:history-completed:direct-skip-remote-check", "faults:history-completed:relying-party")
	for _, k := range faultKinds {
		mand = append(mand, "faults:kind:"+k)
	}
	mand = append(mand, noiseMandatory()...)
	mand = append(mand, overlapMandatory()...)
	mand = append(mand, "FindMatchingKey:enumeration-complete", "FindMatchingKey:ambiguity-seen", "FindMatchingKey:exact-seen", "FindMatchingKey:unique-kidless-seen")
	run.Mandatory(mand...)
	initPool()
	probeNoise(run)

	n := run.N(6000, 60000)
	if rc := run.ReplayCase(); rc >= 0 {
		for _, m := range mand { // a single replayed case cannot observe every scenario
			run.Observed(m)
		}
		if rc >= overlapBase {
			sched.Install()
			runOverlap(run, newWorker(), int(rc-overlapBase))
			run.Distinct("replay-a")
			run.Distinct("replay-b")
			run.Finish()
		}
		if rc >= faultBase {
			runFaults(run, int(rc-faultBase))
			run.Distinct("replay-a")
			run.Distinct("replay-b")
			run.Finish()
		}
		if rc >= rotationBase {
			runRotation(run, int(rc-rotationBase))
			run.Distinct("replay-a")
			run.Distinct("replay-b")
			run.Finish()
		}
		if rc >= findKeyBase {
			replayFindKey(run, rc)
			run.Finish()
		}
		w := newWorker()
		runCase(run, w, int(rc%int64(len(verifierNames))), int(rc/int64(len(verifierNames))), "")
		run.Distinct("replay-a")
		run.Distinct("replay-b")
		run.Finish()
	}
	t0 := time.Now()
	workers := make([]*worker, 16)
	ev.Parallel(n*len(verifierNames), 0, func(wk int, j int) {
		if workers[wk] == nil {
			workers[wk] = newWorker()
		}
		if pi := mon.Catch(func() { runCase(run, workers[wk], j%len(verifierNames), j/len(verifierNames), "") }); pi != nil {
			run.HarnessBug(fmt.Sprintf("case %d: panic outside a monitored library call: %s at %s", j, pi.Value, pi.Frame))
		}
	})
	ev.Parallel(rotationCount(run), 0, func(_ int, j int) {
		if pi := mon.Catch(func() { runRotation(run, j) }); pi != nil {
			run.HarnessBug(fmt.Sprintf("rotation case %d: panic outside a monitored library call: %s at %s", j, pi.Value, pi.Frame))
		}
	})
	to := time.Now()
	sched.Install()
	ev.Parallel(overlapCount(run), 0, func(wk int, j int) {
		if workers[wk] == nil {
			workers[wk] = newWorker()
		}
		if pi := mon.Catch(func() { runOverlap(run, workers[wk], j) }); pi != nil {
			run.HarnessBug(fmt.Sprintf("overlap case %d: panic outside a monitored library call: %s at %s", j, pi.Value, pi.Frame))
		}
	})
	tf := time.Now()
	if probeDownloadGoroutine(run) {
		ev.Parallel(faultCount(run), 0, func(_ int, j int) {
			if pi := mon.Catch(func() { runFaults(run, j) }); pi != nil {
				run.HarnessBug(fmt.Sprintf("fault history %d: panic outside a monitored library call: %s at %s", j, pi.Value, pi.Frame))
			}
		})
	}
	t1 := time.Now()
	runFindKey(run)
	run.Extra("fault_histories_goroutine_dumps", map[string]float64{"dumps": float64(dumpN), "seconds": float64(dumpNs) / 1e9})
	run.Extra("phase_wall_s", map[string]float64{"verifiers+rotation": to.Sub(t0).Seconds(), "overlapping-calls": tf.Sub(to).Seconds(), "fault-histories": t1.Sub(tf).Seconds(), "FindMatchingKey": time.Since(t1).Seconds()})
	run.Finish()
}
