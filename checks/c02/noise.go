package main

// Key-set documents with entries NO verifier can use for a signature.
//
// The statement quantifies over every key set, "mixed key types" included: a provider may publish, next to its signing
// keys, key-agreement keys (RFC 8037 X25519), keys of a type invented after this library was written, keys on a curve
// the JOSE dependency does not implement, and a broken provider may publish entries with members missing or damaged.
// Such an entry is a key of no signature algorithm; the configured key set, as far as signatures go, is the OTHER
// entries - all of them, wherever in the document they stand. So the reference model (ref.go) simply does not see the
// unusable entries: a kid-less token facing two usable candidates is ambiguous whether or not an unusable entry stands
// between them, and a genuine token of a usable key is a genuine token whether that key is listed before or after one.
//
// The dimension is applied wherever the harness serves a JWKS document: the rp-remote verifier of the main sweep
// (served and cached document), part R and part F.

import (
	"encoding/json"
	"fmt"
	"math/rand/v2"
	"strings"
	"sync"

	jose "github.com/go-jose/go-jose/v4"

	"verif/internal/ev"
)

type noiseKind struct {
	name string
	// tmpl is the JSON of the entry; %s is replaced by the kid member (`"kid":"...",` or nothing)
	tmpl string
}

var noiseKinds = []noiseKind{
	// RFC 8037 appendix A.6: a key agreement key; go-jose knows Ed25519 only for kty OKP
	{"okp-x25519", `{%s"kty":"OKP","crv":"X25519","use":"enc","x":"3p7bfXt9wbTTW2HC7OQ1Nz-DQ8hbeGdNrfx-FG-IK08"}`},
	{"okp-x448-no-use", `{%s"kty":"OKP","crv":"X448","x":"mwj3zDG34-Z9ItWuoSEHSic70rg94Jxj-qc9LCLF2bvINmRyQdlT1AxbEtqIEg1TF3-A5TLEH6A"}`},
	{"unknown-kty", `{%s"kty":"AKP","alg":"ML-DSA-44","use":"sig","pub":"AAECAwQFBgcICQoLDA0ODw"}`},
	{"rsa-modulus-not-base64", `{%s"kty":"RSA","use":"sig","alg":"RS256","n":"@@not base64@@","e":"AQAB"}`},
	{"rsa-members-missing", `{%s"kty":"RSA","use":"sig"}`},
	{"ec-unsupported-curve", `{%s"kty":"EC","crv":"secp256k1","use":"sig","x":"WKn-ZIGevcwGIyyrzFoZNBdaq9_TsqzGl96oc0CWuis","y":"y77t-RvAHRKTsSGdIYUfweuOvwrvDD-Q3Hv5J0fSKbE"}`},
	{"ec-point-not-on-curve", `{%s"kty":"EC","crv":"P-256","use":"sig","x":"AAAAAAAAAAAAAAAAAAAAAAAAAAAAAAAAAAAAAAAAAAE","y":"AAAAAAAAAAAAAAAAAAAAAAAAAAAAAAAAAAAAAAAAAAE"}`},
	{"kty-missing", `{%s"use":"sig","alg":"RS256"}`},
	{"not-an-object:string", `"rotating, come back later"`},
	{"not-an-object:null", `null`},
	{"not-an-object:number", `17`},
	// a symmetric key decodes, but it is a key of no asymmetric algorithm; tokens under HS* keyed with published
	// material are the hmac-pubkey operator's business
	{"oct-symmetric", `{%s"kty":"oct","k":"c2VjcmV0LXNlY3JldC1zZWNyZXQtc2VjcmV0LXNlY3JldA"}`},
}

// placedNoise is one unusable entry and the number of usable entries that stand before it in the document.
type placedNoise struct {
	Kind   string `json:"kind"`
	Before int    `json:"usable_entries_before_it"`
	JSON   string `json:"entry"`
}

func (n noiseKind) render(kid string) string {
	if !strings.Contains(n.tmpl, "%s") {
		return n.tmpl
	}
	member := ""
	if kid != "" {
		kb, _ := json.Marshal(kid)
		member = `"kid":` + string(kb) + `,`
	}
	return fmt.Sprintf(n.tmpl, member)
}

// genNoise draws 1-3 unusable entries for a document of nUsable usable ones. Their key IDs are absent, a key ID the
// generator also gives to usable keys (k1..k3), or one of their own.
func genNoise(r *rand.Rand, nUsable int, kidsInUse []string) []placedNoise {
	n := 1
	if r.IntN(3) == 0 {
		n = 2 + r.IntN(2)
	}
	var out []placedNoise
	for j := 0; j < n; j++ {
		k := noiseKinds[r.IntN(len(noiseKinds))]
		kid := ""
		switch x := r.IntN(10); {
		case x < 3:
		case x < 6 && len(kidsInUse) > 0:
			kid = kidsInUse[r.IntN(len(kidsInUse))]
		case x < 8:
			kid = fmt.Sprintf("k%d", 1+r.IntN(3))
		default:
			kid = fmt.Sprintf("unusable-%d", r.IntN(100))
		}
		out = append(out, placedNoise{Kind: k.name, Before: r.IntN(nUsable + 1), JSON: k.render(kid)})
	}
	return out
}

// jwksBody assembles the document: the usable entries in order, every unusable entry after `Before` usable ones.
func jwksBody(S []ksEntry, noise []placedNoise) []byte {
	var parts []string
	put := func(pos int) {
		for _, n := range noise {
			if n.Before == pos {
				parts = append(parts, n.JSON)
			}
		}
	}
	for i, e := range S {
		put(i)
		b, err := json.Marshal(e.jwk())
		if err != nil {
			panic(err)
		}
		parts = append(parts, string(b))
	}
	put(len(S))
	return []byte(`{"keys":[` + strings.Join(parts, ",") + `]}`)
}

// noisePlacement names where the unusable entries stand relative to the usable ones (a dimension of `distinct`).
func noisePlacement(nUsable int, noise []placedNoise) string {
	if len(noise) == 0 {
		return "none"
	}
	first, mid, last := false, false, false
	for _, n := range noise {
		switch {
		case nUsable == 0:
			first = true
		case n.Before == 0:
			first = true
		case n.Before >= nUsable:
			last = true
		default:
			mid = true
		}
	}
	var s []string
	if first {
		s = append(s, "first")
	}
	if mid {
		s = append(s, "between")
	}
	if last {
		s = append(s, "last")
	}
	return strings.Join(s, "+")
}

// usableAfterNoise: does some unusable entry stand before the usable entry number idx?
func usableAfterNoise(noise []placedNoise, idx int) bool {
	for _, n := range noise {
		if n.Before <= idx {
			return true
		}
	}
	return false
}

func noiseKindsOf(noise []placedNoise) string {
	var out []string
	for _, n := range noise {
		out = append(out, n.Kind)
	}
	return strings.Join(out, ", ")
}

// noiseBetweenCandidates: for a kid-less token of algorithm alg, does an unusable entry stand between (or right before
// the last of) the usable candidates?
func noiseBetweenCandidates(S []ksEntry, noise []placedNoise, alg string) bool {
	sel := selectRef(S, "", alg, false)
	if len(sel.loose) < 2 {
		return false
	}
	lo, hi := sel.loose[0], sel.loose[len(sel.loose)-1]
	for _, n := range noise {
		if n.Before > lo && n.Before <= hi {
			return true
		}
	}
	return false
}

func kidsOf(S []ksEntry) []string {
	var out []string
	for _, e := range S {
		if e.Kid != "" {
			out = append(out, e.Kid)
		}
	}
	return out
}

var noiseProbeOnce sync.Once

// probeNoise records, for the reader of the evidence, what the JOSE dependency makes of every kind of unusable entry
// (no verdict depends on it: the reference model ignores the entries whatever a decoder says).
func probeNoise(run *ev.Run) {
	noiseProbeOnce.Do(func() {
		for _, k := range noiseKinds {
			err := new(jose.JSONWebKey).UnmarshalJSON([]byte(k.render("probe")))
			what := "decodes"
			if err != nil {
				what = "fails to decode"
			}
			run.Count("unusable-jwks-entry:go-jose", k.name+" -> "+what)
		}
	})
}

func noiseMandatory() []string {
	m := []string{
		"jwks-unusable-entries:genuine-of-a-key-listed-after-one-accepted",
		"jwks-unusable-entries:ambiguity-reported-with-one-between-the-candidates",
		"jwks-unusable-entries:part-R:published-key-listed-after-one-accepted",
		"jwks-unusable-entries:part-F:published-key-listed-after-one-accepted",
	}
	for _, k := range noiseKinds {
		m = append(m, "jwks-unusable-entries:kind:"+k.name)
	}
	return m
}
