package main

// Generators: key pool, key-set shapes, allow-lists, payloads, the genuinely signed base token.

import (
	"encoding/json"
	"fmt"
	"math/rand/v2"
	"sort"
	"strings"
	"sync"
	"time"

	jose "github.com/go-jose/go-jose/v4"

	"verif/internal/keys"
)

type poolKey struct {
	name string
	fam  string // RSA, P256, P384, P521, OKP
	k    *keys.Key
}

var (
	trustPool  []poolKey // keys that may be published
	attackPool []poolKey // keys that are never published
	allPool    []poolKey
)

func initPool() {
	spec := []struct {
		name, fam string
		alg       jose.SignatureAlgorithm
		attacker  bool
	}{
		{"R1", "RSA", jose.RS256, false}, {"R2", "RSA", jose.RS256, false}, {"R3", "RSA", jose.RS256, false},
		{"E1", "P256", jose.ES256, false}, {"E2", "P256", jose.ES256, false}, {"E3", "P256", jose.ES256, false},
		{"F1", "P384", jose.ES384, false}, {"G1", "P521", jose.ES512, false},
		{"D1", "OKP", jose.EdDSA, false}, {"D2", "OKP", jose.EdDSA, false},
		{"XR", "RSA", jose.RS256, true}, {"XE", "P256", jose.ES256, true}, {"XF", "P384", jose.ES384, true},
		{"XG", "P521", jose.ES512, true}, {"XD", "OKP", jose.EdDSA, true},
	}
	out := make([]poolKey, len(spec))
	var wg sync.WaitGroup
	for i, s := range spec {
		wg.Add(1)
		go func() {
			defer wg.Done()
			out[i] = poolKey{name: s.name, fam: s.fam, k: keys.Get("c02-"+s.name, s.alg)}
		}()
	}
	wg.Wait()
	for i, s := range spec {
		if s.attacker {
			attackPool = append(attackPool, out[i])
		} else {
			trustPool = append(trustPool, out[i])
		}
	}
	allPool = out
}

func famAlgs(fam string) []string {
	switch fam {
	case "RSA":
		return []string{"RS256", "RS384", "RS512", "PS256", "PS384", "PS512"}
	case "P256":
		return []string{"ES256"}
	case "P384":
		return []string{"ES384"}
	case "P521":
		return []string{"ES512"}
	case "OKP":
		return []string{"EdDSA"}
	}
	return nil
}

func poolOf(k *keys.Key) poolKey {
	for _, p := range allPool {
		if samePub(p.k.Public(), k.Public()) {
			return p
		}
	}
	panic("c02: key not in pool")
}

func pick[T any](r *rand.Rand, xs ...T) T { return xs[r.IntN(len(xs))] }

// allow-lists (index 0 = library default)
var allowLists = [][]string{
	nil,
	{"RS256"},
	{"ES256", "ES384", "EdDSA"},
	{"RS256", "RS384", "RS512", "PS256", "PS384", "PS512", "ES256", "ES384", "ES512", "EdDSA"},
	{"HS256", "RS256", "PS512", "ES512"},
	{"none", "HS256", "HS384", "HS512", "RS256", "ES256", "EdDSA"},
}

func allowName(i int) string {
	if i == 0 {
		return "default"
	}
	return strings.Join(allowLists[i], "+")
}

// genKeySet draws a key-set shape: 1-4 keys x kid/no-kid (with duplicates) x use x mixed types.
func genKeySet(r *rand.Rand, maxN int, uniqueKids bool, pref []string) []ksEntry {
	n := 1 + r.IntN(maxN)
	if r.IntN(4) == 0 {
		n = 1
	}
	var S []ksEntry
	mixed := r.IntN(3) != 0
	baseFam := pick(r, "RSA", "RSA", "P256", "P256", "OKP", "P384", "P521")
	used := map[string]bool{}
	for i := 0; i < n; i++ {
		var pk poolKey
		for tries := 0; ; tries++ {
			pk = trustPool[r.IntN(len(trustPool))]
			if len(pref) > 0 && tries < 20 && r.IntN(10) < 7 && !contains(pref, pk.fam) {
				continue
			}
			if mixed || pk.fam == baseFam || tries > 20 {
				break
			}
		}
		e := ksEntry{K: pk.k}
		switch x := r.IntN(10); {
		case x < 4:
			e.Kid = ""
		case x < 9:
			e.Kid = fmt.Sprintf("k%d", 1+r.IntN(3))
		default:
			e.Kid = "k" + pk.name
		}
		if uniqueKids {
			for used[e.Kid] {
				e.Kid = fmt.Sprintf("u%d", r.IntN(1000))
			}
			used[e.Kid] = true
		}
		switch x := r.IntN(20); {
		case x < 11:
			e.Use = "sig"
		case x < 16:
			e.Use = ""
		default:
			e.Use = "enc"
		}
		if r.IntN(2) == 0 {
			e.Alg = pick(r, famAlgs(pk.fam)...)
		}
		S = append(S, e)
	}
	return S
}

func shapeSig(S []ksEntry) string {
	kidless, enc, nouse := 0, 0, 0
	fams := map[string]bool{}
	kids := map[string]int{}
	dup := false
	for _, e := range S {
		if e.Kid == "" {
			kidless++
		} else {
			kids[e.Kid]++
			if kids[e.Kid] > 1 {
				dup = true
			}
		}
		switch e.Use {
		case "enc":
			enc++
		case "":
			nouse++
		}
		fams[pubFamily(e.K.Public())] = true
	}
	var fs []string
	for f := range fams {
		fs = append(fs, f)
	}
	sort.Strings(fs)
	return fmt.Sprintf("n%d/nokid%d/enc%d/nouse%d/dup%v/%s", len(S), kidless, enc, nouse, dup, strings.Join(fs, "+"))
}

// ---------- payloads ----------

const (
	issuer   = "https://op.verif.test"
	rpClient = "rp-client"
)

type payloadKind int

const (
	pkIDToken payloadKind = iota
	pkAccessToken
	pkAssertion
	pkRequestObject
)

// mkPayload builds a claims set that satisfies every non-signature check of the verifier so that the
// signature path is the deciding step. marker makes the payload unique; who is the subject / client.
func mkPayload(kind payloadKind, marker, who string, now time.Time, expired bool) []byte {
	return mkPayloadSub(kind, marker, who, who, now, expired)
}

// mkPayloadSub is mkPayload with an explicit subject for the assertion kind (iss = who, sub = sub).
func mkPayloadSub(kind payloadKind, marker, who, sub string, now time.Time, expired bool) []byte {
	exp := now.Add(time.Hour).Unix()
	if expired {
		exp = now.Add(-time.Hour).Unix()
	}
	var m map[string]any
	switch kind {
	case pkIDToken:
		m = map[string]any{"iss": issuer, "sub": who, "aud": []string{rpClient}, "exp": exp, "iat": now.Add(-10 * time.Second).Unix(),
			"auth_time": now.Add(-60 * time.Second).Unix(), "azp": rpClient, "vm": marker, "email": who + "@example.com"}
	case pkAccessToken:
		m = map[string]any{"iss": issuer, "sub": who, "aud": []string{"api", rpClient}, "exp": exp, "iat": now.Add(-10 * time.Second).Unix(),
			"nbf": now.Add(-10 * time.Second).Unix(), "jti": "at-" + marker, "scope": "openid profile", "client_id": rpClient, "vm": marker}
	case pkAssertion:
		m = map[string]any{"iss": who, "sub": sub, "aud": []string{issuer}, "exp": now.Add(10 * time.Minute).Unix(), "iat": now.Add(-10 * time.Second).Unix(), "vm": marker}
	case pkRequestObject:
		m = map[string]any{"iss": who, "client_id": who, "aud": []string{issuer}, "response_type": "code", "scope": "openid ro-" + marker,
			"state": "state-" + marker, "nonce": "nonce-" + marker, "redirect_uri": "https://ro.example/" + marker, "vm": marker}
	}
	b, err := json.Marshal(m)
	if err != nil {
		panic(err)
	}
	return b
}

// reencode returns semantically equal JSON with different bytes.
func reencode(r *rand.Rand, p []byte) ([]byte, string) {
	var m map[string]json.RawMessage
	if err := json.Unmarshal(p, &m); err != nil {
		return append([]byte(" "), p...), "leading-space"
	}
	ks := make([]string, 0, len(m))
	for k := range m {
		ks = append(ks, k)
	}
	sort.Strings(ks)
	switch r.IntN(5) {
	case 0: // reversed member order
		var sb strings.Builder
		sb.WriteByte('{')
		for i := len(ks) - 1; i >= 0; i-- {
			kb, _ := json.Marshal(ks[i])
			sb.Write(kb)
			sb.WriteByte(':')
			sb.Write(m[ks[i]])
			if i > 0 {
				sb.WriteByte(',')
			}
		}
		sb.WriteByte('}')
		return []byte(sb.String()), "member-order"
	case 1: // indented
		var v any
		_ = json.Unmarshal(p, &v)
		b, _ := json.MarshalIndent(v, "", "  ")
		return b, "indent"
	case 2:
		return append(append([]byte{}, p...), '\n'), "trailing-newline"
	case 3: // unicode escape of the first letter of the first member name
		s := string(p)
		if len(s) > 3 && s[0] == '{' && s[1] == '"' {
			return []byte(fmt.Sprintf(`{"\u%04x%s`, s[2], s[3:])), "unicode-escape"
		}
		return append([]byte(" "), p...), "leading-space"
	default:
		return []byte(strings.Replace(string(p), ":", ": ", 1)), "space-after-colon"
	}
}

// ---------- base token ----------

func (c *caseCtx) sign(k *keys.Key, alg, kid string, payload []byte, extraHdr map[jose.HeaderKey]any) *entry {
	opts := &jose.SignerOptions{}
	for hk, v := range extraHdr {
		opts = opts.WithHeader(hk, v)
	}
	signer, err := jose.NewSigner(jose.SigningKey{Algorithm: jose.SignatureAlgorithm(alg), Key: &jose.JSONWebKey{Key: k.Priv, KeyID: kid}}, opts)
	if err != nil {
		panic(fmt.Sprintf("c02 sign(%s,%s): %v", keyName(k), alg, err))
	}
	jws, err := signer.Sign(payload)
	if err != nil {
		panic(err)
	}
	tok, err := jws.CompactSerialize()
	if err != nil {
		panic(err)
	}
	parts := strings.Split(tok, ".")
	e := &entry{Header: keys.UnB64(parts[0]), Payload: append([]byte{}, payload...), Sig: keys.UnB64(parts[2]), Key: k, Alg: alg, Kid: kid, Token: tok}
	c.ledger = append(c.ledger, e)
	return e
}

func contains(xs []string, x string) bool {
	for _, y := range xs {
		if x == y {
			return true
		}
	}
	return false
}

// genOtherClientKeys draws the keys of a second client: never a key of S, but often under a kid string that S
// also uses (same kid registered for both clients with different keys).
func genOtherClientKeys(r *rand.Rand, S []ksEntry) []ksEntry {
	n := 1 + r.IntN(2)
	var out []ksEntry
	used := map[string]bool{}
	for i := 0; i < n; i++ {
		var pk poolKey
		for tries := 0; ; tries++ {
			pk = trustPool[r.IntN(len(trustPool))]
			clash := false
			for _, e := range S {
				if samePub(e.K.Public(), pk.k.Public()) {
					clash = true
				}
			}
			for _, e := range out {
				if samePub(e.K.Public(), pk.k.Public()) {
					clash = true
				}
			}
			// prefer the family of a key of S so that the same algorithm fits both clients' keys
			if !clash && (tries > 30 || r.IntN(3) == 0 || pk.fam == poolOf(S[r.IntN(len(S))].K).fam) {
				break
			}
		}
		e := ksEntry{K: pk.k, Use: pick(r, "sig", "sig", "")}
		if r.IntN(3) != 0 {
			e.Kid = S[r.IntN(len(S))].Kid // same kid string as one of the issuer's keys
		} else {
			e.Kid = fmt.Sprintf("o%d", r.IntN(3))
		}
		for used[e.Kid] {
			e.Kid = fmt.Sprintf("o%d", r.IntN(1000))
		}
		used[e.Kid] = true
		out = append(out, e)
	}
	return out
}

// genKeySetExcluding draws a key-set shape none of whose keys is a key of the excluded sets.
func genKeySetExcluding(r *rand.Rand, maxN int, pref []string, exclude ...[]ksEntry) []ksEntry {
	S := genKeySet(r, maxN, false, pref)
	taken := func(pk poolKey, upto int) bool {
		for _, ex := range exclude {
			for _, e := range ex {
				if samePub(e.K.Public(), pk.k.Public()) {
					return true
				}
			}
		}
		return false
	}
	for i := range S {
		if !taken(poolOf(S[i].K), i) {
			continue
		}
		fam := poolOf(S[i].K).fam
		var same, any []poolKey
		for _, pk := range trustPool {
			if taken(pk, i) {
				continue
			}
			any = append(any, pk)
			if pk.fam == fam {
				same = append(same, pk)
			}
		}
		switch {
		case len(same) > 0:
			S[i].K = same[r.IntN(len(same))].k
		case len(any) > 0:
			S[i].K = any[r.IntN(len(any))].k
		}
		S[i].Alg = ""
	}
	return S
}

// genEarlierIssuerKeys draws the keys of the client whose assertion a kept verifier object verifies before the case's
// issuer: RSA / P-256 keys (every one fits an algorithm of the default allow-list) that are keys neither of S nor of
// the excluded sets, often registered under a kid string that S uses too.
func genEarlierIssuerKeys(r *rand.Rand, S []ksEntry, exclude ...[]ksEntry) []ksEntry {
	taken := func(pk poolKey, mine []ksEntry) bool {
		for _, set := range append(append([][]ksEntry{S}, exclude...), mine) {
			for _, e := range set {
				if samePub(e.K.Public(), pk.k.Public()) {
					return true
				}
			}
		}
		return false
	}
	var out []ksEntry
	used := map[string]bool{}
	n := 1 + r.IntN(2)
	for i := 0; i < n; i++ {
		var free []poolKey
		for _, pk := range trustPool {
			if (pk.fam == "RSA" || pk.fam == "P256") && !taken(pk, out) {
				free = append(free, pk)
			}
		}
		if len(free) == 0 {
			break
		}
		// prefer the family of a key of S: the same algorithm then fits the keys of both clients
		pk := free[r.IntN(len(free))]
		want := poolOf(S[r.IntN(len(S))].K).fam
		for _, f := range free {
			if f.fam == want && r.IntN(3) != 0 {
				pk = f
				break
			}
		}
		e := ksEntry{K: pk.k, Use: pick(r, "sig", "sig", "")}
		if r.IntN(3) != 0 {
			e.Kid = S[r.IntN(len(S))].Kid
		} else {
			e.Kid = fmt.Sprintf("p%d", r.IntN(3))
		}
		for used[e.Kid] {
			e.Kid = fmt.Sprintf("p%d", r.IntN(1000))
		}
		used[e.Kid] = true
		out = append(out, e)
	}
	if len(out) == 0 {
		if len(exclude) > 0 {
			// S and the subject client's keys hold all six RSA / P-256 keys of the pool: share a key with the subject client
			return genEarlierIssuerKeys(r, S)
		}
		panic("c02: no key left for the earlier issuer") // S holds at most four keys
	}
	return out
}
