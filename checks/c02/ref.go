package main

// Reference side of C02: the provenance ledger, the key-set model and the
// selection rule written from the property statement ("use permits signatures,
// key type fits the algorithm, key ID equal - or one side empty and the
// candidate unique -, ambiguity reported instead of guessing").

import (
	"bytes"
	"crypto"
	"crypto/ecdsa"
	"crypto/ed25519"
	"crypto/rsa"
	"encoding/json"
	"fmt"
	"reflect"
	"sort"
	"strings"

	jose "github.com/go-jose/go-jose/v4"

	"verif/internal/keys"
)

// entry is one line of the provenance ledger: something the harness itself signed.
type entry struct {
	Header  []byte // protected header bytes that were signed
	Payload []byte // payload bytes that were signed
	Sig     []byte
	Key     *keys.Key // signer (private key owner)
	Alg     string    // algorithm the signature was made with
	Kid     string    // kid in the protected header ("" = none)
	Token   string    // compact serialisation
}

// ksEntry is one published key of a verifier's trust set.
type ksEntry struct {
	K   *keys.Key // only the public half is published
	Kid string
	Use string // "sig", "enc", ""
	Alg string // advisory "alg" member of the JWK (ignored by the statement)
}

func (e ksEntry) jwk() jose.JSONWebKey {
	return jose.JSONWebKey{Key: e.K.Public(), KeyID: e.Kid, Use: e.Use, Algorithm: e.Alg}
}

func (e ksEntry) String() string {
	return fmt.Sprintf("{%s kid=%q use=%q}", keyName(e.K), e.Kid, e.Use)
}

func keyName(k *keys.Key) string {
	for _, p := range allPool {
		if p.name != "" && samePub(p.k.Public(), k.Public()) {
			return p.name
		}
	}
	return "?"
}

type pubEq interface{ Equal(x crypto.PublicKey) bool }

func samePub(a, b crypto.PublicKey) bool {
	if e, ok := a.(pubEq); ok {
		return e.Equal(b)
	}
	return reflect.DeepEqual(a, b)
}

// algFamily maps a JWS algorithm to the key family it needs ("" = no asymmetric key can fit).
func algFamily(alg string) string {
	switch alg {
	case "RS256", "RS384", "RS512", "PS256", "PS384", "PS512":
		return "RSA"
	case "ES256", "ES384", "ES512":
		return "EC"
	case "EdDSA":
		return "OKP"
	}
	return ""
}

func pubFamily(p crypto.PublicKey) string {
	switch p.(type) {
	case *rsa.PublicKey:
		return "RSA"
	case *ecdsa.PublicKey:
		return "EC"
	case ed25519.PublicKey:
		return "OKP"
	}
	return "?"
}

// fits: does the key type fit the algorithm? strict additionally demands the curve of the algorithm.
func fits(p crypto.PublicKey, alg string, strict bool) bool {
	f := algFamily(alg)
	if f == "" || f != pubFamily(p) {
		return false
	}
	if strict && f == "EC" {
		bits := p.(*ecdsa.PublicKey).Curve.Params().BitSize
		return (alg == "ES256" && bits == 256) || (alg == "ES384" && bits == 384) || (alg == "ES512" && bits == 521)
	}
	return true
}

func usePermitsSig(use string) bool { return use == "sig" || use == "" }

// selection is the reference view of "which published keys may a token with (kid, alg) be verified with".
type selection struct {
	cand  []int // use permits signatures and key type fits
	exact []int // cand with kid == token kid != ""
	loose []int // cand where one side has no kid
}

func selectRef(S []ksEntry, kid, alg string, strict bool) selection {
	var s selection
	for i, e := range S {
		if !usePermitsSig(e.Use) || !fits(e.K.Public(), alg, strict) {
			continue
		}
		s.cand = append(s.cand, i)
		switch {
		case kid != "" && e.Kid == kid:
			s.exact = append(s.exact, i)
		case kid == "" || e.Kid == "":
			s.loose = append(s.loose, i)
		}
	}
	return s
}

func distinctPubs(S []ksEntry, idx []int) int {
	var seen []crypto.PublicKey
outer:
	for _, i := range idx {
		for _, p := range seen {
			if samePub(p, S[i].K.Public()) {
				continue outer
			}
		}
		seen = append(seen, S[i].K.Public())
	}
	return len(seen)
}

func hasPub(S []ksEntry, idx []int, p crypto.PublicKey) bool {
	for _, i := range idx {
		if samePub(S[i].K.Public(), p) {
			return true
		}
	}
	return false
}

// acceptLegal decides whether believing a signature made by signer with (kid, alg) is legal for trust set S.
// It returns legal, an optional grey note (legal but only because the statement leaves it open) and, when
// illegal, the reason class.
func acceptLegal(S []ksEntry, kid, alg string, signer crypto.PublicKey) (legal bool, grey string, reason string) {
	for _, strict := range []bool{false, true} {
		sel := selectRef(S, kid, alg, strict)
		if hasPub(S, sel.exact, signer) {
			return true, "", ""
		}
		if hasPub(S, sel.loose, signer) {
			n := distinctPubs(S, sel.loose)
			if n == 1 {
				if len(sel.exact) > 0 {
					return true, "kidless-key-beside-exact-kid-match", ""
				}
				return true, "", ""
			}
			if kid != "" {
				// 6a: a token WITH kid and several kid-less candidate keys is grey
				return true, "kid-token-with-several-kidless-keys", ""
			}
			reason = "ambiguous-kidless"
		}
	}
	if reason != "" {
		return false, "", reason
	}
	// why not?
	in, usable, fit, kidok := false, false, false, false
	for _, e := range S {
		if !samePub(e.K.Public(), signer) {
			continue
		}
		in = true
		if usePermitsSig(e.Use) {
			usable = true
			if fits(e.K.Public(), alg, false) {
				fit = true
				if e.Kid == kid || e.Kid == "" || kid == "" {
					kidok = true
				}
			}
		}
	}
	switch {
	case !in:
		return false, "", "untrusted-key"
	case !usable:
		return false, "", "use-enc-key"
	case !fit:
		return false, "", "key-type-mismatch"
	case !kidok:
		return false, "", "kid-mismatch"
	}
	return false, "", "not-selected"
}

// mustAccept: an untouched genuine token must be accepted when exactly one published key is eligible at all
// (use permits signatures, family fits, kid equal or one side empty) and it is the signer's.
func mustAccept(S []ksEntry, kid, alg string, signer crypto.PublicKey) bool {
	if !fits(signer, alg, true) {
		return false
	}
	sel := selectRef(S, kid, alg, false)
	compat := append(append([]int{}, sel.exact...), sel.loose...)
	return len(compat) == 1 && samePub(S[compat[0]].K.Public(), signer)
}

func allowed(A []string, alg string) bool {
	if len(A) == 0 {
		return alg == "RS256" || alg == "ES256" || alg == "PS256"
	}
	for _, a := range A {
		if a == alg {
			return true
		}
	}
	return false
}

// ---------- claims comparison ----------

func decodeMap(b []byte) (map[string]any, bool) {
	var m map[string]any
	d := json.NewDecoder(bytes.NewReader(b))
	d.UseNumber()
	if err := d.Decode(&m); err != nil || m == nil {
		return nil, false
	}
	return m, true
}

// normalise makes the decoded forms comparable: "aud" as array, numbers as their literal text.
func normalise(m map[string]any) map[string]any {
	out := map[string]any{}
	for k, v := range m {
		if k == "aud" {
			if s, ok := v.(string); ok {
				v = []any{s}
			}
		}
		out[k] = v
	}
	return out
}

func mapsEqual(a, b map[string]any) bool {
	ja, _ := json.Marshal(normalise(a))
	jb, _ := json.Marshal(normalise(b))
	return bytes.Equal(ja, jb)
}

func diffKeys(a, b map[string]any) string {
	var ks []string
	na, nb := normalise(a), normalise(b)
	for k, v := range na {
		w, ok := nb[k]
		ja, _ := json.Marshal(v)
		jb, _ := json.Marshal(w)
		if !ok || !bytes.Equal(ja, jb) {
			ks = append(ks, k)
		}
	}
	for k := range nb {
		if _, ok := na[k]; !ok {
			ks = append(ks, k)
		}
	}
	sort.Strings(ks)
	return strings.Join(ks, ",")
}

func trimJSONSpace(b []byte) []byte { return bytes.Trim(b, " \t\r\n") }
