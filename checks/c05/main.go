// C05 — no tokens or token metadata without client authentication and a registered grant.
//
// Every case is a dimension vector (provider flags x storage capabilities x client registration x credential
// presentation x endpoint/grant) executed on both routers. The client first obtains otherwise valid grant material
// (code, tokens, device code, subject token) through the real endpoints under a plainly conforming registration;
// then the registration under test is installed and ONE request is sent. The oracle (model.go) says from the
// property statement alone whether the request must be refused; a must-refuse request that is answered with a
// status < 400, with a token / device code / active:true, or - on the token endpoint - with something that is not
// an OAuth error document, is a violation. Successes are only counted (every cell must have been seen succeeding
// with a right credential, otherwise the refusals would prove nothing).
//
// Fault sweep: a must-refuse request that was properly refused is repeated with each storage call of the request
// failing in turn (every fault kind); "always refused" does not depend on the health of the storage, so a look-up /
// secret check / key fetch whose error is swallowed and followed by a permissive path shows as a success under fault.
//
// Identity clause and overlap part (overlap.go): whatever a request makes the storage do on behalf of a client must be
// on behalf of the one client the request names and authenticates; pairs of requests of two different clients are
// overlapped on one route of one router (the first parked at each of its yield points in turn while the second is
// served completely) and both answers are judged exactly like sequential ones.
package main

import (
	"fmt"
	"strings"
	"syscall"
	"time"

	"verif/internal/ev"
	"verif/internal/opdrv"
	"verif/internal/sched"
	"verif/internal/vstore"
)

// vstore names the flow of every token request it is asked to mint for
var flowOp = map[string]int{"auth_request": opCode, "refresh": opRefresh, "client_credentials": opCC, "jwt_profile": opBearer, "token_exchange": opTE, "device": opDevice}

var sampleKinds = map[string]bool{
	"success": true, "refused:wrong-secret": true, "refused:grant-unregistered": true, "refused:unknown-client": true,
	"refused:wrong-kind-secret": true, "refused:wrong-kind-assertion": true, "refused:bad-assertion": true,
	"refused:grant-disabled": true, "refused:malformed-credential": true, "open:refused": true,
}

// cpuSeconds is the processor time the process has used so far (user + system).
func cpuSeconds() float64 {
	var ru syscall.Rusage
	if syscall.Getrusage(syscall.RUSAGE_SELF, &ru) != nil {
		return 0
	}
	return float64(ru.Utime.Sec+ru.Stime.Sec) + float64(ru.Utime.Usec+ru.Stime.Usec)/1e6
}

func trunc(s string, n int) string {
	if len(s) > n {
		return s[:n] + "..."
	}
	return s
}

type observation struct {
	status   int
	yields   []string // token-ish members present in the body
	errDoc   bool     // JSON object with a non-empty "error" member
	errCode  string
	acted    []string // state changes made on behalf of the client (revocation, stored device authorization)
	mutating []string // mutating storage calls seen during the request
}

func observe(resp *opdrv.Resp) observation {
	o := observation{status: resp.Status}
	if o.status == 0 {
		o.status = 200 // a handler that writes nothing answers 200
	}
	body := resp.JSON()
	for _, k := range []string{"access_token", "id_token", "refresh_token", "device_code"} {
		switch x := body[k].(type) {
		case nil:
		case string:
			if x != "" {
				o.yields = append(o.yields, k)
			}
		default:
			o.yields = append(o.yields, k)
		}
	}
	if a, ok := body["active"]; ok && a != false && a != nil {
		o.yields = append(o.yields, "active:true")
	}
	if e, ok := body["error"].(string); ok && e != "" {
		o.errDoc, o.errCode = true, e
	}
	if !o.errDoc {
		o.errCode = "(no error document)"
	}
	return o
}

func execute(run *ev.Run, s *spec, router int, pl pool) {
	rn := opdrv.RouterNames[router]
	wc, err := pl.get(s)
	if err != nil {
		run.HarnessBug("cannot build world " + s.cfgKey() + ": " + err.Error())
		return
	}
	w := wc.w
	id := s.clientID(rn)
	w.Store.SetJournal(false)
	m, why := wc.mint(s, router, id)
	if why != "" {
		run.Eval()
		run.Inconclusive("mint-failed:" + opNames[s.Op] + ":" + rn)
		run.SampleKind("mint-failed", map[string]any{"router": rn, "spec": s, "why": trunc(why, 400)})
		return
	}
	rq, p, bk := buildRequest(s, w, id, m)
	v := oracle(s, p, bk)

	w.Store.ResetJournal()
	w.Store.SetJournal(true)
	if s.FaultAt > 0 {
		w.Store.Arm(&vstore.FaultPlan{At: s.FaultAt, Kind: vstore.FaultKind(s.FaultKind)})
	}
	resp := send(s, w, router, rq)
	faultFired := s.FaultAt > 0 && w.Store.Fired() > 0
	w.Store.Arm(nil)
	journal := w.Store.Journal()
	w.Store.SetJournal(false)
	w.Store.ResetJournal()
	run.Eval()

	o := observe(resp)
	served := -1 // the grant whose token request reached the storage (from the journal)
	for _, e := range journal {
		if e.Err == "" && (e.Method == "CreateAccessToken" || e.Method == "CreateAccessAndRefreshTokens") {
			flow, _, _ := strings.Cut(e.A, "|")
			if so, ok := flowOp[flow]; ok {
				served = so
			}
		}
		if e.Mutating() && e.Err == "" {
			o.mutating = append(o.mutating, e.Method)
			if e.Method == "StoreDeviceAuthorization" && s.Op == opDevAuth {
				o.acted = append(o.acted, "device authorization stored")
			}
		}
	}
	tokenDead := false
	if s.Op == opRevoke {
		if s.RevokeKind == 2 || s.RevokeKind == 3 {
			tokenDead = !w.Store.RefreshLive(m.Refresh)
		} else {
			tokenDead = !w.Store.TokenLive(w.TokenID(m.Access))
		}
		if tokenDead {
			o.acted = append(o.acted, "token revoked")
		}
	}

	witness := map[string]any{
		"router": rn, "client_id": id, "spec": s, "material": m, "request": rq,
		"must_refuse_because": v.reasons, "grey": v.grey,
		"response": map[string]any{"status": resp.Status, "body": trunc(resp.Body.String(), 600), "acted": o.acted},
	}
	cell := rn + ":" + opNames[s.Op]
	run.Count("cells", cell)
	for _, g := range v.grey {
		run.Count("grey", g)
	}

	if resp.Panic != nil {
		witness["panic"] = resp.Panic.Value
		witness["stack"] = trunc(resp.Panic.Stack, 3000)
		if resp.Panic.InRepo {
			run.Violation("C05:panic:"+resp.Panic.Site(), int64(s.Idx), "handler panicked while answering a "+cell+" request ("+presNames[s.Pres]+"): "+resp.Panic.Value, witness)
		} else {
			run.HarnessBug("panic outside the library: " + resp.Panic.Value + " at " + resp.Panic.Frame)
		}
		run.Count("outcome", "panic")
		return
	}

	// The endpoints act for a client only after IT has authenticated: whatever the request makes the storage do on
	// behalf of a client must be on behalf of the one client the request names and authenticates.
	if singleIdentity(s, p) {
		if e := foreignAct(journal, id); e != nil {
			other, _ := actsFor(*e)
			witness["storage_calls_of_the_request"] = briefJournal(journal)
			run.Count("outcome", "acted-for-other-client")
			run.Violation("C05:"+cell+":acted-for-other-client", int64(s.Idx), fmt.Sprintf("%s request naming and authenticating only client %q made the storage call %s on behalf of client %q (presentation %s)", cell, id, e.Method, other, presNames[s.Pres]), witness)
			return
		}
		run.Count("acts_for", cell+" -> "+actsSummary(journal, id))
	}
	if !isTokenOp(s.Op) {
		run.Count("stray_grant_type", strayClass(s))
	}

	run.Count("placement:grant_type", s.GTPlaceStr)
	run.Count("placement:credentials", s.CredStr)
	run.Count("placement:parameters", s.ParamStr)

	// A device authorization must be stored for the client that authenticated / identified itself in the way it is
	// registered - never for a client that is merely named in the form.
	if s.Op == opDevAuth && o.status < 300 {
		if dc, _ := resp.JSON()["device_code"].(string); dc != "" {
			expected := id
			switch s.Pres {
			case pMixedBasic:
				expected = otherBID
			case pMixedAssert:
				expected = otherJID
			}
			if rec, ok := w.Store.DeviceRecord(dc); ok {
				witness["stored_for_client"] = rec.ClientID
				if rec.ClientID != expected && p.claim != claimNone && p.claim != claimUnknown {
					run.Count("outcome", "devauth:stored-for-other-client")
					run.Violation("C05:"+rn+":device_authorization:acted-for-other-client", int64(s.Idx), fmt.Sprintf("device authorization answered %d and stored the device code for client %q although the client that authenticated / identified itself is %q (presentation %s)", o.status, rec.ClientID, expected, presNames[s.Pres]), witness)
					return
				}
				if p.claim == claimMixed || s.Pres == pOwnBasicOtherID || s.Pres == pOwnAssertOtherID {
					run.Observed("devauth-mixed-identity-stored-for-authenticated-client:" + rn)
				}
				run.Count("devauth_stored_for", map[bool]string{true: "the acting client", false: "another client"}[rec.ClientID == expected])
			}
		}
	}

	regTarget := "n/a"
	if g := opGrant[s.Op]; g != "" {
		regTarget = fmt.Sprintf("reg=%v,off=%v", s.has(g), s.grantDisabled(g))
	}
	run.Distinct(strings.Join([]string{rn, opNames[s.Op], presNames[s.Pres], authNames[s.Auth], regTarget, s.AppName,
		fmt.Sprint(s.Dual), fmt.Sprintf("post=%v,pkjwt=%v", s.Post, s.PKJWT), fmt.Sprint(s.IDFlavor), fmt.Sprint(strings.HasPrefix(s.Secret, reservedSecret)),
		s.GTPlaceStr + "/" + s.DecoyName, s.CredStr, s.ParamStr}, "|"))

	success := false
	switch s.Op {
	case opIntrospect:
		success = o.status == 200 && len(o.yields) > 0
	case opRevoke:
		success = o.status == 200 && tokenDead
	default:
		success = o.status == 200 && len(o.yields) > 0
	}

	if len(v.reasons) > 0 {
		primary := v.reasons[0]
		all := strings.Join(v.reasons, "+")
		run.Count("must_refuse_reasons", all)
		run.Observed("seen:" + rn + ":" + primary)
		key := "C05:" + cell + ":" + primary
		if suffix, what := refusalBreach(s, o); what != "" {
			run.Count("outcome", "mustRefuse:VIOLATED")
			run.Violation(key+suffix, int64(s.Idx), fmt.Sprintf("%s %s although the request must be refused (%s; presentation %s; registered %s)", cell, what, all, presNames[s.Pres], authNames[s.Auth]), witness)
			return
		}
		run.Count("outcome", "mustRefuse:refused")
		if faultFired {
			run.Count("outcome", "mustRefuse:refused-under-storage-fault")
			run.Observed("must-refuse-under-storage-fault:" + rn)
		}
		if primary == "post-disabled" {
			run.Observed("post-disabled-refused:" + rn)
		}
		if twoKinds(s.Pres) {
			run.Count("two_kinds_refused", cell+":"+primary+":"+presNames[s.Pres])
			if primary == "wrong-kind-secret" || primary == "wrong-kind-assertion" {
				run.Observed("two-kinds:" + primary + ":" + cell)
			}
		}
		run.Count("refusal_error:"+rn, o.errCode)
		run.Count("refusal_status", fmt.Sprint(o.status))
		for _, mth := range o.mutating {
			run.Count("mutating_storage_calls_during_refusals", mth)
		}
		if sampleKinds["refused:"+primary] {
			run.SampleKind("refused:"+primary, witness)
		}
		if s.FaultAt == 0 {
			faultSweep(run, s, w, router, rq, m, journal, key, all, witness)
		}
		return
	}

	if faultFired {
		// nothing obliges the provider to refuse this request; what it answers under a storage fault is C10's business
		run.Count("outcome", "open:under-storage-fault")
		return
	}

	// grant_type named two grants: whichever was served must be open to the client
	if s.gtDiffers() {
		run.Count("two_grant_types", fmt.Sprintf("%s %s -> served=%s", rn, s.GTPlaceStr, map[bool]string{true: "nothing", false: "a grant"}[served < 0]))
		if success && served >= 0 && p.claim == claimOwn {
			run.Count("two_grant_types_served", rn+":"+opNames[served])
			if why := s.badGrant(served); why != "" {
				run.Count("outcome", "mustRefuse:VIOLATED")
				run.Violation("C05:"+rn+":"+opNames[served]+":"+why, int64(s.Idx), fmt.Sprintf("%s request with grant_type %s (target %s, decoy %s) was served as %s although that grant is closed to the client (%s)", rn, s.GTPlaceStr, opNames[s.Op], opNames[s.Decoy], opNames[served], why), witness)
				return
			}
		}
	}

	// the statement leaves this request open: count what happened
	for _, g := range v.grey {
		run.Count("grey_outcome", fmt.Sprintf("%s:%s -> success=%v", rn, g, success))
	}
	if success {
		run.Count("outcome", "open:success")
		run.Count("success_by_presentation", presNames[s.Pres])
		if s.GTPlace == gtQuery {
			run.Observed("ok-with-grant_type-in-query-only:" + rn)
		}
		if s.CredPlace == placeQuery && (p.rightSecret || p.validAssertion) {
			run.Observed("ok-with-credentials-in-query-only:" + rn)
		}
		if s.Stray != "" {
			run.Observed("ok-with-stray-grant_type:" + cell)
		}
		if (p.canonical || s.Auth == authNone) && !s.gtDiffers() && s.OddAuth == "" && s.Stray == "" {
			run.Observed("ok:" + cell)
			run.Count("positive_cells", cell+":"+authNames[s.Auth])
		}
		run.SampleKind("success", witness)
		return
	}
	run.Count("outcome", "open:refused")
	run.Count("open_refused_error:"+rn, opNames[s.Op]+":"+o.errCode)
	if p.canonical {
		run.Count("open_refused_with_right_credential", cell+":"+authNames[s.Auth]+":"+o.errCode)
	}
	run.SampleKind("open:refused", witness)
}

// refusalBreach says how (if at all) an answer falls short of the refusal the statement demands: "always refused with a
// non-success status - on the token endpoint as an OAuth error document - and never yields a token or an active
// introspection result"; nothing may have been done for the client either.
func refusalBreach(s *spec, o observation) (keySuffix, what string) {
	switch {
	case len(o.yields) > 0:
		return "", fmt.Sprintf("answered %d with %v", o.status, o.yields)
	case o.status < 400:
		return "", fmt.Sprintf("answered with success status %d", o.status)
	case len(o.acted) > 0:
		return ":acted-although-refused", fmt.Sprintf("answered %d but acted for the client (%v)", o.status, o.acted)
	case isTokenOp(s.Op) && !o.errDoc:
		return ":not-an-oauth-error-document", fmt.Sprintf("refused with %d but the body is not an OAuth error document", o.status)
	}
	return "", ""
}

const sweepMaxCalls = 12

// faultSweep: a request that must be refused, and that a healthy storage saw refused after the storage calls in
// `healthy`, is sent again once per (call position j, fault kind): the j-th storage call of the request answers an
// injected error (plain error, wrapped context.DeadlineExceeded, oidc server_error). The statement's obligation does not
// depend on the health of the storage ("always refused"): whichever look-up, secret check, key fetch or state read
// fails, the provider may answer with another error, but it may not continue as if the client had authenticated in the
// way it is registered / held the grant. The registration, the credential and the grant material are those of the
// healthy run (a refused request consumes nothing the obligation depends on).
func faultSweep(run *ev.Run, s *spec, w *opdrv.World, router int, rq *request, m material, healthy []vstore.Entry, key, all string, base map[string]any) {
	rn := opdrv.RouterNames[router]
	cell := rn + ":" + opNames[s.Op]
	k := len(healthy)
	run.Count("fault_sweep:storage_calls_of_the_refused_request", fmt.Sprintf("%s:%d", rn, k))
	if k == 0 {
		return
	}
	if k > sweepMaxCalls {
		run.Count("fault_sweep:capped", cell)
		k = sweepMaxCalls
	}
	methods := make([]string, 0, len(healthy))
	for _, e := range healthy {
		methods = append(methods, e.Method)
	}
	primary, _, _ := strings.Cut(all, "+")
	reached := false
	for j := 1; j <= k; j++ {
		for kind := vstore.FaultKind(0); kind < vstore.NumFaultKinds; kind++ {
			w.Store.ResetJournal()
			w.Store.SetJournal(true)
			w.Store.Arm(&vstore.FaultPlan{At: j, Kind: kind})
			resp := send(s, w, router, rq)
			fired := w.Store.Fired() > 0
			w.Store.Arm(nil)
			journal := w.Store.Journal()
			w.Store.SetJournal(false)
			w.Store.ResetJournal()
			if !fired {
				// the request did not get as far this time
				run.Count("fault_sweep:outcome", "fault-position-not-reached")
				continue
			}
			run.Eval()
			reached = true
			faulted := "?"
			for _, e := range journal {
				if e.Fault {
					faulted = e.Method
				}
			}
			run.Count("fault_sweep:faulted_call", rn+":"+faulted)
			o := observe(resp)
			for _, e := range journal {
				if e.Mutating() && e.Err == "" && e.Method == "StoreDeviceAuthorization" && s.Op == opDevAuth {
					o.acted = append(o.acted, "device authorization stored")
				}
			}
			if s.Op == opRevoke {
				dead := false
				if s.RevokeKind == 2 || s.RevokeKind == 3 {
					dead = !w.Store.RefreshLive(m.Refresh)
				} else {
					dead = !w.Store.TokenLive(w.TokenID(m.Access))
				}
				if dead {
					o.acted = append(o.acted, "token revoked")
				}
			}
			witness := map[string]any{}
			for kk, vv := range base {
				witness[kk] = vv
			}
			witness["storage_fault"] = map[string]any{"at_call": j, "method": faulted, "kind": int(kind), "error": kind.Err().Error(), "storage_calls_of_the_healthy_run": methods}
			witness["response_with_healthy_storage"] = base["response"]
			witness["response"] = map[string]any{"status": resp.Status, "body": trunc(resp.Body.String(), 600), "acted": o.acted}
			if resp.Panic != nil {
				witness["panic"] = resp.Panic.Value
				witness["stack"] = trunc(resp.Panic.Stack, 3000)
				if resp.Panic.InRepo {
					run.Violation("C05:panic:"+resp.Panic.Site(), int64(s.Idx), fmt.Sprintf("handler panicked while answering a %s request (%s) whose storage call %d (%s) failed: %s", cell, presNames[s.Pres], j, faulted, resp.Panic.Value), witness)
				} else {
					run.HarnessBug("panic outside the library: " + resp.Panic.Value + " at " + resp.Panic.Frame)
				}
				run.Count("fault_sweep:outcome", "panic")
				return
			}
			if suffix, what := refusalBreach(s, o); what != "" {
				run.Count("fault_sweep:outcome", "mustRefuse:VIOLATED")
				run.Violation(key+suffix+":storage-fault:"+faulted, int64(s.Idx), fmt.Sprintf("%s %s when storage call %d of the request (%s) failed with %q, although the request must be refused (%s; presentation %s; registered %s) and is refused (%v) while the storage is healthy", cell, what, j, faulted, kind.Err().Error(), all, presNames[s.Pres], authNames[s.Auth], base["response"].(map[string]any)["status"]), witness)
				return
			}
			run.Count("fault_sweep:outcome", "mustRefuse:refused")
			run.Count("fault_sweep:refusal_error:"+rn, o.errCode)
		}
	}
	if reached {
		run.Observed("fault-sweep:" + cell)
		run.Observed("fault-sweep:" + rn + ":" + primary)
		run.Count("fault_sweep:swept", cell+":"+primary)
	}
}

func runCase(run *ev.Run, i int, pl pool) {
	s := buildSpec(run.CaseRand(5, i), i)
	execute(run, s, opdrv.RouterProvider, pl)
	execute(run, s, opdrv.RouterLegacy, pl)
}

func main() {
	run := ev.Start("C05", "exploration")
	sched.Install() // the library's spans, the storage calls and the client getters become yield points (overlap part)
	run.SetRule(fmt.Sprintf("case index i enumerates the core product endpoint/grant(%d) x credential presentation(%d) x registered auth method(%d) x grant-list shape(%d) = %d cells cyclically; provider flags (AuthMethodPost, AuthMethodPrivateKeyJWT, GrantTypeRefreshToken), storage capability subset, application type, dual credential material, id/secret alphabets, token kinds, and the placement of grant_type (body / URL query only / both equal / two different grants in query and body), of the client credentials and of the grant parameters (body / query / both / secret differing) are drawn per case; when grant_type names two grants the grant obligations are judged by the grant actually served (storage journal); every 2xx device authorization is checked to be stored for the acting client; the presentations include credentials of BOTH kinds in one request (registered secret via Basic / form next to a worthless assertion, wrong or right secret next to a valid assertion) for clients whose record holds a secret and a key; every must-refuse request that a healthy storage saw properly refused is sent again once per (storage call j of that request, fault kind) with exactly that call failing (fault sweep: plain error, wrapped context.DeadlineExceeded, oidc server_error) and must be refused each time; one request in six additionally meets a fault at a random call; each case runs on both routers after minting valid grant material through the real flows; one introspection / revocation / device-authorization request in four carries a stray grant_type parameter (a grant of the registration or any grant); identity clause on every request that names and authenticates exactly one client: every storage call made on behalf of a client (RevokeToken, StoreDeviceAuthorization, GetDeviceAuthorizatonState, GetRefreshTokenInfo, SetIntrospectionFromToken, ClientCredentialsTokenRequest, CreateTokenExchangeRequest, Create*Token*, id-token claim look-ups) names that client; OVERLAP PART: overlap case j enumerates endpoint/grant of the parked request(%d) x stray grant_type on non-token endpoints(2) x its registered auth method(%d) x shape(%d: conforming|conforming, must-refuse|conforming, conforming|must-refuse) = %d cells cyclically, the in-between request (another client, same route; on the token endpoint any grant) and the must-refuse flavour (wrong secret, unknown client, no credential, bad assertion, credential of the wrong kind, grant not registered, no client) are drawn; on both routers the parked request is served alone (sched.Trace: every span of the library, storage call and op.Client getter it passes), then for EVERY such point k it is parked at k on its own goroutine, the in-between request is served completely, the parked one released (sched.Preempt; fresh grant material per k); both answers are judged as sequential ones (refusal obligations, identity clause, panics), keys carry :overlapping-requests; pairs of which a request already fails alone are not overlapped; distinct = distinct vectors (router, cell, presentation, auth method, target grant registered/disabled, app type, dual, post/pkjwt flags, id flavour, secret flavour) whose request was answered and judged",
		numOps, numPres, numAuth, numGrantKinds, coreCells, len(ovOps), numAuth, len(ovShapes), ovProduct))
	run.Assume(
		"vstore policy: AuthorizeClientIDSecret / ClientCredentials compare the stored secret only (an empty stored secret never matches); GetKeyByIDAndClientID returns keys registered under exactly that client id",
		"grant material is minted under a conforming registration (Basic, all grants) of the same client id; the registration under test is installed before the judged request (the statement speaks about the registration at the time of the request)",
		"jwt-bearer grant: the assertion is the credential and the library resolves no op.Client for it, so an issuer that is a client without that grant is grey",
		"client_credentials and introspection authenticate an opaque caller id purely through storage (no op.Client registration is resolved; an introspection caller may be a service account without registration), so a credential of the other kind that the storage accepts there is grey",
		"fault sweep: the repeated request is literally the healthy run's request against the same registration and grant material; a refusal consumes nothing the refusal obligation depends on, so the obligation is the same for every repetition; fault positions the repeated request does not reach are counted (fault-position-not-reached), not judged",
		"credentials of both kinds: a valid credential of the registered kind next to a wrong / superfluous credential of the other kind is grey; a credential of the other kind next to a worthless credential of the registered kind is must-refuse (wrong-kind-secret / wrong-kind-assertion) wherever the wrong kind alone is",
		"overlap part: while a request is parked at a yield point it makes no storage call, so the storage journal splits by sequence number into the calls of the parked and of the in-between request; an in-between request that cannot finish while the other is parked (patience 30 s) is inconclusive for that point, never a violation; the worlds of this part sign with ES256 and have every optional grant / auth method enabled in three passes of four",
		"a stray grant_type=client_credentials on revocation / device authorization makes the Server router authenticate through ClientCredentialsStorage.ClientCredentials(id, secret): like on the client_credentials grant itself, a stored secret of a private_key_jwt client that this storage-side authenticator accepts is storage policy (grey, counted), not judged",
		"a right secret in a non-canonical encoding, right+wrong secrets together, a valid assertion while private_key_jwt is disabled are grey (HEAD is not uniform there); a registered secret that travels only in the form / query while the provider has client_secret_post disabled is NOT an authentication (must-refuse: post-disabled)",
	)
	var mand []string
	for _, rn := range opdrv.RouterNames {
		for _, o := range positiveOps {
			mand = append(mand, "ok:"+rn+":"+opNames[o])
		}
		for _, r := range []string{"unknown-client", "no-client", "wrong-secret", "wrong-kind-secret", "wrong-kind-assertion", "bad-assertion", "no-credential", "grant-unregistered", "grant-disabled", "grant-unknown", "malformed-credential", "mixed-identity"} {
			mand = append(mand, "seen:"+rn+":"+r)
		}
		mand = append(mand, "post-disabled-refused:"+rn, "ok-with-grant_type-in-query-only:"+rn, "devauth-mixed-identity-stored-for-authenticated-client:"+rn)
		// credentials of both kinds in one request: the kind the client is not registered for was seen refused on every
		// cell where the library resolves the registration
		for _, o := range []int{opCode, opRefresh, opTE, opDevice, opRevoke} {
			mand = append(mand, "two-kinds:wrong-kind-secret:"+rn+":"+opNames[o], "two-kinds:wrong-kind-assertion:"+rn+":"+opNames[o])
		}
		// fault sweep: refused requests of every cell / refusal class were repeated with each of their storage calls failing
		for _, o := range positiveOps {
			mand = append(mand, "fault-sweep:"+rn+":"+opNames[o])
		}
		for _, r := range []string{"unknown-client", "wrong-secret", "wrong-kind-secret", "wrong-kind-assertion", "post-disabled", "bad-assertion", "no-credential", "grant-unregistered", "grant-disabled", "mixed-identity", "public-client-not-allowed"} {
			mand = append(mand, "fault-sweep:"+rn+":"+r)
		}
	}
	// overlap part: every (router, cell) was judged with another client's request served in between, and on every cell
	// whose requests make the storage act for the client another client was served between the parked request's
	// authentication and its action
	for _, rn := range opdrv.RouterNames {
		for _, o := range ovOps {
			mand = append(mand, "overlap:judged:"+rn+":"+opNames[o], "overlap:another-client-served-between-authentication-and-action:"+rn+":"+opNames[o])
		}
		for _, o := range []int{opIntrospect, opRevoke, opDevAuth} {
			mand = append(mand, "overlap:stray-grant_type:"+rn+":"+opNames[o], "ok-with-stray-grant_type:"+rn+":"+opNames[o])
		}
		mand = append(mand, "overlap:parked-at-every-point:"+rn, "overlap:must-refuse-request-parked-while-a-conforming-one-was-served:"+rn,
			"overlap:conforming-request-parked-while-a-must-refuse-one-was-answered:"+rn)
	}
	n := run.N(10*coreCells, 80*coreCells)
	nOv := run.N(2*ovProduct, 16*ovProduct)
	if rc := run.ReplayCase(); rc >= 0 {
		// a replay runs one case (on both routers, in fresh worlds); the coverage obligations do not apply to it
		if rc >= ovBase {
			overlapPart(run, int(rc-ovBase), int(rc-ovBase)+1, make([]pool, 64))
		} else {
			runCase(run, int(rc), pool{})
		}
		run.Finish()
	}
	run.Mandatory(mand...)
	pools := make([]pool, 64)
	t0, c0 := time.Now(), cpuSeconds()
	ev.Parallel(n, 0, func(worker int, i int) {
		if pools[worker] == nil {
			pools[worker] = pool{}
		}
		runCase(run, i, pools[worker])
	})
	// the overlap part runs after the sequential one (while a goroutine is registered with sched, every yield point of
	// every goroutine pays for a look-up), in worlds of its own
	ovPools := make([]pool, 64)
	t1, c1 := time.Now(), cpuSeconds()
	overlapPart(run, 0, nOv, ovPools)
	run.Extra("yield_points_passed", sched.Points())
	// (evidence only: nothing is decided by a clock)
	run.Extra("wall_s_by_part", map[string]float64{"sequential+fault-sweep": t1.Sub(t0).Seconds(), "overlap": time.Since(t1).Seconds()})
	run.Extra("cpu_s_by_part", map[string]float64{"sequential+fault-sweep": c1 - c0, "overlap": cpuSeconds() - c1})
	run.Finish()
}
