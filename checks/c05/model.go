package main

// Dimensions of a C05 case and the oracle `mustRefuse`, written from the property
// statement (one-directional: it only says when a request must be refused).

import (
	"fmt"
	"math/rand/v2"
	"net/url"
	"slices"
	"strings"

	"github.com/zitadel/oidc/v3/pkg/oidc"
	"github.com/zitadel/oidc/v3/pkg/op"

	"verif/internal/vstore"
)

// ---------- operations: (endpoint, grant) cells ----------

const (
	opCode = iota
	opRefresh
	opCC
	opBearer
	opTE
	opDevice
	opJunk
	opEmpty
	opIntrospect
	opRevoke
	opDevAuth
	numOps
)

var opNames = [numOps]string{
	"token:authorization_code", "token:refresh_token", "token:client_credentials", "token:jwt-bearer",
	"token:token-exchange", "token:device_code", "token:junk-grant", "token:empty-grant",
	"introspection", "revocation", "device_authorization",
}

// the grant a client must be registered for to use the cell ("" = none)
var opGrant = [numOps]oidc.GrantType{
	oidc.GrantTypeCode, oidc.GrantTypeRefreshToken, oidc.GrantTypeClientCredentials, oidc.GrantTypeBearer,
	oidc.GrantTypeTokenExchange, oidc.GrantTypeDeviceCode, "", "", "", "", oidc.GrantTypeDeviceCode,
}

var allGrants = []oidc.GrantType{
	oidc.GrantTypeCode, oidc.GrantTypeRefreshToken, oidc.GrantTypeClientCredentials, oidc.GrantTypeBearer,
	oidc.GrantTypeTokenExchange, oidc.GrantTypeDeviceCode,
}

// cells that must have been seen succeeding with a right credential on each router
var positiveOps = []int{opCode, opRefresh, opCC, opBearer, opTE, opDevice, opIntrospect, opRevoke, opDevAuth}

func isTokenOp(o int) bool { return o <= opEmpty }

// ---------- registered authentication method ----------

const (
	authBasic = iota
	authPost
	authNone
	authJWT
	numAuth
)

var authNames = [numAuth]string{"client_secret_basic", "client_secret_post", "none", "private_key_jwt"}
var authMethods = [numAuth]oidc.AuthMethod{oidc.AuthMethodBasic, oidc.AuthMethodPost, oidc.AuthMethodNone, oidc.AuthMethodPrivateKeyJWT}

// ---------- how the grant-type list of the registration is formed ----------

const (
	gkAll = iota
	gkAllButTarget
	gkOnlyTarget
	gkRandom
	numGrantKinds
)

var grantKindNames = [numGrantKinds]string{"all", "all-but-target", "only-target", "random-subset"}

// ---------- credential presentations ----------

const (
	pNone = iota
	pIDOnly
	pBasicRight
	pBasicWrong
	pBasicOtherSecret
	pBasicRaw
	pBasicMalformedPct
	pBasicBadBase64
	pBasicDoubleEnc
	pPostRight
	pPostWrong
	pBasicRightPostWrong
	pBasicWrongPostRight
	pAssertValid
	pAssertExpired
	pAssertOtherKey
	pAssertWrongAud
	pAssertSubMismatch
	pAssertNoType
	pAssertValidWithID
	pMixedBasic
	pMixedAssert
	pUnknownBasic
	pUnknownID
	pUnknownAssert
	pBasicEmptySecret
	pOwnBasicOtherID  // the case's client authenticates (Basic) while the form names another known client
	pOwnAssertOtherID // the case's client authenticates (assertion) while the form names another known client
	// an assertion naming the case's client as issuer but signed by ANOTHER registered client with its own key and
	// kid, which it names as subject (only a custom SubjectCheck lets the subject differ; the key must still be one
	// the storage holds for the issuer)
	pAssertForgedIssuer
	pAssertTypeOnly // client_id and client_assertion_type, but neither an assertion nor a secret
	// credentials of BOTH kinds in one request (a client whose storage record holds a secret and a key - e.g. one that
	// was migrated from client_secret_basic to private_key_jwt - or a caller that adds a worthless parameter of the
	// other kind): which of the two the provider looks at must not let the kind the client is NOT registered for through
	pBasicRightAssertBad   // Basic id:registered-secret next to a client_assertion that does not verify ("x", expired, foreign key, wrong audience)
	pPostRightAssertBad    // client_id + registered client_secret in the form next to such an assertion
	pBasicWrongAssertValid // Basic id:wrong-secret next to a valid, typed assertion
	pBasicRightAssertValid // Basic id:registered-secret next to a valid, typed assertion
	numPres
)

var presNames = [numPres]string{
	"none", "client_id-only", "basic-right", "basic-wrong", "basic-secret-of-other-client", "basic-raw-unencoded",
	"basic-malformed-%zz", "basic-bad-base64", "basic-double-encoded", "post-right", "post-wrong",
	"basic-right+post-wrong", "basic-wrong+post-right", "assertion-valid", "assertion-expired",
	"assertion-other-clients-key", "assertion-wrong-audience", "assertion-sub-mismatch", "assertion-valid-without-type",
	"assertion-valid+client_id", "mixed:other-basic+own-client_id", "mixed:other-assertion+own-client_id",
	"unknown-client-basic", "unknown-client-id", "unknown-client-assertion", "basic-empty-secret",
	"mixed:own-basic+other-client_id", "mixed:own-assertion+other-client_id", "assertion-issuer-forged-by-other-client",
	"client_id+assertion-type-without-assertion",
	"basic-right+assertion-worthless", "post-right+assertion-worthless", "basic-wrong+assertion-valid", "basic-right+assertion-valid",
}

// twoKinds: the presentation carries a secret AND an assertion
func twoKinds(pres int) bool {
	switch pres {
	case pBasicRightAssertBad, pPostRightAssertBad, pBasicWrongAssertValid, pBasicRightAssertValid:
		return true
	}
	return false
}

const coreCells = numOps * numPres * numAuth * numGrantKinds

// spec is the complete dimension vector of a case; it is a pure function of (seed, index).
type spec struct {
	Idx       int    `json:"case"`
	Op        int    `json:"-"`
	Pres      int    `json:"-"`
	Auth      int    `json:"-"`
	GrantKind int    `json:"-"`
	OpName    string `json:"op"`
	PresName  string `json:"presentation"`
	AuthName  string `json:"registered_auth_method"`
	GrantsHow string `json:"grants_how"`

	// provider configuration
	Post    bool        `json:"cfg_auth_method_post"`
	PKJWT   bool        `json:"cfg_auth_method_private_key_jwt"`
	Refresh bool        `json:"cfg_grant_type_refresh_token"`
	// OddAuth: the registration names a token-endpoint auth method the library has no branch for ("" = unset, or
	// client_secret_jwt) although the client holds a secret: every refusal obligation of a secret-holding client
	// stays (no / wrong secret is never enough); success is not counted for it
	OddAuth string      `json:"registered_auth_method_override,omitempty"`
	Naive   bool        `json:"storage_compares_secrets_naively"` // AuthorizeClientIDSecret is a plain comparison (a client without secret matches "")
	Dyn     bool        `json:"cfg_issuer_from_host"`   // the provider derives its issuer from the request's Host
	HostB   bool        `json:"request_to_second_host"` // with Dyn: the request goes to the provider's second host name
	PermSub bool        `json:"cfg_permissive_subject_check"` // the application's provider overrides JWTProfileVerifier with op.SubjectCheck(allow all)
	Caps    vstore.Caps `json:"-"`
	CapsStr string      `json:"storage_caps"`

	// registration
	App       op.ApplicationType `json:"-"`
	AppName   string             `json:"application_type"`
	Dual      bool               `json:"dual_material"` // storage also holds the credential material of the kind the client is NOT registered for
	HasSecret bool               `json:"has_secret"`
	HasKey    bool               `json:"has_key"`
	Grants    []oidc.GrantType   `json:"grants"`
	IDFlavor  int                `json:"id_flavor"`
	Secret    string             `json:"secret"`
	JWTAccess bool               `json:"jwt_access_tokens"`

	// presentation details
	WrongVar   int  `json:"wrong_variant"`
	OtherKid   bool `json:"other_kid"`
	RevokeKind int  `json:"revoke_kind"`
	SubjJWT    bool `json:"subject_token_is_jwt"`

	// one request in six also meets a failing storage: the FaultAt-th storage call of the request answers an injected
	// error. A request that must be refused must be refused all the same (and nothing may be done for the client).
	FaultAt   int `json:"storage_fault_at_call,omitempty"`
	FaultKind int `json:"storage_fault_kind,omitempty"`

	// where the parameters sit: form body and / or URL query
	GTPlace    int    `json:"-"` // grant_type
	GTPlaceStr string `json:"grant_type_placement"`
	Decoy      int    `json:"-"` // the other grant named when the two places disagree
	DecoyName  string `json:"decoy_grant,omitempty"`
	CredPlace  int    `json:"-"` // client_id / client_secret / client_assertion(_type)
	CredStr    string `json:"credential_placement"`
	ParamPlace int    `json:"-"` // the grant's own parameters
	ParamStr   string `json:"parameter_placement"`

	// Stray: a grant_type parameter in the body of an introspection / revocation / device-authorization request
	Stray string `json:"stray_grant_type,omitempty"`
}

func (s *spec) has(g oidc.GrantType) bool { return slices.Contains(s.Grants, g) }

// placement of grant_type
const (
	gtBody = iota
	gtQuery
	gtBoth
	gtQueryTargetBodyDecoy
	gtQueryDecoyBodyTarget
)

var gtPlaceNames = []string{"body", "query-only", "both-equal", "query=target,body=decoy", "query=decoy,body=target"}

// placement of the other parameters
const (
	placeBody = iota
	placeQuery
	placeBoth
	placeDifferent // client_secret only: the registered secret in one place, another one in the other
)

var placeNames = []string{"body", "query-only", "both-equal", "both-different"}

func (s *spec) gtDiffers() bool {
	return s.GTPlace == gtQueryTargetBodyDecoy || s.GTPlace == gtQueryDecoyBodyTarget
}

// badGrant: a grant this client must not be served (not registered for it, or not offered by the provider).
func (s *spec) badGrant(o int) string {
	g := opGrant[o]
	switch {
	case g == "":
		return ""
	case s.grantDisabled(g):
		return "grant-disabled"
	case !s.has(g):
		return "grant-unregistered"
	}
	return ""
}

func (s *spec) cfgKey() string {
	return fmt.Sprintf("post=%v,pkjwt=%v,refresh=%v,permsub=%v,naive=%v,dyn=%v,caps=%s", s.Post, s.PKJWT, s.Refresh, s.PermSub, s.Naive, s.Dyn, s.Caps)
}

// grantDisabled: the provider configuration / storage capability set does not offer the grant.
func (s *spec) grantDisabled(g oidc.GrantType) bool {
	switch g {
	case oidc.GrantTypeRefreshToken:
		return !s.Refresh
	case oidc.GrantTypeClientCredentials:
		return !s.Caps.CC
	case oidc.GrantTypeTokenExchange:
		return !s.Caps.TE
	case oidc.GrantTypeDeviceCode:
		return !s.Caps.Dev
	}
	return false
}

const reservedSecret = "p@ss:w/ord+%&=?# ü"

func buildSpec(r *rand.Rand, idx int) *spec { return buildSpecCell(r, idx, idx%coreCells) }

// cellOf is the index of a core cell (the inverse of the decomposition in buildSpecCell).
func cellOf(o, pres, auth, grantKind int) int {
	return o + numOps*(pres+numPres*(auth+numAuth*grantKind))
}

// buildSpecCell draws the case idx for a given core cell (the overlap part chooses its cells itself).
func buildSpecCell(r *rand.Rand, idx, cell int) *spec {
	c := cell
	s := &spec{Idx: idx}
	s.Op = c % numOps
	c /= numOps
	s.Pres = c % numPres
	c /= numPres
	s.Auth = c % numAuth
	c /= numAuth
	s.GrantKind = c % numGrantKinds
	s.OpName, s.PresName, s.AuthName, s.GrantsHow = opNames[s.Op], presNames[s.Pres], authNames[s.Auth], grantKindNames[s.GrantKind]

	// everything else is drawn from the PRNG of the case (biased towards "enabled" so that refusals stay attributable)
	s.Post = r.IntN(4) != 0
	s.PKJWT = r.IntN(4) != 0
	s.Refresh = r.IntN(4) != 0
	s.Caps = vstore.Caps{CC: r.IntN(5) != 0, TE: r.IntN(5) != 0, Dev: r.IntN(5) != 0}
	s.CapsStr = s.Caps.String()

	switch s.Auth {
	case authNone:
		s.App = []op.ApplicationType{op.ApplicationTypeNative, op.ApplicationTypeNative, op.ApplicationTypeUserAgent, op.ApplicationTypeWeb}[r.IntN(4)]
	default:
		s.App = []op.ApplicationType{op.ApplicationTypeWeb, op.ApplicationTypeWeb, op.ApplicationTypeNative, op.ApplicationTypeUserAgent}[r.IntN(4)]
	}
	s.AppName = s.App.String()
	s.Dual = r.IntN(2) == 0
	switch s.Auth {
	case authBasic, authPost:
		s.HasSecret, s.HasKey = true, s.Dual
	case authJWT:
		s.HasSecret, s.HasKey = s.Dual, true
	case authNone:
		s.HasSecret, s.HasKey, s.Dual = false, false, false
	}
	if twoKinds(s.Pres) && s.Auth != authNone && (idx/coreCells)%4 != 3 {
		// credentials of both kinds mostly mean something to a client whose record holds material of both kinds
		// (every fourth visit of the cell keeps the drawn value)
		s.Dual, s.HasSecret, s.HasKey = true, true, true
	}
	s.IDFlavor = 0
	if r.IntN(6) == 0 {
		s.IDFlavor = 1
	}
	if s.HasSecret {
		s.Secret = fmt.Sprintf("s3cret-%d", idx)
		if r.IntN(3) == 0 {
			s.Secret = fmt.Sprintf("%s-%d", reservedSecret, idx)
		}
	}
	s.JWTAccess = r.IntN(3) == 0

	target := opGrant[s.Op]
	bits := r.IntN(1 << len(allGrants))
	drop := allGrants[r.IntN(len(allGrants))]
	switch s.GrantKind {
	case gkAll:
		s.Grants = slices.Clone(allGrants)
	case gkAllButTarget:
		t := target
		if t == "" {
			t = drop
		}
		for _, g := range allGrants {
			if g != t {
				s.Grants = append(s.Grants, g)
			}
		}
	case gkOnlyTarget:
		s.Grants = []oidc.GrantType{}
		if target != "" {
			s.Grants = append(s.Grants, target)
		}
	default:
		s.Grants = []oidc.GrantType{}
		for i, g := range allGrants {
			if bits&(1<<i) != 0 {
				s.Grants = append(s.Grants, g)
			}
		}
	}
	s.WrongVar = r.IntN(5)
	s.OtherKid = r.IntN(2) == 0
	s.RevokeKind = r.IntN(5)
	s.SubjJWT = r.IntN(3) != 0

	// placement (body only in half of the cases)
	s.GTPlace = []int{gtBody, gtBody, gtBody, gtBody, gtQuery, gtBoth, gtQueryTargetBodyDecoy, gtQueryDecoyBodyTarget}[r.IntN(8)]
	decoys := []int{}
	for _, o := range []int{opCode, opRefresh, opCC, opTE, opDevice} {
		if o != s.Op {
			decoys = append(decoys, o)
		}
	}
	s.Decoy = decoys[r.IntN(len(decoys))]
	if r.IntN(3) == 0 && s.Op != opCC {
		s.Decoy = opCC // the one grant that needs no parameters of its own, i.e. the decoy that can actually be served
	}
	if !isTokenOp(s.Op) || s.Op == opEmpty {
		s.GTPlace = gtBody
	} else if s.Op == opBearer || s.Op == opJunk {
		s.GTPlace %= 3 // same value wherever it sits
	}
	if s.gtDiffers() {
		s.DecoyName = opNames[s.Decoy]
	}
	s.CredPlace = []int{placeBody, placeBody, placeBody, placeQuery, placeBoth, placeDifferent}[r.IntN(6)]
	s.ParamPlace = []int{placeBody, placeBody, placeBody, placeQuery, placeBoth}[r.IntN(5)]
	s.GTPlaceStr, s.CredStr, s.ParamStr = gtPlaceNames[s.GTPlace], placeNames[s.CredPlace], placeNames[s.ParamPlace]
	if s.Auth == authBasic && r.IntN(6) == 0 {
		s.OddAuth = []string{"unset", "client_secret_jwt"}[r.IntN(2)]
	}
	if r.IntN(6) == 0 {
		s.FaultAt, s.FaultKind = 1+r.IntN(5), r.IntN(int(vstore.NumFaultKinds))
	}
	// a storage that compares secrets naively only matters where no (or an empty) secret is presented
	switch s.Pres {
	case pNone, pIDOnly, pBasicEmptySecret, pAssertTypeOnly, pAssertNoType:
		s.Naive = r.IntN(2) == 0
	}
	// a host-derived issuer only matters to assertions (their audience must be the issuer of THIS request); cases of one
	// world alternate between its two host names, so whatever the provider memoises per issuer is exercised both ways
	switch s.Pres {
	case pAssertValid, pAssertValidWithID, pAssertWrongAud, pAssertOtherKey, pAssertExpired, pOwnAssertOtherID, pMixedAssert,
		pBasicRightAssertBad, pPostRightAssertBad, pBasicWrongAssertValid, pBasicRightAssertValid:
		if r.IntN(3) == 0 {
			s.Dyn, s.HostB = true, r.IntN(2) == 0
		}
	}
	// a permissive subject check only matters to assertions: concentrate it on the assertion presentations
	switch s.Pres {
	case pAssertSubMismatch, pAssertForgedIssuer:
		s.PermSub = r.IntN(2) == 0
	case pAssertValid, pAssertOtherKey, pAssertValidWithID, pMixedAssert, pOwnAssertOtherID, pUnknownAssert:
		s.PermSub = r.IntN(4) == 0
	}
	// (drawn last, so that everything above is the same function of (seed, index) as before this dimension existed)
	// a stray grant_type parameter on an endpoint that is not the token endpoint: legal, meaningless to the endpoint, and
	// exactly what makes a router consult the registration between authenticating the client and serving the request
	if !isTokenOp(s.Op) && r.IntN(4) == 0 {
		if len(s.Grants) > 0 && r.IntN(2) == 0 {
			s.Stray = string(s.Grants[r.IntN(len(s.Grants))])
		} else {
			s.Stray = string(allGrants[r.IntN(len(allGrants))])
		}
	}
	return s
}

func (s *spec) clientID(router string) string {
	if s.IDFlavor == 1 {
		return fmt.Sprintf("c05 +%%/&=?ü-%d-%s", s.Idx, router)
	}
	return fmt.Sprintf("c05-%d-%s", s.Idx, router)
}

// wrongSecret derives a secret that is not the registered one.
func (s *spec) wrongSecret() string {
	right := s.Secret
	if right == "" {
		return "guessed-secret"
	}
	switch s.WrongVar {
	case 0:
		return "not-the-secret"
	case 1:
		return right + "x"
	case 2:
		return right[:len(right)-1]
	case 3:
		return strings.ToUpper(right)
	default:
		return url.QueryEscape(right) + "%20"
	}
}

// ---------- what a presentation proves (filled in by the request builder) ----------

const (
	claimNone    = iota // no client named at all
	claimOwn            // the case's client is named
	claimUnknown        // a client id that is not registered
	claimMixed          // another client authenticates validly while the case's client_id is in the form
)

type proof struct {
	claim          int
	rightSecret    bool // the registered secret is presented (Basic or POST), well-formed
	rightViaBasic  bool // ... and it travels in a well-formed Basic header (otherwise only in the form / query)
	altEncoding    bool // ... but in a non-canonical encoding (raw, unencoded Basic): not counted as "right credential" for the positive cells
	wrongSecret    bool // some secret that is not the registered one (or none is registered) is presented
	malformed      bool // malformed percent-encoding in the Basic credentials
	garbageHeader  bool // Authorization header that is not Basic at all (bad base64)
	validAssertion bool // assertion signed by a key registered for the client, fresh, right audience, typed
	badAssertion   bool // assertion present that does not verify for the client
	viaPost        bool // a secret travels in the form
	canonical      bool // a right credential of the registered kind in canonical form (for the positive cells)
}

// bearerKind: for the jwt-bearer grant the `assertion` parameter *is* the credential
const (
	bkValid = iota
	bkAbsent
	bkBad
	bkUnknownIssuer
)

// verdict of the oracle
type verdict struct {
	reasons []string // non-empty => mustRefuse
	grey    []string // circumstances the statement leaves open (counted only)
}

var reasonPriority = []string{
	"grant-unknown", "grant-missing", "no-client", "unknown-client", "grant-disabled", "grant-unregistered",
	"wrong-kind-secret", "wrong-kind-assertion", "post-disabled", "post-disabled:basic-registered-client", "wrong-secret", "malformed-credential", "bad-assertion",
	"assertion-missing", "no-credential", "public-client-not-allowed", "mixed-identity",
}

func sortReasons(rs []string) {
	slices.SortFunc(rs, func(a, b string) int {
		return slices.Index(reasonPriority, a) - slices.Index(reasonPriority, b)
	})
}

// oracle: the statement's refusal obligations for this case.
//
//	mustRefuse = unknown client ∨ wrong secret ∨ credential of the wrong kind for the registration ∨
//	             no credential for a confidential client ∨ grant not registered for the client ∨
//	             grant disabled/unsupported at the provider
//
// Decided pitfalls (DESIGN 6a): a public client with a superfluous secret and a post-registered client using
// Basic (or vice versa) are not refusal obligations; device authorization needs only a known client registered
// for the device grant, but a wrong secret must be refused.
func oracle(s *spec, p proof, bk int) verdict {
	v := oracleOneGrant(s, p, bk)
	if !s.gtDiffers() {
		return v
	}
	// grant_type names two different grants (URL query vs. body). Which one is "the" grant of the request is not for
	// the oracle to say: the grant obligations are judged by what was actually served (see execute), a priori only
	// when both named grants are closed to the client.
	keep := v.reasons[:0]
	for _, r := range v.reasons {
		if r != "grant-unregistered" && r != "grant-disabled" {
			keep = append(keep, r)
		}
	}
	v.reasons = keep
	switch {
	case p.claim == claimMixed:
		// the authenticated other client may legitimately be served the other grant
		v.reasons = nil
		v.grey = append(v.grey, "grant_type-in-two-places:mixed-identity-not-judged")
	case p.claim == claimOwn && (s.Op == opCC || s.Decoy == opCC):
		// client_credentials has its own authentication rules (storage authenticates, public clients excluded)
		v.reasons = nil
		v.grey = append(v.grey, "grant_type-in-two-places:authentication-not-judged")
	}
	if p.claim == claimOwn {
		if bt, bd := s.badGrant(s.Op), s.badGrant(s.Decoy); bt != "" && bd != "" {
			v.reasons = append(v.reasons, bt)
		}
	}
	sortReasons(v.reasons)
	return v
}

func oracleOneGrant(s *spec, p proof, bk int) verdict {
	var v verdict
	add := func(r string) {
		if !slices.Contains(v.reasons, r) {
			v.reasons = append(v.reasons, r)
		}
	}
	grey := func(g string) { v.grey = append(v.grey, g) }
	defer func() { sortReasons(v.reasons) }()

	switch s.Op {
	case opJunk:
		add("grant-unknown")
		return v
	case opEmpty:
		add("grant-missing")
		return v
	case opBearer:
		// RFC 7523 authorization grant: the signed assertion is the credential; the library resolves no op.Client
		// for it (storage contract: GetKeyByIDAndClientID(keyID, userID)), so "registered for the client" is not judged.
		switch bk {
		case bkAbsent:
			add("assertion-missing")
		case bkBad:
			add("bad-assertion")
		case bkUnknownIssuer:
			add("unknown-client")
		}
		if !s.has(oidc.GrantTypeBearer) {
			grey("jwt-bearer:issuer-is-a-client-without-that-grant")
		}
		return v
	}

	target := opGrant[s.Op]
	switch p.claim {
	case claimNone:
		add("no-client")
		return v
	case claimUnknown:
		add("unknown-client")
		return v
	case claimMixed:
		// another client authenticated validly; the grant material belongs to the case's client
		switch s.Op {
		case opCode, opRefresh, opDevice:
			add("mixed-identity")
		default:
			grey("mixed-identity:acting-for-the-authenticated-client-is-legitimate")
		}
		return v
	}

	// ---- the case's own client is named ----
	if target != "" {
		if !s.has(target) {
			add("grant-unregistered")
		}
		if s.grantDisabled(target) {
			add("grant-disabled")
		}
	}

	if s.Op == opDevAuth {
		// no authentication demanded; but a wrong credential must be refused
		if !p.rightSecret && !p.validAssertion {
			switch {
			case p.malformed:
				add("malformed-credential")
			case p.wrongSecret && s.Auth != authNone:
				add("wrong-secret")
			case p.badAssertion:
				add("bad-assertion")
			}
		}
		if p.wrongSecret && s.Auth == authNone {
			grey("public-client-superfluous-secret")
		}
		return v
	}

	switch s.Auth {
	case authBasic, authPost:
		if !p.rightSecret {
			switch {
			case p.validAssertion:
				add("wrong-kind-assertion")
			case p.malformed:
				add("malformed-credential")
			case p.wrongSecret:
				add("wrong-secret")
			case p.badAssertion:
				add("bad-assertion")
			default:
				add("no-credential")
			}
		} else {
			if p.wrongSecret {
				grey("right-and-wrong-secret-together")
			}
			if p.badAssertion || p.validAssertion {
				grey("right-secret-next-to-an-assertion")
			}
			// "correct secret via Basic or - if enabled - POST": a secret that travels only in the form while the provider
			// has client_secret_post disabled is not an authentication
			if !p.rightViaBasic && !s.Post {
				if s.Auth == authPost {
					add("post-disabled")
				} else if strictPostDisabledForBasicRegistered {
					add("post-disabled:basic-registered-client")
				} else {
					grey("post-disabled:basic-registered-client")
				}
			}
		}
	case authJWT:
		if !p.validAssertion {
			switch {
			case p.rightSecret:
				add("wrong-kind-secret")
			case p.malformed:
				add("malformed-credential")
			case p.wrongSecret:
				add("wrong-secret")
			case p.badAssertion:
				add("bad-assertion")
			default:
				add("no-credential")
			}
		} else {
			if !s.PKJWT {
				grey(opNames[s.Op] + ":valid-assertion-while-private_key_jwt-disabled")
			}
			if p.rightSecret || p.wrongSecret {
				grey("valid-assertion-next-to-a-secret")
			}
		}
	case authNone:
		if s.Op == opCC || s.Op == opIntrospect {
			// "no secret for public clients where the grant allows it": these two never do
			add("public-client-not-allowed")
		}
		if p.wrongSecret {
			grey("public-client-superfluous-secret")
		}
		if p.badAssertion || p.malformed {
			grey("public-client-superfluous-bad-credential")
		}
	}

	// "A credential of the wrong kind" is judged where the library itself resolves the op.Client registration while
	// serving the request (token endpoint grants, revocation). Two cells authenticate an opaque caller id purely
	// through storage and never look at a registration, so what counts as "the way it is registered" is storage
	// policy there and the statement is not decidable against the library:
	//   - client_credentials: ClientCredentialsStorage.ClientCredentials(id, secret) is the authenticator;
	//   - introspection: the caller may be a resource server / service account without any client registration
	//     (AuthorizeClientIDSecret / GetKeyByIDAndClientID decide alone; the repository's example storage keeps
	//     such keys under service users, not clients).
	// These acceptances are counted as grey (histogram grey_outcome), never failed.
	if s.Op == opCC || s.Op == opIntrospect || !strictWrongKind {
		for _, k := range []string{"wrong-kind-secret", "wrong-kind-assertion"} {
			if i := slices.Index(v.reasons, k); i >= 0 {
				v.reasons = slices.Delete(v.reasons, i, i+1)
				grey(opNames[s.Op] + ":" + k + "(storage-decides)")
			}
		}
	}
	// A stray grant_type=client_credentials makes the same storage-side authenticator (ClientCredentials(id, secret)) the
	// authenticator of the request on the Server router: a stored secret it accepts is storage policy there as well.
	if s.Stray == string(oidc.GrantTypeClientCredentials) && !isTokenOp(s.Op) {
		if i := slices.Index(v.reasons, "wrong-kind-secret"); i >= 0 {
			v.reasons = slices.Delete(v.reasons, i, i+1)
			grey(opNames[s.Op] + ":wrong-kind-secret(stray grant_type=client_credentials: storage-decides)")
		}
	}
	return v
}

// strictWrongKind: a client whose storage record also holds credential material of the kind it is NOT registered
// for (a secret for a private_key_jwt client, a key for a client_secret client) and that presents that material
// must be refused ("a credential of the wrong kind for that client ... is always refused"). Setting this to false
// turns the whole class grey.
const strictWrongKind = true

// strictPostDisabledForBasicRegistered: the provider flag AuthMethodPost=false also closes the form / query channel to
// clients registered for client_secret_basic (the library consults the flag only for post-registered clients).
// false turns that sub-class grey; the post-registered class ("post-disabled") stays must-refuse.
const strictPostDisabledForBasicRegistered = false
