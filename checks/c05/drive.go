package main

// Worlds (one per worker and provider configuration), grant material minted
// through the real flows, and the literal request of a case.

import (
	"encoding/base64"
	"net/http"
	"net/url"
	"strings"
	"time"

	jose "github.com/go-jose/go-jose/v4"

	"github.com/zitadel/oidc/v3/pkg/oidc"
	"github.com/zitadel/oidc/v3/pkg/op"

	"verif/internal/keys"
	"verif/internal/opdrv"
	"verif/internal/vclient"
)

const (
	redirectURI = "https://c05.example/cb"
	verifier    = "c05-verifier-0123456789-0123456789-0123456789-abcdef"
	mintSecret  = "mint-secret-only-used-before-the-registration-under-test"
	otherBID    = "c05-other-basic"
	otherBSec   = "secret-of-the-other-client"
	otherJID    = "c05-other-jwt"
	helperID    = "c05-helper"
	helperJID   = "c05-helper-jwt-access-tokens"
	helperSec   = "secret-helper"
)

var (
	ownKey   = func() *keys.Key { return keys.Get("c05-own", jose.RS256) }
	otherKey = func() *keys.Key { return keys.Get("c05-other", jose.RS256) }
	rogueKey = func() *keys.Key { return keys.Get("c05-rogue", jose.RS256) }
)

// wctx is a world plus the fixed population every case relies on.
type wctx struct {
	w       *opdrv.World
	subject [2][2]string // a live access token of user-1 (subject token for token exchange), per router and kind (opaque, JWT)
}

type pool map[string]*wctx

func (p pool) get(s *spec) (*wctx, error) { return p.getKeyed(s, nil) }

// the overlap part's worlds sign with ES256 (nothing in C05 depends on the provider's signing algorithm; it only makes
// the thousands of token responses of that part cheaper)
func ovSigningKey() *keys.Key { return keys.Get("c05-op-es256", jose.ES256) }

// getKeyed: a world whose provider signs with sk (nil = the default RS256 key); a pool is used with one key throughout
func (p pool) getKeyed(s *spec, sk *keys.Key) (*wctx, error) {
	k := s.cfgKey()
	if wc, ok := p[k]; ok {
		return wc, nil
	}
	cfg := opdrv.DefaultConfig()
	cfg.AuthMethodPost, cfg.AuthMethodPrivateKeyJWT, cfg.GrantTypeRefreshToken = s.Post, s.PKJWT, s.Refresh
	wopt := opdrv.Options{Config: cfg, Caps: s.Caps, SigningKey: sk}
	if s.PermSub {
		wopt.WrapProvider = opdrv.PermissiveSubject
	}
	if s.Dyn {
		wopt.IssuerFn = op.IssuerFromHost("")
	}
	w, err := opdrv.NewWorld(wopt)
	if err != nil {
		return nil, err
	}
	w.Store.NaiveSecrets = s.Naive
	full := func(c *vclient.Client) *vclient.Client {
		c.Grants = append([]oidc.GrantType(nil), allGrants...)
		c.ServiceUser = true
		return c
	}
	w.Store.AddClient(full(vclient.Confidential(helperID, helperSec, redirectURI)))
	hj := full(vclient.Confidential(helperJID, helperSec, redirectURI))
	hj.TokenType = op.AccessTokenTypeJWT
	w.Store.AddClient(hj)
	w.Store.AddClient(full(vclient.Confidential(otherBID, otherBSec, redirectURI)))
	oj := full(vclient.Confidential(otherJID, "", redirectURI))
	oj.Auth = oidc.AuthMethodPrivateKeyJWT
	w.Store.AddClient(oj)
	w.Store.AddClientKey(otherJID, otherKey())
	w.Store.AddClientKey(otherBID, otherKey())
	wc := &wctx{w: w}
	p[k] = wc
	return wc, nil
}

// material is otherwise valid grant material of the case's client.
type material struct {
	Code       string `json:"code,omitempty"`
	Access     string `json:"access_token,omitempty"`
	Refresh    string `json:"refresh_token,omitempty"`
	DeviceCode string `json:"device_code,omitempty"`
	Subject    string `json:"subject_token,omitempty"`
}

func mintCode(w *opdrv.World, router int, clientID, scope string) (string, string) {
	p := opdrv.AuthParams{ClientID: clientID, RedirectURI: redirectURI, ResponseType: "code", Scope: scope, State: "st",
		Challenge: opdrv.S256(verifier), ChallengeMethod: "S256"}
	code, _, last := w.CodeFlow(router, p, "user-1")
	if code == "" {
		return "", "code flow: " + last.Brief()
	}
	return code, ""
}

func mintTokens(w *opdrv.World, router int, clientID, secret string) (*opdrv.Tokens, string) {
	code, why := mintCode(w, router, clientID, "openid offline_access")
	if code == "" {
		return nil, why
	}
	resp := w.ExchangeCode(router, code, redirectURI, verifier, opdrv.BasicAuth(clientID, secret))
	t := opdrv.DecodeTokens(resp)
	if t == nil || t.Access == "" || t.Refresh == "" {
		return nil, "code exchange: " + resp.Brief()
	}
	return t, ""
}

// mint registers the client with a plainly conforming registration (Basic, every grant), obtains the material the
// case needs through the real endpoints of the router under test, and then installs the registration under test.
func (wc *wctx) mint(s *spec, router int, id string) (material, string) {
	w := wc.w
	var m material
	mr := vclient.Confidential(id, mintSecret, redirectURI)
	mr.Grants = append([]oidc.GrantType(nil), allGrants...)
	mr.ServiceUser = true
	if s.JWTAccess {
		mr.TokenType = op.AccessTokenTypeJWT
	}
	w.Store.AddClient(mr)

	switch s.Op {
	case opCode:
		code, why := mintCode(w, router, id, "openid")
		if code == "" {
			return m, why
		}
		m.Code = code
	case opRefresh, opIntrospect, opRevoke:
		t, why := mintTokens(w, router, id, mintSecret)
		if t == nil {
			return m, why
		}
		m.Access, m.Refresh = t.Access, t.Refresh
	case opTE:
		kind, hid := 0, helperID
		if s.SubjJWT {
			kind, hid = 1, helperJID
		}
		if wc.subject[router][kind] == "" {
			t, why := mintTokens(w, router, hid, helperSec)
			if t == nil {
				return m, "subject token: " + why
			}
			wc.subject[router][kind] = t.Access
		}
		m.Subject = wc.subject[router][kind]
	case opDevice:
		if s.Caps.Dev {
			resp := w.Post(router, "/device_authorization", url.Values{"scope": {"openid"}}, opdrv.BasicAuth(id, mintSecret))
			dc := resp.Str("device_code")
			if resp.Status != 200 || dc == "" {
				return m, "device authorization: " + resp.Brief()
			}
			if !w.Store.ApproveDevice(dc, "user-1") {
				return m, "device code not stored"
			}
			m.DeviceCode = dc
		} else {
			m.DeviceCode = "no-device-storage-so-no-device-code"
		}
	}

	// the registration under test replaces the minting registration (same id, same tokens and codes)
	tr := &vclient.Client{
		ID: id, Secret: s.Secret, Redirects: []string{redirectURI}, AppType: s.App, Auth: registeredAuth(s),
		RespTypes: []oidc.ResponseType{oidc.ResponseTypeCode}, Grants: s.Grants, TokenType: mr.TokenType,
		IDTokenTTL: time.Hour, LoginPrefix: vclient.LoginBase, ServiceUser: true,
	}
	w.Store.AddClient(tr)
	if s.HasKey {
		w.Store.AddClientKey(id, ownKey())
	}
	return m, ""
}

// ---------- the literal request ----------

type request struct {
	Path          string     `json:"path"`
	Query         url.Values `json:"query,omitempty"` // parameters in the URL of the POST
	Form          url.Values `json:"form"`            // parameters in the body
	Authorization string     `json:"authorization,omitempty"`
}

func basicHeader(id, secret string, encode bool) string {
	if encode {
		id, secret = url.QueryEscape(id), url.QueryEscape(secret)
	}
	return "Basic " + base64.StdEncoding.EncodeToString([]byte(id+":"+secret))
}

type assertionKind int

const (
	akValid assertionKind = iota
	akExpired
	akOtherKey
	akWrongAud
	akSubMismatch
	akForgedIssuer
)

// assertion builds a JWT assertion for issuer iss; it reports whether it verifies for the case's client.
func assertion(s *spec, w *opdrv.World, iss string, kind assertionKind) (string, bool) {
	now := time.Now()
	iat, exp := now.Add(-5*time.Second), now.Add(10*time.Minute)
	aud := []string{issuerFor(s, w)}
	sub := iss
	k := ownKey()
	valid := s.HasKey
	if !s.HasKey {
		// no key registered for the client: the best a caller can do is sign with some key under the expected kid
		k = rogueKey().With(ownKey().Kid, jose.RS256, "sig")
	}
	switch kind {
	case akExpired:
		iat, exp = now.Add(-30*time.Minute), now.Add(-10*time.Minute)
		valid = false
	case akOtherKey:
		if s.OtherKid {
			k = otherKey() // kid of a key registered for another client
		} else {
			k = otherKey().With(ownKey().Kid, jose.RS256, "sig") // own kid, another client's private key
		}
		valid = false
	case akWrongAud:
		aud = []string{"https://not-the-op.example"}
		switch s.WrongVar % 4 {
		case 2:
			aud = []string{issuerFor(s, w) + ".attacker.example/"} // the issuer is a mere prefix of it
		case 3:
			aud = []string{issuerFor(s, w) + ":8443/oauth/token"}
		}
		if s.Dyn && s.WrongVar%2 == 1 {
			// the issuer this very provider has under its OTHER host name: not the issuer of this request
			aud = []string{otherIssuerFor(s, w)}
		}
		valid = false
	case akSubMismatch:
		// signed by the issuer's own key; only the subject differs: "its subject equals its issuer (unless a custom
		// subject check is configured)"
		sub = otherBID
		valid = valid && s.PermSub
	case akForgedIssuer:
		// another registered client signs with ITS key and kid, names itself as subject and the case's client as issuer
		sub = otherJID
		k = otherKey()
		valid = false
	}
	return opdrv.Assertion(k, iss, sub, aud, iat, exp, nil), valid
}

func setAssertion(f url.Values, a string, typed bool) {
	f.Set("client_assertion", a)
	if typed {
		f.Set("client_assertion_type", oidc.ClientAssertionTypeJWTAssertion)
	}
}

// present applies the credential presentation to the request and reports what it proves.
func present(s *spec, w *opdrv.World, id string, rq *request) proof {
	p := proof{claim: claimOwn}
	f := rq.Form
	secretOr := func() (string, bool) {
		if s.HasSecret {
			return s.Secret, true
		}
		return "guessed-secret", false
	}
	unescapesToItself := func(x string) bool {
		u, err := url.QueryUnescape(x)
		return err == nil && u == x
	}
	switch s.Pres {
	case pNone:
		p.claim = claimNone
	case pIDOnly:
		f.Set("client_id", id)
	case pBasicRight:
		sec, ok := secretOr()
		rq.Authorization = basicHeader(id, sec, true)
		p.rightSecret, p.wrongSecret, p.canonical, p.rightViaBasic = ok, !ok, ok, ok
	case pBasicWrong:
		rq.Authorization = basicHeader(id, s.wrongSecret(), true)
		p.wrongSecret = true
	case pAssertTypeOnly:
		f.Set("client_id", id)
		f.Set("client_assertion_type", oidc.ClientAssertionTypeJWTAssertion)
	case pBasicEmptySecret:
		rq.Authorization = basicHeader(id, "", true)
		p.wrongSecret = true
	case pBasicOtherSecret:
		rq.Authorization = basicHeader(id, otherBSec, true)
		p.wrongSecret = true
	case pBasicRaw:
		sec, ok := secretOr()
		rq.Authorization = basicHeader(id, sec, false)
		same := unescapesToItself(id) && unescapesToItself(sec) && !strings.Contains(id, ":")
		// the registered secret is presented, only not form-encoded first: never a refusal obligation
		p.rightSecret, p.wrongSecret, p.rightViaBasic = ok, !ok, ok
		p.altEncoding = !same
		p.canonical = ok && same
	case pBasicMalformedPct:
		sec, _ := secretOr()
		if s.WrongVar%2 == 0 {
			rq.Authorization = basicHeader(url.QueryEscape(id), url.QueryEscape(sec)+"%zz", false)
		} else {
			rq.Authorization = basicHeader(url.QueryEscape(id)+"%zz", url.QueryEscape(sec), false)
		}
		p.malformed = true
	case pBasicBadBase64:
		rq.Authorization = "Basic ###not*base64###"
		f.Set("client_id", id)
		p.garbageHeader = true
	case pBasicDoubleEnc:
		sec, ok := secretOr()
		rq.Authorization = basicHeader(url.QueryEscape(id), url.QueryEscape(sec), true)
		same := url.QueryEscape(id) == id && url.QueryEscape(sec) == sec
		if same {
			p.rightSecret, p.wrongSecret, p.canonical, p.rightViaBasic = ok, !ok, ok, ok
		} else if url.QueryEscape(id) != id {
			p.claim = claimUnknown // after one decoding the id is not the registered one
		} else {
			p.wrongSecret = true
		}
	case pPostRight:
		sec, ok := secretOr()
		f.Set("client_id", id)
		f.Set("client_secret", sec)
		p.rightSecret, p.wrongSecret, p.canonical, p.viaPost = ok, !ok, ok, true
	case pPostWrong:
		f.Set("client_id", id)
		f.Set("client_secret", s.wrongSecret())
		p.wrongSecret, p.viaPost = true, true
	case pBasicRightPostWrong:
		sec, ok := secretOr()
		rq.Authorization = basicHeader(id, sec, true)
		f.Set("client_id", id)
		f.Set("client_secret", s.wrongSecret())
		p.rightSecret, p.wrongSecret, p.viaPost, p.rightViaBasic = ok, true, true, ok
	case pBasicWrongPostRight:
		sec, ok := secretOr()
		rq.Authorization = basicHeader(id, s.wrongSecret(), true)
		f.Set("client_id", id)
		f.Set("client_secret", sec)
		p.rightSecret, p.wrongSecret, p.viaPost = ok, true, true
	case pAssertValid, pAssertValidWithID, pAssertNoType:
		a, valid := assertion(s, w, id, akValid)
		typed := s.Pres != pAssertNoType
		setAssertion(f, a, typed)
		if s.Pres != pAssertValid {
			f.Set("client_id", id)
		}
		// an untyped assertion is a non-canonical presentation of a good credential: it still is the client's
		// credential (so never "no credential"), but it does not count for the positive cells
		p.validAssertion = valid
		p.badAssertion = !valid
		p.altEncoding = valid && !typed
		p.canonical = valid && typed
	case pAssertExpired, pAssertOtherKey, pAssertWrongAud, pAssertSubMismatch, pAssertForgedIssuer:
		kind := map[int]assertionKind{pAssertExpired: akExpired, pAssertOtherKey: akOtherKey, pAssertWrongAud: akWrongAud, pAssertSubMismatch: akSubMismatch, pAssertForgedIssuer: akForgedIssuer}[s.Pres]
		a, valid := assertion(s, w, id, kind)
		setAssertion(f, a, true)
		if s.WrongVar%2 == 0 {
			f.Set("client_id", id)
		}
		// (a subject mismatch is a valid credential of the issuer when the application configured a permissive check)
		p.validAssertion, p.badAssertion = valid, !valid
	case pBasicRightAssertBad, pPostRightAssertBad:
		sec, ok := secretOr()
		if s.Pres == pBasicRightAssertBad {
			rq.Authorization = basicHeader(id, sec, true)
			p.rightViaBasic = ok
		} else {
			f.Set("client_id", id)
			f.Set("client_secret", sec)
			p.viaPost = true
		}
		p.rightSecret, p.wrongSecret = ok, !ok
		// the assertion next to it proves nothing
		switch s.WrongVar {
		case 0:
			setAssertion(f, "x", false)
		case 1:
			setAssertion(f, "x", true)
		default:
			a, _ := assertion(s, w, id, []assertionKind{akExpired, akOtherKey, akWrongAud}[s.WrongVar-2])
			setAssertion(f, a, true)
		}
		p.badAssertion = true
	case pBasicWrongAssertValid, pBasicRightAssertValid:
		a, valid := assertion(s, w, id, akValid)
		setAssertion(f, a, true)
		p.validAssertion, p.badAssertion = valid, !valid
		if s.Pres == pBasicRightAssertValid {
			sec, ok := secretOr()
			rq.Authorization = basicHeader(id, sec, true)
			p.rightSecret, p.wrongSecret, p.rightViaBasic = ok, !ok, ok
		} else {
			rq.Authorization = basicHeader(id, s.wrongSecret(), true)
			p.wrongSecret = true
		}
	case pOwnBasicOtherID:
		sec, ok := secretOr()
		rq.Authorization = basicHeader(id, sec, true)
		f.Set("client_id", otherBID)
		p.rightSecret, p.wrongSecret, p.rightViaBasic = ok, !ok, ok
	case pOwnAssertOtherID:
		a, valid := assertion(s, w, id, akValid)
		setAssertion(f, a, true)
		f.Set("client_id", otherBID)
		p.validAssertion, p.badAssertion = valid, !valid
	case pMixedBasic:
		rq.Authorization = basicHeader(otherBID, otherBSec, true)
		f.Set("client_id", id)
		p.claim = claimMixed
	case pMixedAssert:
		now := time.Now()
		a := opdrv.Assertion(otherKey(), otherJID, otherJID, []string{issuerFor(s, w)}, now.Add(-5*time.Second), now.Add(10*time.Minute), nil)
		setAssertion(f, a, true)
		f.Set("client_id", id)
		p.claim = claimMixed
	case pUnknownBasic:
		rq.Authorization = basicHeader("ghost-"+id, "some-secret", true)
		p.claim = claimUnknown
	case pUnknownID:
		f.Set("client_id", "ghost-"+id)
		p.claim = claimUnknown
	case pUnknownAssert:
		now := time.Now()
		k := rogueKey()
		if s.OtherKid {
			k = ownKey() // a key that IS registered - for another client id
		}
		a := opdrv.Assertion(k, "ghost-"+id, "ghost-"+id, []string{issuerFor(s, w)}, now.Add(-5*time.Second), now.Add(10*time.Minute), nil)
		setAssertion(f, a, true)
		p.claim = claimUnknown
	}
	return p
}

// bearerAssertion builds the `assertion` parameter of the jwt-bearer grant from the presentation dimension.
func bearerAssertion(s *spec, w *opdrv.World, id string, f url.Values) int {
	kind := akValid
	switch s.Pres {
	case pNone:
		return bkAbsent
	case pAssertExpired:
		kind = akExpired
	case pAssertOtherKey:
		kind = akOtherKey
	case pAssertWrongAud:
		kind = akWrongAud
	case pAssertSubMismatch:
		kind = akSubMismatch
	case pAssertForgedIssuer:
		kind = akForgedIssuer
	case pUnknownAssert, pUnknownBasic, pUnknownID:
		now := time.Now()
		a := opdrv.Assertion(rogueKey(), "ghost-"+id, "ghost-"+id, []string{issuerFor(s, w)}, now.Add(-5*time.Second), now.Add(10*time.Minute), nil)
		f.Set("assertion", a)
		return bkUnknownIssuer
	}
	a, valid := assertion(s, w, id, kind)
	f.Set("assertion", a)
	if valid {
		return bkValid
	}
	return bkBad
}

// buildRequest assembles the request of the case for client id with material m.
func buildRequest(s *spec, w *opdrv.World, id string, m material) (*request, proof, int) {
	rq := &request{Form: url.Values{}}
	f := rq.Form
	bk := bkValid
	switch s.Op {
	case opCode:
		rq.Path = "/oauth/token"
		f.Set("grant_type", string(oidc.GrantTypeCode))
		f.Set("code", m.Code)
		f.Set("redirect_uri", redirectURI)
		f.Set("code_verifier", verifier)
	case opRefresh:
		rq.Path = "/oauth/token"
		f.Set("grant_type", string(oidc.GrantTypeRefreshToken))
		f.Set("refresh_token", m.Refresh)
	case opCC:
		rq.Path = "/oauth/token"
		f.Set("grant_type", string(oidc.GrantTypeClientCredentials))
		f.Set("scope", "api")
	case opBearer:
		rq.Path = "/oauth/token"
		f.Set("grant_type", string(oidc.GrantTypeBearer))
		f.Set("scope", "openid api")
		bk = bearerAssertion(s, w, id, f)
	case opTE:
		rq.Path = "/oauth/token"
		f.Set("grant_type", string(oidc.GrantTypeTokenExchange))
		f.Set("subject_token", m.Subject)
		f.Set("subject_token_type", string(oidc.AccessTokenType))
	case opDevice:
		rq.Path = "/oauth/token"
		f.Set("grant_type", string(oidc.GrantTypeDeviceCode))
		f.Set("device_code", m.DeviceCode)
	case opJunk:
		rq.Path = "/oauth/token"
		f.Set("grant_type", []string{"password", "implicit", "urn:ietf:params:oauth:grant-type:saml2-bearer", "AUTHORIZATION_CODE", "authorization_code ", "refresh_token\x00"}[s.WrongVar%6])
		f.Set("code", "x")
		f.Set("username", "ada")
		f.Set("password", "pw")
	case opEmpty:
		rq.Path = "/oauth/token"
		if s.WrongVar%2 == 0 {
			f.Set("grant_type", "")
		}
		f.Set("code", "x")
	case opIntrospect:
		rq.Path = "/oauth/introspect"
		f.Set("token", m.Access)
	case opRevoke:
		rq.Path = "/revoke"
		switch s.RevokeKind {
		case 0:
			f.Set("token", m.Access)
		case 1:
			f.Set("token", m.Access)
			f.Set("token_type_hint", "access_token")
		case 2:
			f.Set("token", m.Refresh)
		case 3:
			f.Set("token", m.Refresh)
			f.Set("token_type_hint", "refresh_token")
		default:
			f.Set("token", m.Access)
			f.Set("token_type_hint", "refresh_token")
		}
	case opDevAuth:
		rq.Path = "/device_authorization"
		f.Set("scope", "openid")
	}
	ownParams := []string{}
	for k := range f {
		if k != "grant_type" {
			ownParams = append(ownParams, k)
		}
	}
	if s.Stray != "" && !isTokenOp(s.Op) {
		f.Set("grant_type", s.Stray)
	}
	var p proof
	if s.Op == opBearer {
		// client authentication is not part of this grant; attach secret-style presentations as superfluous material
		switch s.Pres {
		case pIDOnly, pBasicRight, pBasicWrong, pPostRight, pPostWrong, pBasicOtherSecret:
			p = present(s, w, id, rq)
		default:
			p = proof{claim: claimOwn}
		}
		p.canonical = bk == bkValid
	} else {
		p = present(s, w, id, rq)
	}
	place(s, rq, &p, ownParams)
	return rq, p, bk
}

var credentialParams = []string{"client_id", "client_secret", "client_assertion", "client_assertion_type"}

// place distributes the parameters over body and URL query as the placement dimensions say.
func place(s *spec, rq *request, p *proof, ownParams []string) {
	rq.Query = url.Values{}
	f, q := rq.Form, rq.Query
	move := func(k string, how int) {
		v, ok := f[k]
		if !ok {
			return
		}
		switch how {
		case placeQuery:
			q[k] = v
			delete(f, k)
		case placeBoth:
			q[k] = v
		}
	}
	if gt, ok := f["grant_type"]; ok && isTokenOp(s.Op) {
		decoy := []string{string(opGrant[s.Decoy])}
		switch s.GTPlace {
		case gtQuery:
			q["grant_type"] = gt
			delete(f, "grant_type")
		case gtBoth:
			q["grant_type"] = gt
		case gtQueryTargetBodyDecoy:
			q["grant_type"], f["grant_type"] = gt, decoy
		case gtQueryDecoyBodyTarget:
			q["grant_type"] = decoy
		}
		if s.gtDiffers() && s.Decoy == opCC && f.Get("scope") == "" {
			f.Set("scope", "api")
		}
	}
	for _, k := range ownParams {
		move(k, s.ParamPlace)
	}
	for _, k := range credentialParams {
		if k == "client_secret" && s.CredPlace == placeDifferent {
			if cur := f.Get(k); cur != "" {
				other := s.wrongSecret()
				if cur != s.Secret && s.HasSecret {
					other = s.Secret
				}
				if s.WrongVar%2 == 0 {
					q.Set(k, other)
				} else {
					q.Set(k, cur)
					f.Set(k, other)
				}
				p.rightSecret, p.wrongSecret = s.HasSecret, true
			}
			continue
		}
		how := s.CredPlace
		if how == placeDifferent {
			how = placeBoth
		}
		move(k, how)
	}
	if len(q) > 0 {
		p.canonical = false // the positive cells count plain body requests only
	} else {
		rq.Query = nil
	}
}

// registeredAuth is the auth method the registration names.
func registeredAuth(s *spec) oidc.AuthMethod {
	switch s.OddAuth {
	case "unset":
		return oidc.AuthMethod("")
	case "client_secret_jwt":
		return oidc.AuthMethod("client_secret_jwt")
	}
	return authMethods[s.Auth]
}

const altHost = "alt.verif.test"

// issuerFor is the issuer of the case's request: with a host-derived issuer the request may go to the provider's
// second host name.
func issuerFor(s *spec, w *opdrv.World) string {
	if s.Dyn && s.HostB {
		return "https://" + altHost
	}
	return w.Issuer
}

func otherIssuerFor(s *spec, w *opdrv.World) string {
	if s.Dyn && s.HostB {
		return w.Issuer
	}
	return "https://" + altHost
}

func send(s *spec, w *opdrv.World, router int, rq *request) *opdrv.Resp {
	path := rq.Path
	if len(rq.Query) > 0 {
		path += "?" + rq.Query.Encode()
	}
	r := w.NewRequest(http.MethodPost, path, rq.Form)
	if s.Dyn && s.HostB {
		r.Host = altHost
	}
	if rq.Authorization != "" {
		r.Header.Set("Authorization", rq.Authorization)
	}
	return w.Do(router, r)
}
