package main

// Overlapping requests and the identity clause.
//
// "The token, introspection and revocation endpoints act for a client only after IT has authenticated in the way it is
// registered ... the device-authorization endpoint acts only for a known client registered for the device grant": the
// client an endpoint acts for is the client of THIS request - whatever other requests the same provider is serving at
// the same moment. A sequential driver can never see a router that keeps the authenticated client (or the credentials,
// or the error of the authentication) anywhere two requests share.
//
// Identity clause (also applied to every sequential case): every storage call a request makes on behalf of a client
// (RevokeToken, StoreDeviceAuthorization, GetDeviceAuthorizatonState, GetRefreshTokenInfo, SetIntrospectionFromToken,
// ClientCredentialsTokenRequest, Create*Token*, the id-token claim look-ups) names the one client the request names and
// authenticates - whether or not the storage then goes along with it.
//
// Overlap part: two requests A and B of two DIFFERENT clients on the same route of one router. A is served alone first
// (sched.Trace lists the yield points it passes: every span the library opens, every storage call, every getter of the
// op.Client the storage handed out); then, for EVERY such point k, A is started on its own goroutine and parked at point
// k, B is served completely, A is released (sched.Preempt - no sleeps, no timing). Both answers are judged on their own,
// exactly as the sequential cases are: a request that must be refused is refused, yields nothing and acts for nobody; no
// request acts for a client other than its own. The pairs combine plainly conforming requests with must-refuse ones
// (wrong secret, unknown client, no credential, credential of the wrong kind, bad assertion, grant not registered) in
// both roles, every registered auth method, and - on the endpoints that are not the token endpoint - a stray but legal
// grant_type parameter. A B that cannot finish while A is parked is inconclusive for that k, never a violation.

import (
	"fmt"
	"math/rand/v2"
	"strings"
	"time"

	"github.com/zitadel/oidc/v3/pkg/oidc"

	"verif/internal/ev"
	"verif/internal/opdrv"
	"verif/internal/sched"
	"verif/internal/vstore"
)

// ---------- identity clause ----------

// actsFor: the client a storage call is made on behalf of (ok = the call is one made for a client).
func actsFor(e vstore.Entry) (string, bool) {
	switch e.Method {
	case "RevokeToken", "SetIntrospectionFromToken":
		return e.C, true
	case "StoreDeviceAuthorization", "GetDeviceAuthorizatonState", "GetRefreshTokenInfo", "ClientCredentialsTokenRequest":
		return e.A, true
	case "SetUserinfoFromScopes", "GetPrivateClaimsFromScopes", "CreateTokenExchangeRequest":
		return e.B, true
	case "CreateAccessToken":
		if e.A != "jwt_profile" && e.A != "unknown" {
			return e.B, true
		}
	case "CreateAccessAndRefreshTokens":
		if parts := strings.SplitN(e.A, "|", 3); len(parts) == 3 && parts[0] != "jwt_profile" && parts[0] != "unknown" {
			return parts[1], true
		}
	}
	return "", false
}

// singleIdentity: the request names and authenticates exactly one client - the case's own. (The jwt-bearer grant
// resolves no client at all; the mixed presentations and the assertions with a foreign subject name a second one.)
func singleIdentity(s *spec, p proof) bool {
	if p.claim != claimOwn || s.Op == opBearer {
		return false
	}
	switch s.Pres {
	case pOwnBasicOtherID, pOwnAssertOtherID, pAssertForgedIssuer, pAssertSubMismatch, pMixedBasic, pMixedAssert:
		return false
	}
	return true
}

// foreignAct returns the first storage call of the request made on behalf of a client other than id.
func foreignAct(journal []vstore.Entry, id string) *vstore.Entry {
	for i := range journal {
		if c, ok := actsFor(journal[i]); ok && c != id {
			return &journal[i]
		}
	}
	return nil
}

func actsSummary(journal []vstore.Entry, id string) string {
	n := 0
	for _, e := range journal {
		if _, ok := actsFor(e); ok {
			n++
		}
	}
	if n == 0 {
		return "no storage call on behalf of a client"
	}
	return "storage calls on behalf of the request's own client only"
}

func briefJournal(journal []vstore.Entry) []string {
	out := make([]string, 0, len(journal))
	for _, e := range journal {
		l := fmt.Sprintf("#%d %s(%q, %q, %q)", e.Seq, e.Method, trunc(e.A, 80), trunc(e.B, 80), trunc(e.C, 80))
		if e.Ret != "" {
			l += " -> " + trunc(e.Ret, 60)
		}
		if e.Err != "" {
			l += " error: " + trunc(e.Err, 120)
		}
		out = append(out, l)
	}
	return out
}

func strayClass(s *spec) string {
	switch {
	case s.Stray == "":
		return "none"
	case s.has(oidc.GrantType(s.Stray)):
		return "a grant registered for the client"
	}
	return "a grant not registered for the client"
}

// ---------- the overlap generator ----------

const (
	ovBase     = 1_000_000_000 // case numbers of the overlap part (replay files)
	ovPatience = 30 * time.Second
)

var ovOps = []int{opCode, opRefresh, opCC, opTE, opDevice, opIntrospect, opRevoke, opDevAuth}
var ovTokenOps = []int{opCode, opRefresh, opCC, opTE, opDevice}

// shapes: is the parked / the in-between request a plainly conforming one (R) or one that must be refused (F)
// (two must-refuse requests have nothing to lend each other)
var ovShapes = [][2]bool{{true, true}, {false, true}, {true, false}}
var ovShapeNames = []string{"conforming|conforming", "must-refuse|conforming", "conforming|must-refuse"}

var ovProduct = len(ovOps) * len(ovShapes) * numAuth * 2

var rightPres = [numAuth]int{pBasicRight, pPostRight, pIDOnly, pAssertValid}

// ovSpec draws a request of the wanted kind through the generator of the sequential part; the provider configuration
// and the placement dimensions are normalised afterwards (both requests of a pair live in one world).
func ovSpec(r *rand.Rand, idx, o int, conforming bool, auth int, stray bool) *spec {
	pres, gk, dual := rightPres[auth], gkAll, false
	if conforming {
		if r.IntN(3) == 0 && opGrant[o] != "" {
			gk = gkOnlyTarget
		}
	} else {
		flavor := r.IntN(9)
		if flavor == 7 && opGrant[o] == "" {
			flavor = r.IntN(7)
		}
		switch flavor {
		case 0:
			pres, auth = pBasicWrong, authBasic
		case 1:
			pres, auth = pPostWrong, authPost
		case 2:
			pres = []int{pUnknownBasic, pUnknownID, pUnknownAssert}[r.IntN(3)]
		case 3:
			pres, auth = pIDOnly, []int{authBasic, authPost, authJWT}[r.IntN(3)]
		case 4:
			pres, auth = []int{pAssertOtherKey, pAssertExpired, pAssertWrongAud}[r.IntN(3)], authJWT
		case 5:
			pres, auth, dual = pBasicRight, authJWT, true
		case 6:
			pres, auth, dual = pAssertValid, []int{authBasic, authPost}[r.IntN(2)], true
		case 7:
			gk = gkAllButTarget // the right credential, but the grant is not registered
		case 8:
			pres = pNone
		}
	}
	s := buildSpecCell(r, idx, cellOf(o, pres, auth, gk))
	if dual && s.Auth != authNone {
		s.Dual, s.HasSecret, s.HasKey = true, true, true
		if s.Secret == "" {
			s.Secret = fmt.Sprintf("s3cret-%d", idx)
		}
	}
	s.Dyn, s.HostB, s.PermSub, s.Naive, s.OddAuth, s.FaultAt, s.FaultKind = false, false, false, false, "", 0, 0
	s.Caps = vstore.Caps{CC: true, TE: true, Dev: true}
	s.CapsStr = s.Caps.String()
	s.GTPlace, s.CredPlace, s.ParamPlace, s.DecoyName = gtBody, placeBody, placeBody, ""
	s.GTPlaceStr, s.CredStr, s.ParamStr = gtPlaceNames[gtBody], placeNames[placeBody], placeNames[placeBody]
	s.Stray = ""
	if stray && !isTokenOp(o) {
		// a grant the client is registered for (a router that checks it lets the request pass)
		for _, g := range s.Grants {
			if g != oidc.GrantTypeClientCredentials {
				s.Stray = string(g)
				break
			}
		}
	}
	return s
}

// oreq is one request of a pair, prepared against the world: registration installed, material minted, request built.
type oreq struct {
	s    *spec
	id   string
	m    material
	rq   *request
	p    proof
	bk   int
	v    verdict
	role string
}

func (x *oreq) brief() map[string]any {
	return map[string]any{"client_id": x.id, "spec": x.s, "material": x.m, "request": x.rq, "must_refuse_because": x.v.reasons, "grey": x.v.grey}
}

func ovPrepare(run *ev.Run, wc *wctx, router int, s *spec, role string) *oreq {
	rn := opdrv.RouterNames[router]
	w := wc.w
	w.Store.SetJournal(false)
	id := s.clientID(rn)
	m, why := wc.mint(s, router, id)
	if why != "" {
		run.Eval()
		run.Inconclusive("overlap:mint-failed:" + opNames[s.Op] + ":" + rn)
		run.SampleKind("mint-failed", map[string]any{"router": rn, "spec": s, "why": trunc(why, 400), "part": "overlap"})
		return nil
	}
	x := &oreq{s: s, id: id, m: m, role: role}
	x.rq, x.p, x.bk = buildRequest(s, w, id, m)
	x.v = oracle(s, x.p, x.bk)
	return x
}

// consumed: the request changed grant state, so its material cannot be presented again
func consumed(journal []vstore.Entry) bool {
	for _, e := range journal {
		if e.Mutating() && e.Err == "" {
			return true
		}
	}
	return false
}

type ovOutcome struct {
	violated bool
	success  bool
	status   int
}

// ovJudge judges one answer on its own. overlap == nil: the request was served alone (keys as in the sequential part, so
// that what is already known about the unchanged tree is recognised); otherwise the keys carry ":overlapping-requests".
func ovJudge(run *ev.Run, router int, w *opdrv.World, x *oreq, resp *opdrv.Resp, journal []vstore.Entry, overlap map[string]any) ovOutcome {
	rn := opdrv.RouterNames[router]
	s := x.s
	cell := rn + ":" + opNames[s.Op]
	run.Eval()
	o := observe(resp)
	out := ovOutcome{status: o.status}
	for _, e := range journal {
		if e.Mutating() && e.Err == "" {
			o.mutating = append(o.mutating, e.Method)
			if e.Method == "StoreDeviceAuthorization" && s.Op == opDevAuth {
				o.acted = append(o.acted, "device authorization stored")
			}
		}
	}
	tokenDead := false
	if s.Op == opRevoke {
		if s.RevokeKind == 2 || s.RevokeKind == 3 {
			tokenDead = !w.Store.RefreshLive(x.m.Refresh)
		} else {
			tokenDead = !w.Store.TokenLive(w.TokenID(x.m.Access))
		}
		if tokenDead {
			o.acted = append(o.acted, "token revoked")
		}
	}
	suffix, how := "", "served alone"
	witness := map[string]any{"router": rn, "part": "overlap"}
	for k, v := range x.brief() {
		witness[k] = v
	}
	witness["response"] = map[string]any{"status": resp.Status, "body": trunc(resp.Body.String(), 600), "acted": o.acted}
	witness["storage_calls_of_the_request"] = briefJournal(journal)
	if overlap != nil {
		suffix, how = ":overlapping-requests", fmt.Sprint(overlap["role_of_this_request"])
		witness["overlap"] = overlap
	}
	caseNo := int64(ovBase + (s.Idx-ovBase)/2)

	if resp.Panic != nil {
		witness["panic"] = resp.Panic.Value
		witness["stack"] = trunc(resp.Panic.Stack, 3000)
		out.violated = true
		if resp.Panic.InRepo {
			run.Violation("C05:panic:"+resp.Panic.Site(), caseNo, fmt.Sprintf("handler panicked while answering a %s request (%s; %s): %s", cell, presNames[s.Pres], how, resp.Panic.Value), witness)
		} else {
			run.HarnessBug("panic outside the library: " + resp.Panic.Value + " at " + resp.Panic.Frame)
		}
		run.Count("overlap:outcome", "panic")
		return out
	}
	if singleIdentity(s, x.p) {
		if e := foreignAct(journal, x.id); e != nil {
			other, _ := actsFor(*e)
			out.violated = true
			run.Count("overlap:outcome", "acted-for-other-client")
			run.Violation("C05:"+cell+":acted-for-other-client"+suffix, caseNo, fmt.Sprintf("%s request naming and authenticating only client %q made the storage call %s on behalf of client %q (presentation %s; %s)", cell, x.id, e.Method, other, presNames[s.Pres], how), witness)
			return out
		}
	}
	switch s.Op {
	case opRevoke:
		out.success = o.status == 200 && tokenDead
	default:
		out.success = o.status == 200 && len(o.yields) > 0
	}
	if len(x.v.reasons) > 0 {
		primary, all := x.v.reasons[0], strings.Join(x.v.reasons, "+")
		if sfx, what := refusalBreach(s, o); what != "" {
			out.violated = true
			run.Count("overlap:outcome", "mustRefuse:VIOLATED")
			run.Violation("C05:"+cell+":"+primary+sfx+suffix, caseNo, fmt.Sprintf("%s %s although the request must be refused (%s; presentation %s; registered %s; %s)", cell, what, all, presNames[s.Pres], authNames[s.Auth], how), witness)
			return out
		}
		if overlap != nil {
			run.Count("overlap:outcome", "mustRefuse:refused")
			run.Count("overlap:must_refuse_reasons:"+x.role, primary)
		}
		return out
	}
	if overlap != nil {
		run.Count("overlap:outcome", map[bool]string{true: "open:success", false: "open:refused"}[out.success])
	}
	return out
}

func isAuthCall(m string) bool {
	switch m {
	case "GetClientByClientID", "AuthorizeClientIDSecret", "GetKeyByIDAndClientID", "ClientCredentials":
		return true
	}
	return false
}

// ovSpecs draws the two requests of pair j (a pure function of (seed, j)).
func ovSpecs(run *ev.Run, j int) (a, b *spec, shape int) {
	r := run.CaseRand(6, j)
	// (the endpoint varies slowest: the workers take the cases round-robin and the endpoints differ widely in cost)
	c := j % ovProduct
	shape = c % len(ovShapes)
	c /= len(ovShapes)
	authA := c % numAuth
	c /= numAuth
	strayA := c%2 == 1
	c /= 2
	opA := ovOps[c%len(ovOps)]
	idx := ovBase + 2*j
	a = ovSpec(r, idx, opA, ovShapes[shape][0], authA, strayA)
	opB := opA
	if isTokenOp(opA) && r.IntN(3) != 0 {
		opB = ovTokenOps[r.IntN(len(ovTokenOps))]
	}
	authB := r.IntN(numAuth)
	if ovShapes[shape][1] && (opB == opCC || opB == opIntrospect) {
		authB = []int{authBasic, authPost, authJWT}[r.IntN(3)] // (no public clients there)
	}
	if ovShapes[shape][1] && isTokenOp(opA) && strayA {
		// (the stray dimension means nothing on the token endpoint: that half of the cells has an in-between request
		// which every grant of both routers serves)
		authB = authBasic
	}
	b = ovSpec(r, idx+1, opB, ovShapes[shape][1], authB, r.IntN(2) == 0)
	// one world per pair: the first three passes over the product run with everything enabled (a conforming request is
	// then served for certain), every fourth pass keeps the provider flags drawn for the parked request
	if (j/ovProduct)%4 != 3 {
		a.Post, a.PKJWT, a.Refresh = true, true, true
	}
	b.Post, b.PKJWT, b.Refresh = a.Post, a.PKJWT, a.Refresh
	return a, b, shape
}

// ovItem is one (pair, router) on its way through the three passes of the overlap part. The passes are separated
// because a yield point costs every goroutine of the process a look-up while ANY goroutine is registered with sched:
// minting grant material (several requests through the real flows per overlap) is done while nobody is.
type ovItem struct {
	j, router, shape int
	sa, sb           *spec
	wc               *wctx
	a, b             *oreq // as served alone
	points           []string
	aloneA, aloneB   ovOutcome
	usedA, usedB     bool    // serving the request alone consumed its material
	as, bs           []*oreq // fresh requests per yield point (nil: the request consumes nothing and is sent again)
}

// pass 0 (nobody is registered with sched): the world, the two registrations, their material and requests
func ovSetup(run *ev.Run, j, router int, pl pool) *ovItem {
	sa, sb, shape := ovSpecs(run, j)
	it := &ovItem{j: j, router: router, shape: shape, sa: sa, sb: sb}
	wc, err := pl.getKeyed(sa, ovSigningKey())
	if err != nil {
		run.HarnessBug("cannot build world " + sa.cfgKey() + ": " + err.Error())
		return nil
	}
	it.wc = wc
	wc.w.Store.Arm(nil)
	it.a, it.b = ovPrepare(run, wc, router, sa, "parked"), ovPrepare(run, wc, router, sb, "in-between")
	if it.a == nil || it.b == nil {
		return nil
	}
	return it
}

// pass 1: both requests alone (A's run also lists its yield points); nil = the pair is not overlapped
func ovAlone(run *ev.Run, it *ovItem) *ovItem {
	if it == nil {
		return nil
	}
	router, sa, sb, shape := it.router, it.sa, it.sb, it.shape
	rn := opdrv.RouterNames[router]
	w := it.wc.w
	st := w.Store
	st.Arm(nil)
	defer func() { st.SetJournal(false); st.ResetJournal() }()
	var respA, respB *opdrv.Resp
	st.ResetJournal()
	st.SetJournal(true)
	it.points = sched.Trace(func() { respA = send(sa, w, router, it.a.rq) })
	jA := st.Journal()
	st.ResetJournal()
	respB = send(sb, w, router, it.b.rq)
	jB := st.Journal()
	st.SetJournal(false)
	it.aloneA = ovJudge(run, router, w, it.a, respA, jA, nil)
	it.aloneB = ovJudge(run, router, w, it.b, respB, jB, nil)
	if it.aloneA.violated || it.aloneB.violated {
		// not an effect of the overlap (the sequential part reports the same class)
		run.Count("overlap:pairs", "not-overlapped:a-request-already-fails-alone")
		return nil
	}
	if len(it.points) == 0 {
		run.HarnessBug("overlap: the request passed no yield point when served alone (sched.Install missing?)")
		return nil
	}
	run.Count("overlap:pairs", ovShapeNames[shape])
	if len(it.a.v.reasons) == 0 && !it.aloneA.success {
		run.Count("overlap:open_request_refused_alone", rn+":"+opNames[sa.Op]+":"+authNames[sa.Auth]+":"+respA.OAuthError())
		run.SampleKind("overlap:open-request-refused-alone", map[string]any{"router": rn, "request": it.a.brief(), "response": respA.Brief(), "storage_calls": briefJournal(jA)})
	}
	run.Count("overlap:points_per_parked_request", fmt.Sprintf("%s:%s:%s:%d", rn, opNames[sa.Op], map[bool]string{true: "answered-2xx", false: "refused"}[it.aloneA.status < 300], len(it.points)))
	it.usedA, it.usedB = consumed(jA), consumed(jB)
	return it
}

// pass 2 (nobody is registered with sched): fresh material and a fresh request for every yield point
func ovMint(run *ev.Run, it *ovItem) {
	if it == nil {
		return
	}
	it.wc.w.Store.Arm(nil)
	if it.usedA {
		it.as = make([]*oreq, len(it.points))
		for k := range it.as {
			it.as[k] = ovPrepare(run, it.wc, it.router, it.sa, "parked")
		}
	}
	if it.usedB {
		it.bs = make([]*oreq, len(it.points))
		for k := range it.bs {
			it.bs[k] = ovPrepare(run, it.wc, it.router, it.sb, "in-between")
		}
	}
}

// pass 3: for every yield point k of A: A parked at k, B served completely, A released; both judged on their own
func ovOverlap(run *ev.Run, it *ovItem) {
	if it == nil {
		return
	}
	router, sa, sb, wc, points := it.router, it.sa, it.sb, it.wc, it.points
	rn := opdrv.RouterNames[router]
	w := wc.w
	st := w.Store
	st.Arm(nil)
	defer func() { st.SetJournal(false); st.ResetJournal() }()
	serve := func(x *oreq) *opdrv.Resp { return send(x.s, w, router, x.rq) }
	cellA := rn + ":" + opNames[sa.Op]
	aloneA, aloneB := it.aloneA, it.aloneB
	a, b := it.a, it.b
	staleA, staleB := false, false // the request that was to be sent again consumed its material after all

	allReached, judged := true, false
	for k := range points {
		if it.as != nil {
			a = it.as[k]
		} else if staleA {
			a = ovPrepare(run, wc, router, sa, "parked")
		}
		if it.bs != nil {
			b = it.bs[k]
		} else if staleB {
			b = ovPrepare(run, wc, router, sb, "in-between")
		}
		if a == nil || b == nil {
			return
		}
		var respA, respB *opdrv.Resp
		st.ResetJournal()
		st.SetJournal(true)
		res := sched.Preempt(k, func() { respA = serve(a) }, func() { respB = serve(b) }, ovPatience)
		all := st.Journal()
		st.SetJournal(false)
		if res.Blocked {
			run.Eval()
			run.Inconclusive("overlap: the second request did not finish while the first was parked at " + res.At)
			staleA, staleB = true, true
			continue
		}
		if respA == nil || respB == nil {
			run.HarnessBug("overlap: a request did not run")
			return
		}
		if !res.Reached {
			allReached = false
			run.Count("overlap:parked_at", "(request finished before the point)")
			res.At = fmt.Sprintf("(finished before its point %d: the in-between request ran after it)", k)
		}
		// the parked request makes no storage call while the other one is served: the journal splits by sequence number
		var jA, jB []vstore.Entry
		for _, e := range all {
			if e.Seq > respB.SeqStart && e.Seq < respB.SeqEnd {
				jB = append(jB, e)
			} else {
				jA = append(jA, e)
			}
		}
		staleA, staleB = consumed(jA), consumed(jB)
		desc := func(role string, other *oreq, otherResp *opdrv.Resp, otherJ []vstore.Entry) map[string]any {
			return map[string]any{
				"role_of_this_request": role, "parked_at_point": k, "point": res.At, "points_of_the_parked_request_served_alone": points,
				"how_to_reproduce":    "start the parked request on its own goroutine, stop it at the named yield point (span start / end, storage call, client getter - counted from 0), serve the in-between request completely, release the parked request",
				"other_request":       other.brief(),
				"other_response":      map[string]any{"status": otherResp.Status, "body": trunc(otherResp.Body.String(), 300)},
				"other_storage_calls": briefJournal(otherJ),
			}
		}
		oa := ovJudge(run, router, w, a, respA, jA, desc("parked at the yield point while the other request was served completely", b, respB, jB))
		ob := ovJudge(run, router, w, b, respB, jB, desc("served completely while the other request was parked at the yield point", a, respA, jA))
		if oa.violated || ob.violated {
			return
		}
		if !res.Reached {
			continue
		}
		judged = true
		at := strings.TrimPrefix(res.At, "storage:")
		run.Count("overlap:parked_at", at)
		run.Distinct(strings.Join([]string{"overlap", rn, opNames[sa.Op], presNames[sa.Pres], authNames[sa.Auth], strayClass(sa), opNames[sb.Op], presNames[sb.Pres], authNames[sb.Auth], res.At}, "|"))
		if oa.success != aloneA.success || (oa.status >= 400) != (aloneA.status >= 400) {
			run.Count("overlap:parked_request_answered_differently_than_alone", cellA+"@"+at)
		}
		if ob.success != aloneB.success || (ob.status >= 400) != (aloneB.status >= 400) {
			run.Count("overlap:in_between_request_answered_differently_than_alone", rn+":"+opNames[sb.Op]+"@"+at)
		}
		// the window the clause is about: the parked request had authenticated its client, another client was served
		// in between, and the parked request went on to act
		authedBefore, actedAfter := false, false
		for _, e := range jA {
			if isAuthCall(e.Method) && e.Seq < respB.SeqStart {
				authedBefore = true
			}
			if _, ok := actsFor(e); ok && e.Seq > respB.SeqEnd {
				actedAfter = true
			}
		}
		if authedBefore && actedAfter && ob.success && singleIdentity(sa, a.p) {
			run.Observed("overlap:another-client-served-between-authentication-and-action:" + cellA)
			run.Count("overlap:another_client_served_between_authentication_and_action", cellA+"@"+at)
		}
		if len(a.v.reasons) > 0 && ob.success {
			run.Observed("overlap:must-refuse-request-parked-while-a-conforming-one-was-served:" + rn)
		}
		if oa.success && len(b.v.reasons) > 0 {
			run.Observed("overlap:conforming-request-parked-while-a-must-refuse-one-was-answered:" + rn)
		}
		if sa.Stray != "" && oa.success {
			run.Observed("overlap:stray-grant_type:" + cellA)
		}
	}
	if judged {
		run.Observed("overlap:judged:" + cellA)
		if allReached {
			run.Observed("overlap:parked-at-every-point:" + rn)
		}
	}
}

// overlapPart runs pairs [from, to) through the four passes (in chunks, so that the prepared requests of a thorough
// run do not pile up); pools[w] is the world pool of worker w (the partition of ev.Parallel is the same in every pass).
func overlapPart(run *ev.Run, from, to int, pools []pool) {
	for base := from; base < to; base += ovProduct {
		cnt := min(ovProduct, to-base)
		items := make([]*ovItem, 2*cnt)
		poolOf := func(worker int) pool {
			if pools[worker] == nil {
				pools[worker] = pool{}
			}
			return pools[worker]
		}
		ev.Parallel(2*cnt, 0, func(worker, i int) { items[i] = ovSetup(run, base+i/2, i%2, poolOf(worker)) })
		ev.Parallel(2*cnt, 0, func(worker, i int) { items[i] = ovAlone(run, items[i]) })
		ev.Parallel(2*cnt, 0, func(worker, i int) { ovMint(run, items[i]) })
		ev.Parallel(2*cnt, 0, func(worker, i int) { ovOverlap(run, items[i]) })
	}
}
