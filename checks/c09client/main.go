// Development entry point for one front of C09 (the registered check is ../c09, which runs all three fronts).
package main

import (
	"os"
	"runtime/pprof"

	"verif/checks/c09/frontclient"
	"verif/internal/ev"
)

func main() {
	run := ev.Start("C09C", "exploration")
	run.SetRule("development run of the client front of C09 only")
	if p := os.Getenv("VERIF_PPROF"); p != "" {
		if f, err := os.Create(p); err == nil {
			_ = pprof.StartCPUProfile(f)
			frontclient.Run(run)
			pprof.StopCPUProfile()
			f.Close()
			run.Finish()
		}
	}
	frontclient.Run(run)
	run.Finish()
}
