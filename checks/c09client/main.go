// Development entry point for one front of C09 (the registered check is ../c09, which runs all three fronts).
package main

import (
	"verif/checks/c09/frontclient"
	"verif/internal/ev"
)

func main() {
	run := ev.Start("C09C", "exploration")
	run.SetRule("development run of the client front of C09 only")
	frontclient.Run(run)
	run.Finish()
}
