package main

import (
	"fmt"
	"math/rand/v2"
	"net/url"
	"strings"
	"time"

	"github.com/zitadel/oidc/v3/pkg/op"

	"verif/internal/ev"
	"verif/internal/opdrv"
	"verif/internal/vstore"
)

// Alphabets: letters and digits of any script, never empty, no URL-reserved punctuation and no '-' (6a C16).
type alphabet struct{ kind, set string }

var fixedAlphabets = []alphabet{
	{"base20", op.CharSetBase20},
	{"digits", op.CharSetDigits},
	{"single-ascii", "X"},
	{"single-digit", "7"},
	{"single-unicode", "中"},
	{"latin-extended", "äöüßéñçøåœ"},
	{"greek", "αβγδεζηθικλμνξοπρστυφχψω"},
	{"cyrillic", "бвгджзклмнпрстфхцчшщ"},
	{"cjk", "日本語中文字漢学校"},
	{"arabic-indic-digits", "٠١٢٣٤٥٦٧٨٩"},
	{"astral-letters", "𝔸𝔹𝔻𝔼𝔽𝔾𝕀𝕁𝕂𝕃"},
	{"mixed-scripts", "ABCdef123äβж中𝔸"},
	{"two-symbols", "01"},
}

const asciiPool = "ABCDEFGHIJKLMNOPQRSTUVWXYZabcdefghijklmnopqrstuvwxyz0123456789"

func genAlphabet(r *rand.Rand) alphabet {
	if r.IntN(5) == 0 {
		n := 2 + r.IntN(40)
		var b strings.Builder
		for i := 0; i < n; i++ {
			b.WriteByte(asciiPool[r.IntN(len(asciiPool))]) // repeats allowed: a skewed alphabet is still an alphabet
		}
		return alphabet{"random-ascii", b.String()}
	}
	return fixedAlphabets[r.IntN(len(fixedAlphabets))]
}

var (
	lifetimes = []time.Duration{30 * time.Second, 90 * time.Second, 5 * time.Minute, 10 * time.Minute, time.Hour, time.Hour + 500*time.Millisecond, 24 * time.Hour, 10 * 365 * 24 * time.Hour}
	intervals = []time.Duration{time.Second, 2 * time.Second, 5 * time.Second, 7 * time.Second, 30 * time.Second, 1500 * time.Millisecond, 0}
	formPaths = []string{"/device", "/ui/device/verify", "/d", "/device form", "/gerät/prüfen", "/device/"}
)

func bucketAmount(n int) string {
	switch {
	case n == 1:
		return "1"
	case n < 8:
		return "2-7"
	case n <= 16:
		return "8-16"
	}
	return "17-32"
}

func dashClass(n, d int) string {
	switch {
	case d == 0:
		return "none"
	case d == 1:
		return "every"
	case d < n:
		return "inside"
	case d == n:
		return "equal"
	}
	return "beyond"
}

const cfgBase = 1 << 40 // replay indices of the configuration part

func runConfig(run *ev.Run, caseIdx int) {
	r := run.CaseRand(1600, caseIdx)
	al := genAlphabet(r)
	uc := op.UserCodeConfig{CharSet: al.set, CharAmount: 1 + r.IntN(32), DashInterval: r.IntN(34)}
	switch r.IntN(12) {
	case 0:
		uc = op.UserCodeBase20
		al = alphabet{"preset-base20", uc.CharSet}
	case 1:
		uc = op.UserCodeDigits
		al = alphabet{"preset-digits", uc.CharSet}
	}
	dc := op.DeviceAuthorizationConfig{Lifetime: pick(r, lifetimes...), PollInterval: pick(r, intervals...), UserFormPath: pick(r, formPaths...), UserCode: uc}
	opt := opdrv.Options{Caps: vstore.Full}
	via := pick(r, "static", "static", "static-port", "static-path", "host", "host")
	switch via {
	case "static":
		opt.Issuer = opdrv.DefaultIssuer
	case "static-port":
		opt.Issuer = "https://op.verif.test:8443"
	case "static-path":
		opt.Issuer = "https://op.verif.test/tenant/a"
	case "host":
		opt.Issuer = fmt.Sprintf("https://tenant-%d.verif.test", r.IntN(1000)) // what the request's Host header will say
		opt.IssuerFn = op.IssuerFromHost("")
	}
	// dimensions added later draw from a stream of their own, so that the older ones keep their values per case
	r2 := run.CaseRand(1601, caseIdx)
	formKnob := "path"
	if r.IntN(10) == 0 && via != "static-path" {
		formKnob = "url"
	}
	if k := r2.IntN(12); via != "static-path" && k < 4 {
		formKnob = [4]string{"url", "url", "url-deep", "url-query"}[k]
	}
	switch formKnob {
	case "url":
		// deprecated knob: the complete URL of the form (kept on the issuer here)
		dc.UserFormURL = opt.Issuer + "/legacy-form"
	case "url-deep":
		dc.UserFormURL = opt.Issuer + "/ui/v2/device/activate"
	case "url-query":
		// a form address with parameters of its own (what becomes of them in the complete URI is an open point)
		dc.UserFormURL = opt.Issuer + "/legacy-form?tenant=a&lang=de"
	}
	formURL := formKnob != "path"
	if formURL {
		dc.UserFormPath = "/ignored"
	}
	nReq := 2 + r2.IntN(3) // several flows per provider: a response must not depend on the flows before it
	opt.Config = opdrv.DefaultConfig()
	opt.Config.DeviceAuthorization = dc
	cfgLit := map[string]any{"alphabet": al.set, "alphabet_kind": al.kind, "char_amount": uc.CharAmount, "dash_interval": uc.DashInterval,
		"lifetime": dc.Lifetime.String(), "poll_interval": dc.PollInterval.String(), "user_form_path": dc.UserFormPath, "user_form_url": dc.UserFormURL, "issuer": opt.Issuer, "issuer_via": via}
	for router := 0; router < 2; router++ {
		// a fresh world per router: with a one-symbol alphabet every user code is the same, and the storage keeps them unique
		w, err := opdrv.NewWorld(opt)
		if err != nil {
			run.HarnessBug(fmt.Sprintf("config case %d: provider refused the configuration: %v", caseIdx, err))
			return
		}
		pop := population(w, r)
		var log []opLog
		rn := opdrv.RouterNames[router]
		violated := func(key, what string) {
			run.Violation("C16:"+rn+":"+key, int64(cfgBase+caseIdx), what, map[string]any{"part": "configuration", "router": rn, "configuration": cfgLit, "history": log})
		}
		others := map[string]string{}
		for k := 0; k < nReq; k++ {
			a := pop[pick(r, "dev", "dev2", "devpub", "devjwt")]
			auth, _ := credFor(w, a, "right")
			scopes := pick(r, scopeChoices...)
			form := url.Values{}
			if scopes != "" {
				form.Set("scope", scopes)
			}
			t0 := time.Now()
			resp := post(w, router, "/device_authorization", form, auth, "")
			t1 := time.Now()
			log = append(log, opLog{"device_authorization", fmt.Sprintf("client=%s(%s) scope=%q", a.id, a.kind, scopes), lit("/device_authorization", form, auth, ""), resp.Brief()})
			run.Eval()
			if resp.Panic != nil {
				violated("panic:"+resp.Panic.Site(), "device authorization handler panicked: "+resp.Panic.Value)
				return
			}
			if resp.Status != 200 {
				if duplicateUserCode(w, resp) {
					// the storage reported a duplicate user code (tiny code spaces); what the endpoint does then is outside the statement
					run.Count("grey", "duplicate-user-code-answered-"+fmt.Sprint(resp.Status))
					continue
				}
				violated("device-authorization-refused", "a plainly registered device client with proper credentials was refused under a valid configuration: "+resp.Brief())
				return
			}
			res, greys, f := judgeDeviceResponse(w, resp, daExpect{issuer: opt.Issuer, cfg: dc, client: a.id, scopes: fields(scopes), issuerVia: via, others: others}, t0, t1)
			for _, g := range greys {
				run.Count("grey", g)
			}
			if f != nil {
				violated("response:"+f.key, f.what)
				return
			}
			others[res.UserCode] = fmt.Sprintf("flow %d of this provider (client %s)", k+1, a.id)
			nth := "first-flow"
			if k > 0 {
				nth = "later-flow"
			}
			run.Distinct(fmt.Sprintf("cfg|%s|%s|n=%s|dash=%s|%s|%s|%s|%s|form=%s|%s|%s", rn, al.kind, bucketAmount(uc.CharAmount), dashClass(uc.CharAmount, uc.DashInterval), dc.Lifetime, dc.PollInterval, dc.UserFormPath, via, formKnob, a.kind, nth))
			run.Count("config_form", formKnob+":"+nth)
			run.Observed("config:form-" + map[bool]string{true: "url", false: "path"}[formURL] + ":" + nth + ":" + rn)
			run.Count("config_alphabet", al.kind)
			run.Count("config_amount", bucketAmount(uc.CharAmount))
			run.Count("config_dash", dashClass(uc.CharAmount, uc.DashInterval))
			run.Count("config_issuer", via)
			run.Observed("config:" + rn)
			run.Observed("alphabet:" + alphabetClass(al.kind))
			run.SampleKind("configuration:"+alphabetClass(al.kind), map[string]any{"router": rn, "configuration": cfgLit, "response": resp.Body.String()})

			// the user reads the code from the complete URI, approves; the device polls before and after
			cu, _ := url.Parse(res.URIComplete)
			typed := cu.Query().Get("user_code")
			rec, _ := w.Store.DeviceByUserCode(typed)
			pform := url.Values{"grant_type": {gtDevice}, "device_code": {res.DeviceCode}}
			if time.Since(t0) > dc.Lifetime-10*time.Second {
				// stalled process: the code may have expired meanwhile - no verdict depends on that
				run.Inconclusive("configuration case stalled near the device-code lifetime")
				continue
			}
			before := post(w, router, "/oauth/token", pform, credOf(w, a), "")
			log = append(log, opLog{"poll", "before approval", lit("/oauth/token", pform, auth, ""), before.Brief()})
			run.Eval()
			if before.Panic != nil {
				violated("panic:"+before.Panic.Site(), "token handler panicked: "+before.Panic.Value)
				return
			}
			if success(before) != nil {
				violated("tokens-despite:state-pending", "tokens before the user approved")
				return
			}
			if before.OAuthError() != "authorization_pending" {
				violated("wrong-error:pending", fmt.Sprintf("pending device code polled by its client: %q instead of authorization_pending", before.OAuthError()))
				return
			}
			user := pick(r, "user-1", "user-2")
			w.Store.ApproveDevice(rec.DeviceCode, user)
			log = append(log, opLog{Op: "approve", Detail: fmt.Sprintf("user code %q typed by %s", typed, user)})
			after := post(w, router, "/oauth/token", pform, credOf(w, a), "")
			log = append(log, opLog{"poll", "after approval", lit("/oauth/token", pform, auth, ""), after.Brief()})
			run.Eval()
			if after.Panic != nil {
				violated("panic:"+after.Panic.Site(), "token handler panicked: "+after.Panic.Value)
				return
			}
			toks := success(after)
			if toks == nil {
				violated("must-succeed", "approved through the user code of the response, polled by the initiating client, refused: "+after.Brief())
				return
			}
			if f := judgeTokens(run, w, toks, a.id, user, fields(scopes)); f != nil {
				violated("tokens:"+f.key, f.what)
				return
			}
			run.Count("outcome", "config_flow_success")
		}
	}
}

// credOf makes a fresh valid presentation (a new assertion for the private_key_jwt client).
func credOf(w *opdrv.World, a actor) opdrv.ClientAuth {
	auth, _ := credFor(w, a, "right")
	return auth
}

// alphabetClass groups the alphabet kinds into the four classes of the design (base20, digits, one symbol, Unicode letters) + others.
func alphabetClass(kind string) string {
	switch kind {
	case "base20", "preset-base20":
		return "base20"
	case "digits", "preset-digits":
		return "digits"
	case "single-ascii", "single-digit", "single-unicode":
		return "single-symbol"
	case "latin-extended", "greek", "cyrillic", "cjk", "astral-letters", "mixed-scripts", "arabic-indic-digits":
		return "unicode"
	}
	return "other"
}
