package main

import (
	"fmt"
	"net/url"
	"slices"
	"strings"
	"time"

	"verif/internal/ev"
	"verif/internal/opdrv"
	"verif/internal/vstore"
)

// mDev is the reference model of one device code.
type mDev struct {
	n        int
	code     string
	userCode string
	owner    string
	scopes   []string
	state    string // "pending", "approved", "denied" (the user's latest decision)
	expired  bool
	mixed    bool // approved after an earlier denial: tokens and access_denied are both within the statement
	user     string
	tainted  bool // a foreign / unauthenticated / failing attempt was made on it: later success is grey (6a)
	wins     int  // successful polls so far
}

func (d *mDev) label() string {
	s := d.state
	if d.mixed {
		s += "+earlier-denial"
	}
	if d.expired {
		s += "+expired"
	}
	return s
}

type opLog struct {
	Op     string `json:"op"`
	Detail string `json:"detail"`
	Req    any    `json:"request,omitempty"`
	Result string `json:"result,omitempty"`
}

var faultKinds = []string{"deadline", "deadline", "plain", "oidc-server-error", "ctx-expired", "ctx-expired", "ctx-cancelled"}

func runHistory(run *ev.Run, caseIdx int, router int) {
	r := run.CaseRand(16, caseIdx)
	rn := opdrv.RouterNames[router]
	cfg := opdrv.DefaultConfig()
	// where the user form lives: the form path on the issuer (default) or the deprecated complete form URL; drawn from a
	// stream of its own (the same for both routers), so that the histories themselves are what they were without it
	formKnob := pick(run.CaseRand(1603, caseIdx), "path", "path", "path", "path", "url", "url", "url-query")
	switch formKnob {
	case "url":
		cfg.DeviceAuthorization.UserFormURL = opdrv.DefaultIssuer + "/activate"
	case "url-query":
		cfg.DeviceAuthorization.UserFormURL = opdrv.DefaultIssuer + "/activate?tenant=a"
	}
	w := opdrv.MustWorld(opdrv.Options{Config: cfg, Caps: vstore.Full})
	pop := population(w, r)
	var devs []*mDev
	var log []opLog
	violated := func(key, what string) {
		run.Violation("C16:"+rn+":"+key, int64(caseIdx), what, map[string]any{"part": "history", "router": rn, "user_form": formKnob, "user_form_url": cfg.DeviceAuthorization.UserFormURL, "history": log})
	}
	steps := 6 + r.IntN(30)
	began := time.Now()
	// temperament of the history: how often a poll is made by somebody else / with a bad presentation / under a fault
	// (calm histories keep device codes untainted so that "must succeed" is decided often, hostile ones probe refusals)
	hostile := pick(r, 2, 8, 8, 25, 60)
	for s := 0; s < steps; s++ {
		choice := r.IntN(24)
		if len(devs) == 0 {
			choice = 0
		}
		switch {
		case choice < 5: // ---------- device authorization ----------
			a := pop[pick(r, "dev", "dev", "dev2", "devpub", "devpub", "devjwt", "web", "ghost")]
			ck := pick(r, "right", "right", "right", "right", "wrong", "none", "post", "anon")
			auth, standing := credFor(w, a, ck)
			scopes := pick(r, scopeChoices...)
			form := url.Values{}
			if scopes != "" {
				form.Set("scope", scopes)
			}
			named := ""
			if (auth.Kind == "basic" || auth.Kind == "assertion") && standing == "valid" && r.IntN(5) == 0 {
				// the proven identity is a.id, the form names somebody else: the flow belongs to the proven client (or is refused)
				named = pick(r, "dev", "dev2", "devpub", "devjwt")
				form.Set("client_id", named)
			}
			t0 := time.Now()
			resp := post(w, router, "/device_authorization", form, auth, "")
			t1 := time.Now()
			entry := opLog{"device_authorization", fmt.Sprintf("client=%s(%s) cred=%s(%s) scope=%q form-names=%q", a.id, a.kind, ck, standing, scopes, named), lit("/device_authorization", form, auth, ""), resp.Brief()}
			log = append(log, entry)
			if resp.Panic != nil {
				violated("panic:"+resp.Panic.Site(), "device authorization handler panicked: "+resp.Panic.Value)
				return
			}
			run.Count("device_authorization", fmt.Sprintf("%s|%s|%s -> %d %s", rn, a.kind, standing, resp.Status, resp.OAuthError()))
			if resp.Status != 200 || resp.Str("device_code") == "" {
				continue
			}
			if ck == "anon" {
				// nobody to attribute it to; whether an anonymous request may start a flow is C05's question
				run.Count("c05_domain", "device_code_for_anonymous_request")
				continue
			}
			if standing == "invalid" || !a.plain() {
				// registration and credentials at this endpoint are judged by C05 (defect D8), not here
				run.Count("c05_domain", fmt.Sprintf("%s:device_code_for_%s_client_with_%s_credentials", rn, a.kind, standing))
			}
			run.Eval()
			others := map[string]string{}
			for _, d := range devs {
				others[d.userCode] = fmt.Sprintf("flow #%d (client %s, %s)", d.n, d.owner, d.label())
			}
			res, greys, f := judgeDeviceResponse(w, resp, daExpect{issuer: w.Issuer, cfg: cfg.DeviceAuthorization, client: a.id, scopes: fields(scopes), others: others}, t0, t1)
			for _, g := range greys {
				run.Count("grey", g)
			}
			if f != nil {
				violated("response:"+f.key, f.what)
				return
			}
			// which flow of the provider this is and what became of the ones before it: the response must not depend on either
			nth, before := "first-flow", "none"
			if len(devs) > 0 {
				nth, before = "later-flow", devs[len(devs)-1].label()
			}
			run.Distinct(fmt.Sprintf("da|%s|%s|%s|%d|names-other=%v|form=%s|%s|previous=%s", rn, a.kind, ck, len(fields(scopes)), named != "" && named != a.id, formKnob, nth, before))
			run.Count("history_form", formKnob+":"+nth)
			run.Observed("history:form-" + map[bool]string{true: "path", false: "url"}[formKnob == "path"] + ":" + nth + ":" + rn)
			d := &mDev{n: len(devs), code: res.DeviceCode, userCode: res.UserCode, owner: a.id, scopes: fields(scopes), state: "pending", tainted: standing == "invalid"}
			devs = append(devs, d)
			run.SampleKind("device_authorization_response", map[string]any{"router": rn, "request": entry.Req, "response": resp.Body.String()})
		case choice < 9: // ---------- approve ----------
			d := pickDev(r, devs)
			user := pick(r, "user-1", "user-2")
			ok := w.Store.ApproveDevice(d.code, user)
			log = append(log, opLog{Op: "approve", Detail: fmt.Sprintf("#%d by %s", d.n, user), Result: fmt.Sprint(ok)})
			if d.state == "denied" || d.mixed {
				d.mixed = true
			}
			d.state, d.user = "approved", user
			run.Count("ops", "approve")
		case choice < 11: // ---------- deny ----------
			d := pickDev(r, devs)
			how := "deny"
			if r.IntN(3) == 0 {
				// a storage that records the denial without clearing an earlier approval
				how = "deny-keeping-done"
				w.Store.EditDevice(d.code, func(x *vstore.Device) { x.Denied = true })
			} else {
				w.Store.DenyDevice(d.code)
			}
			log = append(log, opLog{Op: how, Detail: fmt.Sprintf("#%d", d.n)})
			d.state, d.mixed = "denied", false
			run.Count("ops", how)
		case choice < 12: // ---------- expire ----------
			d := pickDev(r, devs)
			w.Store.ExpireDevice(d.code)
			log = append(log, opLog{Op: "expire", Detail: fmt.Sprintf("#%d", d.n)})
			d.expired = true
			run.Count("ops", "expire")
		default: // ---------- poll ----------
			if time.Since(began) > cfg.DeviceAuthorization.Lifetime-time.Minute {
				// the process was stalled for minutes: "pending" could by now be "expired" - no verdict depends on that
				run.Inconclusive("history stalled near the device-code lifetime")
				return
			}
			if !poll(run, w, r, router, hostile, pop, devs, &log, violated) {
				return
			}
		}
	}
	if caseIdx < 1 && router == 0 {
		run.Sample(map[string]any{"part": "history", "router": rn, "history": log})
	}
}

// poll executes one device-code token request and judges it; false ends the history (a violation was recorded).
func poll(run *ev.Run, w *opdrv.World, r randSource, router, hostile int, pop map[string]actor, devs []*mDev, log *[]opLog, violated func(key, what string)) bool {
	rn := opdrv.RouterNames[router]
	d := pickDev(r, devs)
	// which code is presented
	codeKind := "issued"
	code := d.code
	if r.IntN(100) < 3+hostile/3 {
		codeKind = pick2(r, []string{"garbage", "user-code", "truncated", "extended", "case-flipped", "absent"})
		switch codeKind {
		case "garbage":
			code = "AAAAAAAAAAAAAAAAAAAAAA"
		case "user-code":
			code = d.userCode
		case "truncated":
			code = d.code[:len(d.code)-1]
		case "extended":
			code = d.code + "A"
		case "case-flipped":
			code = flipCase(d.code)
			if code == d.code {
				codeKind, code = "garbage", "AAAAAAAAAAAAAAAAAAAAAA"
			}
		case "absent":
			code = ""
		}
	}
	// who presents it
	presenter := pop[d.owner]
	if r.IntN(100) < hostile {
		presenter = pop[pick2(r, actorIDs)]
	}
	foreign := presenter.id != d.owner
	ck := "right"
	if r.IntN(100) < hostile {
		ck = pick2(r, []string{"wrong", "none", "post", "anon"})
	}
	auth, standing := credFor(w, presenter, ck)
	if ck == "anon" {
		foreign = true // names no client at all
	}
	// storage behaviour during the request
	fault := "none"
	if r.IntN(100) < 8+hostile/4 {
		fault = pick2(r, faultKinds)
	}
	ctxKind := ""
	switch fault {
	case "deadline":
		w.Store.Arm(&vstore.FaultPlan{Method: "GetDeviceAuthorizatonState", Kind: vstore.FaultDeadline})
	case "plain":
		w.Store.Arm(&vstore.FaultPlan{Method: "GetDeviceAuthorizatonState", Kind: vstore.FaultPlain})
	case "oidc-server-error":
		w.Store.Arm(&vstore.FaultPlan{Method: "GetDeviceAuthorizatonState", Kind: vstore.FaultOIDCServerError})
	case "ctx-expired", "ctx-cancelled":
		ctxKind = fault
	}
	form := url.Values{"grant_type": {gtDevice}}
	if codeKind != "absent" {
		form.Set("device_code", code)
	}
	named := false
	if foreign && standing == "valid" && (auth.Kind == "basic" || auth.Kind == "assertion") && r.IntN(2) == 0 {
		// proven identity is the foreign client, the form names the owner of the code
		named = true
		form.Set("client_id", d.owner)
	}
	resp := post(w, router, "/oauth/token", form, auth, ctxKind)
	w.Store.Arm(nil)
	repoll := codeKind == "issued" && d.wins > 0
	detail := fmt.Sprintf("code=%s(#%d of %s, %s) presenter=%s(%s) cred=%s(%s) storage=%s form-names-owner=%v", codeKind, d.n, d.owner, d.label(), presenter.id, presenter.kind, ck, standing, fault, named)
	*log = append(*log, opLog{"poll", detail, lit("/oauth/token", form, auth, ctxKind), resp.Brief()})
	run.Eval()
	if resp.Panic != nil {
		violated("panic:"+resp.Panic.Site(), "token handler panicked: "+resp.Panic.Value)
		return false
	}
	asked, timedOut := storageTimedOut(w, resp)
	toks := success(resp)
	errCode := resp.OAuthError()
	own := pop[d.owner]
	clean := !foreign && standing == "valid" && own.plain() // the initiating client, plainly registered, plainly authenticated

	// ---- reference model: reasons why tokens must not be issued ----
	var refuse []string
	if codeKind != "issued" {
		refuse = append(refuse, "unknown-code")
	}
	if foreign {
		refuse = append(refuse, "foreign-client")
	}
	if standing == "invalid" {
		refuse = append(refuse, "bad-credential")
	}
	if fault != "none" {
		refuse = append(refuse, "storage-"+fault)
	}
	if codeKind == "issued" {
		switch {
		case d.state == "pending" && d.expired:
			refuse = append(refuse, "state-expired")
		case d.state == "pending":
			refuse = append(refuse, "state-pending")
		case d.state == "denied":
			refuse = append(refuse, "state-denied")
		}
	}
	dim := fmt.Sprintf("poll|%s|%s|own=%v|%s>%s|%s/%s|%s|%s|repoll=%v|names-owner=%v", rn, codeKind, !foreign, own.kind, presenter.kind, ck, standing, d.label(), fault, repoll, named)
	run.Distinct(dim)

	if len(refuse) > 0 {
		run.Count("refuse_reason", strings.Join(refuse, "+"))
		if toks != nil {
			violated("tokens-despite:"+refuse[0], "the token endpoint issued tokens although the model says refuse: "+strings.Join(refuse, "+"))
			return false
		}
		if resp.Status < 400 || errCode == "" {
			violated("refusal-not-an-error", fmt.Sprintf("refusal (%s) answered with status %d and error %q", strings.Join(refuse, "+"), resp.Status, errCode))
			return false
		}
		run.Count("refusal_error", fmt.Sprintf("%s|%s -> %s", rn, refuse[0], errCode))
		if fault != "none" {
			run.Count("fault_error", fmt.Sprintf("%s|%s|storage-asked=%v -> %s", rn, fault, asked, errCode))
		}
		switch {
		case timedOut:
			// on storage time-out slow_down
			if errCode != "slow_down" {
				violated("timeout-not-slow_down", fmt.Sprintf("the storage timed out on the device-state look-up, the answer is %q instead of slow_down", errCode))
				return false
			}
			run.Observed("slow_down:" + rn)
			run.Count("outcome", "slow_down_on_timeout")
			run.SampleKind("slow_down", sampleOf(rn, *log))
		case clean && codeKind == "issued" && fault == "none":
			// the initiating client, properly authenticated, nothing injected: the error is fixed by the state
			var want []string
			switch {
			case d.state == "pending" && d.expired:
				want = []string{"expired_token"}
			case d.state == "pending":
				want = []string{"authorization_pending"}
			case d.state == "denied" && d.expired:
				want = []string{"access_denied", "expired_token"}
			default:
				want = []string{"access_denied"}
			}
			if !slices.Contains(want, errCode) {
				violated("wrong-error:"+d.state+map[bool]string{true: "+expired"}[d.expired], fmt.Sprintf("device code is %s, the initiating client polled and got %q, the statement says %s", d.label(), errCode, strings.Join(want, " or ")))
				return false
			}
			run.Observed(errCode + ":" + rn)
			run.Count("outcome", "state_error:"+errCode)
			run.SampleKind(errCode, sampleOf(rn, *log))
		case fault == "none" && (codeKind != "issued" || (foreign && standing != "invalid")):
			// an unknown code, or the code of another client: refused - not "keep polling"
			if errCode == "authorization_pending" || errCode == "slow_down" {
				violated("not-refused:"+refuse[0], fmt.Sprintf("%s answered %q (keep polling) instead of a refusal", strings.Join(refuse, "+"), errCode))
				return false
			}
			if codeKind != "issued" {
				run.Observed("unknown-code-refused:" + rn)
				run.SampleKind("unknown_code", sampleOf(rn, *log))
			} else {
				if named {
					run.Count("outcome", "refused:foreign-client-naming-the-owner")
				}
				run.Observed("foreign-client-refused:" + rn)
				run.SampleKind("foreign_client", sampleOf(rn, *log))
			}
			run.Count("outcome", "refused:"+refuse[0])
		default:
			run.Count("outcome", "refused_other")
		}
		if codeKind == "issued" && (foreign || standing == "invalid" || (fault != "none" && !timedOut)) {
			d.tainted = true
		}
		return true
	}

	// ---- no reason to refuse: approved, presented by its own client, storage answering ----
	greyWhy := ""
	switch {
	case !clean:
		greyWhy = "odd-registration-or-presentation"
	case d.expired:
		greyWhy = "approved-then-expired"
	case d.mixed:
		greyWhy = "approved-after-denial"
	case d.tainted:
		greyWhy = "after-failed-attempt"
	case repoll:
		greyWhy = "poll-again-after-success"
	}
	if toks == nil {
		if resp.Status < 400 || errCode == "" {
			violated("refusal-not-an-error", fmt.Sprintf("no tokens, status %d, error %q", resp.Status, errCode))
			return false
		}
		if greyWhy == "" {
			violated("must-succeed", "the initiating client polled an approved, unexpired device code with proper credentials and was refused: "+resp.Brief())
			return false
		}
		if greyWhy == "approved-after-denial" && clean && !d.expired && errCode != "access_denied" {
			violated("wrong-error:approved-after-denial", fmt.Sprintf("device code approved after a denial: tokens or access_denied are within the statement, got %q", errCode))
			return false
		}
		run.Count("outcome", "grey_refused:"+greyWhy+":"+errCode)
		return true
	}
	if greyWhy == "" {
		run.Count("outcome", "success")
		run.Observed("success:" + rn)
		run.Observed("success:" + rn + ":" + own.kind)
		run.SampleKind("success:"+own.kind, sampleOf(rn, *log))
	} else {
		run.Count("outcome", "grey_success:"+greyWhy)
	}
	d.wins++
	if f := judgeTokens(run, w, toks, d.owner, d.user, d.scopes); f != nil {
		violated("tokens:"+f.key, f.what)
		return false
	}
	return true
}

func flipCase(s string) string {
	b := []byte(s)
	for i, c := range b {
		switch {
		case c >= 'a' && c <= 'z':
			b[i] = c - 32
		case c >= 'A' && c <= 'Z':
			b[i] = c + 32
		}
	}
	return string(b)
}

type randSource interface{ IntN(int) int }

func pick2[T any](r randSource, xs []T) T { return xs[r.IntN(len(xs))] }

// sampleOf keeps the last operations of a history (a sample is an illustration; witnesses of violations keep everything).
func sampleOf(rn string, log []opLog) map[string]any {
	const keep = 8
	m := map[string]any{"router": rn}
	if len(log) > keep {
		m["earlier_operations_omitted"] = len(log) - keep
		log = log[len(log)-keep:]
	}
	m["history"] = slices.Clone(log)
	return m
}

// pickDev prefers the most recent device code (it carries the fewest grey flags), otherwise any.
func pickDev(r randSource, devs []*mDev) *mDev {
	if r.IntN(2) == 0 {
		return devs[len(devs)-1]
	}
	return devs[r.IntN(len(devs))]
}
