package main

// Part 5 — the process's entropy source delivers its bytes in short reads.
//
// "Device authorization responses contain an unguessable device code" is quantified over configurations, and the
// source the library draws its randomness from (crypto/rand.Reader, a replaceable io.Reader: a hardware device, a
// buffered or wrapped generator, a FIFO) is part of the configuration of the process. The io.Reader contract lets a
// source answer a Read with fewer bytes than asked for and a nil error (even with none at all); whoever needs n bytes
// has to keep asking. Parts 1-4 run under the default source, which always fills the buffer, so a device code (or
// anything else) built from ONE answer of the source looks perfect there.
//
// Here crypto/rand.Reader is, for one group of cases at a time, a reader that passes on the bytes of the real source
// (so every byte it delivers is as unpredictable as before) but in a chosen legal pattern: full reads (control), one
// byte per call, half of what was asked, all but the last byte, 7-byte FIFO chunks, random chunk sizes, and random
// chunks with empty (0, nil) answers in between. Under each pattern device flows with generated user-code
// configurations are driven on both routers and judged as everywhere else (judgeDeviceResponse: every clause about
// the response incl. no repeat of a device code in the whole run; pending poll; approval through the user code;
// tokens for the initiating client with the approver's subject and the requested scopes).
//
// The additional clause, decided per (pattern, router) group over all device codes of the group (>= 64):
// the sampled upper bound of what a device code can carry is taken over the character positions that actually VARY
// within the group. A position that shows one symbol in every code carries nothing, a position that shows at most 4
// different symbols carries at most log2 of their number, any other position is credited with the full capacity of
// the code's character class (6 bits for base64url, 4 for hex, ... - the same conservative estimate as
// encodedBits). Less than 128 bits in total: the code is guessable under this source. (Under a sound source a
// position of a random code is constant over 64 codes with probability < 2^-63 per bit of capacity: no flakiness.)
// Nothing here looks at how often or with what sizes the library asked the source (only counted for the evidence).
//
// Not injected: an entropy source that FAILS. crypto/rand.Read ends the process on it (Go >= 1.24), which is no
// answer of the provider at all; the statement makes no promise for it.

import (
	crand "crypto/rand"
	"fmt"
	"io"
	"math"
	"math/rand/v2"
	"net/url"
	"sort"
	"strings"
	"sync"
	"time"

	"github.com/zitadel/oidc/v3/pkg/op"

	"verif/internal/ev"
	"verif/internal/opdrv"
	"verif/internal/vstore"
)

const (
	entBase      = 1 << 43 // replay indices of the entropy part: entBase + mode<<20 + case; with entGroupFlag: the whole group of the mode
	entGroupFlag = 1 << 19
	entMinGroup  = 64 // device codes a group needs for the position clause
)

var entModes = []string{"full-reads", "one-byte", "half", "all-but-one", "seven-byte-fifo", "random-chunks", "random-chunks-with-empty-answers"}

func entClass(mode string) string {
	if mode == "full-reads" {
		return "full-reads"
	}
	return "short-reads"
}

// patternReader hands out the bytes of src in the pattern of its mode. Safe for concurrent use.
type patternReader struct {
	src  io.Reader
	mode string

	mu    sync.Mutex
	rng   *rand.Rand
	calls uint64
	hist  map[string]int64
}

func (p *patternReader) Read(b []byte) (int, error) {
	if len(b) == 0 {
		return 0, nil
	}
	n := len(b)
	p.mu.Lock()
	p.calls++
	switch p.mode {
	case "one-byte":
		n = 1
	case "half":
		n = (len(b) + 1) / 2
	case "all-but-one":
		if len(b) > 1 {
			n = len(b) - 1
		}
	case "seven-byte-fifo":
		n = min(7, len(b))
	case "random-chunks":
		n = 1 + p.rng.IntN(len(b))
	case "random-chunks-with-empty-answers":
		if p.calls%3 == 0 {
			n = 0 // "nothing happened": legal, the caller has to ask again
		} else {
			n = 1 + p.rng.IntN(len(b))
		}
	}
	switch {
	case n == 0:
		p.hist["empty"]++
	case n < len(b):
		p.hist["short"]++
	default:
		p.hist["full"]++
	}
	p.mu.Unlock()
	if n == 0 {
		return 0, nil
	}
	return io.ReadFull(p.src, b[:n])
}

type entGroup struct {
	mu      sync.Mutex
	codes   [2][]string // per router
	success [2]int
}

// withEntropySource runs fn while crypto/rand.Reader follows the pattern; the previous source is put back afterwards.
func withEntropySource(run *ev.Run, modeIdx int, fn func()) {
	mode := entModes[modeIdx]
	pr := &patternReader{src: crand.Reader, mode: mode, rng: run.Rand(uint64(1660 + modeIdx)), hist: map[string]int64{}}
	prev := crand.Reader
	crand.Reader = pr
	defer func() {
		crand.Reader = prev
		for k, v := range pr.hist {
			run.CountN("entropy_source_answers", mode+":"+k, v)
		}
	}()
	fn()
}

// runEntropyMode drives all cases of one pattern and decides the position clause for its two groups.
func runEntropyMode(run *ev.Run, modeIdx, nCases int) {
	g := &entGroup{}
	withEntropySource(run, modeIdx, func() {
		ev.Parallel(nCases, 0, func(_ int, i int) {
			runEntropyCase(run, modeIdx, i, g)
		})
	})
	judgeEntropyGroup(run, modeIdx, nCases, g)
}

// replayEntropy: a single case, or (group flag) the whole group of a pattern.
func replayEntropy(run *ev.Run, rc int64, nCases int) {
	modeIdx := int(rc >> 20)
	if modeIdx < 0 || modeIdx >= len(entModes) {
		run.HarnessBug(fmt.Sprintf("entropy replay index %d names no pattern", rc))
		return
	}
	if rc&entGroupFlag != 0 {
		runEntropyMode(run, modeIdx, nCases)
		return
	}
	g := &entGroup{}
	withEntropySource(run, modeIdx, func() { runEntropyCase(run, modeIdx, int(rc&(entGroupFlag-1)), g) })
}

func runEntropyCase(run *ev.Run, modeIdx, i int, g *entGroup) {
	mode := entModes[modeIdx]
	caseIdx := int64(entBase + modeIdx<<20 + i)
	r := run.CaseRand(1650, modeIdx<<20|i)
	router := i % 2
	rn := opdrv.RouterNames[router]
	al := genAlphabet(r)
	uc := op.UserCodeConfig{CharSet: al.set, CharAmount: 1 + r.IntN(32), DashInterval: r.IntN(34)}
	switch r.IntN(4) {
	case 0:
		uc, al = op.UserCodeBase20, alphabet{"preset-base20", op.UserCodeBase20.CharSet}
	case 1:
		uc, al = op.UserCodeDigits, alphabet{"preset-digits", op.UserCodeDigits.CharSet}
	}
	dc := op.DeviceAuthorizationConfig{Lifetime: pick(r, lifetimes...), PollInterval: pick(r, intervals...), UserFormPath: pick(r, formPaths...), UserCode: uc}
	opt := opdrv.Options{Caps: vstore.Full, Issuer: opdrv.DefaultIssuer, Config: opdrv.DefaultConfig()}
	opt.Config.DeviceAuthorization = dc
	cfgLit := map[string]any{"alphabet": al.set, "alphabet_kind": al.kind, "char_amount": uc.CharAmount, "dash_interval": uc.DashInterval,
		"lifetime": dc.Lifetime.String(), "poll_interval": dc.PollInterval.String(), "user_form_path": dc.UserFormPath, "issuer": opt.Issuer}
	w, err := opdrv.NewWorld(opt)
	if err != nil {
		run.HarnessBug(fmt.Sprintf("entropy case %d: provider refused the configuration: %v", caseIdx, err))
		return
	}
	pop := population(w, r)
	var log []opLog
	violated := func(key, what string) {
		run.Violation("C16:"+rn+":"+key, caseIdx, what, map[string]any{"part": "entropy source", "router": rn,
			"entropy_source": "crypto/rand.Reader = the real source handed out in the pattern " + mode, "configuration": cfgLit, "history": log})
	}
	others := map[string]string{}
	nReq := 3 + r.IntN(3)
	for k := 0; k < nReq; k++ {
		a := pop[pick(r, "dev", "dev2", "devpub", "devjwt")]
		auth, _ := credFor(w, a, "right")
		scopes := pick(r, scopeChoices...)
		form := url.Values{}
		if scopes != "" {
			form.Set("scope", scopes)
		}
		t0 := time.Now()
		resp := post(w, router, "/device_authorization", form, auth, "")
		t1 := time.Now()
		log = append(log, opLog{"device_authorization", fmt.Sprintf("client=%s(%s) scope=%q", a.id, a.kind, scopes), lit("/device_authorization", form, auth, ""), resp.Brief()})
		run.Eval()
		if resp.Panic != nil {
			violated("panic:"+resp.Panic.Site(), "device authorization handler panicked: "+resp.Panic.Value)
			return
		}
		if resp.Status != 200 {
			if duplicateUserCode(w, resp) {
				run.Count("grey", "duplicate-user-code-answered-"+fmt.Sprint(resp.Status))
				continue
			}
			violated("device-authorization-refused", "a plainly registered device client with proper credentials was refused under a valid configuration: "+resp.Brief())
			continue // the flows of a case are independent: the group keeps drawing
		}
		// the group keeps every device code handed out, whatever the per-response clauses say about it
		if code := resp.Str("device_code"); code != "" {
			g.mu.Lock()
			g.codes[router] = append(g.codes[router], code)
			g.mu.Unlock()
		}
		res, greys, f := judgeDeviceResponse(w, resp, daExpect{issuer: opt.Issuer, cfg: dc, client: a.id, scopes: fields(scopes), issuerVia: "static", others: others}, t0, t1)
		for _, gr := range greys {
			run.Count("grey", gr)
		}
		if f != nil {
			violated("response:"+f.key, f.what)
			continue
		}
		others[res.UserCode] = fmt.Sprintf("flow %d of this provider (client %s)", k+1, a.id)
		nth := "first-flow"
		if k > 0 {
			nth = "later-flow"
		}
		run.Distinct(fmt.Sprintf("entropy|%s|%s|%s|%s|n=%s|dash=%s|%s", rn, mode, a.kind, alphabetClass(al.kind), bucketAmount(uc.CharAmount), dashClass(uc.CharAmount, uc.DashInterval), nth))
		run.Count("entropy_flows", mode+":"+rn)

		cu, _ := url.Parse(res.URIComplete)
		typed := cu.Query().Get("user_code")
		rec, _ := w.Store.DeviceByUserCode(typed)
		pform := url.Values{"grant_type": {gtDevice}, "device_code": {res.DeviceCode}}
		if time.Since(t0) > dc.Lifetime-10*time.Second {
			run.Inconclusive("entropy case stalled near the device-code lifetime")
			continue
		}
		before := post(w, router, "/oauth/token", pform, credOf(w, a), "")
		log = append(log, opLog{"poll", "before approval", lit("/oauth/token", pform, auth, ""), before.Brief()})
		run.Eval()
		if before.Panic != nil {
			violated("panic:"+before.Panic.Site(), "token handler panicked: "+before.Panic.Value)
			return
		}
		if success(before) != nil {
			violated("tokens-despite:state-pending", "tokens before the user approved")
			return
		}
		if before.OAuthError() != "authorization_pending" {
			violated("wrong-error:pending", fmt.Sprintf("pending device code polled by its client: %q instead of authorization_pending", before.OAuthError()))
			return
		}
		user := pick(r, "user-1", "user-2")
		w.Store.ApproveDevice(rec.DeviceCode, user)
		log = append(log, opLog{Op: "approve", Detail: fmt.Sprintf("user code %q typed by %s", typed, user)})
		after := post(w, router, "/oauth/token", pform, credOf(w, a), "")
		log = append(log, opLog{"poll", "after approval", lit("/oauth/token", pform, auth, ""), after.Brief()})
		run.Eval()
		if after.Panic != nil {
			violated("panic:"+after.Panic.Site(), "token handler panicked: "+after.Panic.Value)
			return
		}
		toks := success(after)
		if toks == nil {
			violated("must-succeed", "approved through the user code of the response, polled by the initiating client, refused: "+after.Brief())
			return
		}
		if f := judgeTokens(run, w, toks, a.id, user, fields(scopes)); f != nil {
			violated("tokens:"+f.key, f.what)
			return
		}
		run.Count("outcome", "entropy_flow_success")
		g.mu.Lock()
		g.success[router]++
		g.mu.Unlock()
	}
}

// positionBits: the upper bound of what the codes can carry, taken over the positions that vary within the sample.
// perPos[i] = number of different symbols seen at position i ("absent" counts as a symbol of its own).
func positionBits(codes []string) (bits, capacity float64, perPos []int) {
	maxLen, runes := 0, 0
	rs := make([][]rune, len(codes))
	for i, c := range codes {
		rs[i] = []rune(c)
		runes += len(rs[i])
		maxLen = max(maxLen, len(rs[i]))
	}
	if runes == 0 {
		return 0, 0, nil
	}
	capacity = encodedBits(strings.Join(codes, "")) / float64(runes) // bits per character of the smallest usual class holding all of them
	perPos = make([]int, maxLen)
	for p := 0; p < maxLen; p++ {
		seen := map[rune]struct{}{}
		for _, c := range rs {
			if p < len(c) {
				seen[c[p]] = struct{}{}
			} else {
				seen[-1] = struct{}{}
			}
		}
		perPos[p] = len(seen)
		switch {
		case len(seen) <= 1:
		case len(seen) <= 4:
			bits += math.Min(capacity, math.Log2(float64(len(seen))))
		default:
			bits += capacity
		}
	}
	return bits, capacity, perPos
}

func judgeEntropyGroup(run *ev.Run, modeIdx, nCases int, g *entGroup) {
	mode := entModes[modeIdx]
	for router := 0; router < 2; router++ {
		rn := opdrv.RouterNames[router]
		codes := g.codes[router]
		if len(codes) < entMinGroup {
			run.Inconclusive(fmt.Sprintf("entropy group %s/%s drew only %d device codes (< %d): position clause not decided", mode, rn, len(codes), entMinGroup))
			continue
		}
		run.Eval()
		bits, capacity, perPos := positionBits(codes)
		run.Count("entropy_group_position_bits", fmt.Sprintf("%s:%s:%.0f", mode, rn, bits))
		if bits < 128 {
			sample := append([]string(nil), codes...)
			sort.Strings(sample)
			if len(sample) > 12 {
				sample = sample[:12]
			}
			var fixed []int
			for p, n := range perPos {
				if n <= 1 {
					fixed = append(fixed, p)
				}
			}
			run.Violation("C16:"+rn+":device-code-guessable:entropy-source-"+entClass(mode), int64(entBase+modeIdx<<20+entGroupFlag),
				fmt.Sprintf("with crypto/rand.Reader handing out the real source's bytes in the pattern %q, the %d device codes of %d flows differ in so few character positions that a code carries at most %.0f bits (< 128): %d of %d positions show the same symbol in every code",
					mode, len(codes), len(codes), bits, len(fixed), len(perPos)),
				map[string]any{"part": "entropy source", "router": rn, "entropy_source": "crypto/rand.Reader = the real source handed out in the pattern " + mode,
					"cases_of_the_group": nCases, "device_codes": len(codes), "sample_of_codes": sample, "bits_per_character_of_the_class": capacity,
					"different_symbols_per_position": perPos, "positions_with_one_symbol": fixed,
					"reproduce": "replay runs the whole group of this pattern; any single device authorization under a reader that answers Read with fewer bytes than asked shows the fixed tail"})
			continue
		}
		if g.success[router] == 0 {
			continue // no flow reached tokens: the mandatory name stays unobserved
		}
		run.Observed("entropy:" + mode + ":" + rn)
	}
}
