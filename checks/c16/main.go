// C16 — device grant: tokens only after user approval and only to the initiating client.
//
// Part 1 (histories): random histories of device_authorization / approve / deny / expire / poll operations by
// confidential, public, private_key_jwt, grant-less and unknown clients are executed against a fresh world on
// both routers and judged by a sequential reference model `device code -> {client, scopes, state}` written
// from the property statement.
//
// Part 2 (configurations): generated op.DeviceAuthorizationConfig values (user-code alphabet / amount / dash
// interval, lifetime, poll interval, form path, issuer) — every clause the statement makes about the device
// authorization response is decided, then the user code read from verification_uri_complete is approved and
// the device polls before and after.
//
// Part 3 (hang.go): the storage's device-state look-up hangs until its context ends.
//
// Part 4 (twin.go): two or three providers (or one provider under two hosts) alive in the same process and sharing
// parts of their configuration are driven in turns; device codes are polled where they were not issued.
//
// Part 5 (entropy.go): the process's entropy source (crypto/rand.Reader) hands out its bytes in legal short reads;
// device flows under each pattern, and the device codes of a pattern must still vary in >= 128 bits worth of positions.
//
// In parts 1, 2 and 4 every provider answers several device authorizations (by several clients) and the user form is
// configured as a path on the issuer or as the deprecated complete URL: a response must not depend on the flows before it.
package main

import (
	"verif/internal/ev"
)

func main() {
	run := ev.Start("C16", "exploration")
	run.SetRule("part 1: random histories (6-35 ops) of device_authorization / approve(user) / deny / expire / poll over clients {dev, dev2 confidential+Basic; devpub public; devjwt private_key_jwt; web without the device grant; ghost unregistered}, polls by the own / a foreign / an unauthenticated client (also a foreign client proving its own identity while the form names the owner), with unknown codes (garbage, the user code, truncated, extended, case-flipped, absent) and under storage faults (time-out injected or through an expired request context, plain error, server_error, cancelled context), each history executed on both routers in a fresh world; every device-authorization response and every poll is an evaluation; distinct = distinct vectors (router, code kind, own/foreign, owner kind>presenter kind, credential kind/standing, model state incl. expired / earlier denial, storage behaviour, poll-again) for polls and (router, client kind, credential kind, number of scopes) for device authorizations. " +
		"part 2: generated device-authorization configurations, 2 requests + pending poll + approval through the user code + poll on each router; distinct = (router, alphabet kind, amount bucket, dash class, lifetime, poll interval, form path, issuer mode, form knob {path, url, url-deep, url-query}, client kind, first/later flow of the provider); 2-4 flows per provider. " +
		"in parts 1, 2 and 4 the user form is the form path or the deprecated complete form URL (1 history in 7 with parameters of its own) and verification_uri must be exactly the configured form address for every flow of a provider - no user code, of this or an earlier flow - while verification_uri_complete adds exactly this flow's code. " +
		"part 4: 2-3 providers alive together (same form URL string / same issuer with other form paths / URL beside path / host-derived issuers / identical but for the storage) or one provider under two hosts, 4-8 device authorizations in turns on both routers judged against the answering provider's own configuration, then per flow: poll at another provider before and after the approval (unknown code there: refused), pending poll, approval through the user code of the complete URI, poll (tokens); distinct = (router, mode, side, client kind, first/later at this provider). " +
		"part 5: crypto/rand.Reader replaced, one pattern at a time, by a reader passing on the real source's bytes as {full reads (control), one byte per call, half, all but one byte, 7-byte chunks, random chunks, random chunks with (0,nil) answers}; per pattern generated configurations x 3-5 complete flows (device authorization judged in full, pending poll, approval through the user code, tokens) alternating routers; per (pattern, router) group of >= 64 device codes the encoded-length bound is taken over the character positions that vary within the group (one symbol: 0 bits, <= 4 symbols: log2, else the class capacity) and must be >= 128 bits; distinct = (router, pattern, client kind, alphabet class, amount bucket, dash class, first/later flow)")
	run.Assume(
		"vstore policy (as the repository's example storage): GetDeviceAuthorizatonState answers only for the client id it is asked with, so 'a code of another client is refused' is decided by what client id the library hands to the storage",
		"unguessability of the device code is only sampled: at least 128 bits of encoded length and no repeat among all device codes drawn in the run (a monitor cannot decide unpredictability); under the short-reading entropy sources of part 5 the length bound counts only the character positions that vary over the codes of a group",
		"the entropy source of the process is part of the configuration: any io.Reader-conforming pattern of delivering sound random bytes (short reads, empty answers with a nil error) is legal; a source that fails is not injected (crypto/rand.Read ends the process on it - no provider answer to judge)",
		"expiry is produced by moving the stored expiry a day back, never by waiting; lifetimes are >= 30 s so that no case is near a temporal boundary; the stored expiry is compared with request time + lifetime within +-2 s",
		"after a foreign, unauthenticated or failing attempt on a device code later success is grey; approved-then-expired, approved-after-denial, a second poll after success, odd presentations (secret in the form for a Basic client, superfluous secret of a public client) and device codes of a client without the device grant (LegacyServer, judged by C05) are grey for success and strict for refusal",
		"whether a client may start a device flow (grant registration, credentials at /device_authorization) is C05's question and only counted here",
		"a denial recorded after an approval (also by a storage that keeps Done set) is 'after denial': access_denied",
		"a complete form URL with parameters of its own: verification_uri must show exactly them; whether verification_uri_complete keeps them beside user_code is grey (counted)",
		"a device code presented at another provider of the same process (separate storage) is an unknown code there; such refusals do not taint the code at its own provider (they never reach its storage); the same provider reached under another host is not polled across hosts (open)",
		"alphabets are letters/digits of any script, never empty, without URL-reserved punctuation and without '-'; CharAmount 1-32; DashInterval 0-33; with an issuer that has a path the form path may replace or extend it (grey)",
	)
	for _, rn := range []string{"provider", "legacy"} {
		if run.ReplayCase() >= 0 {
			break // a single replayed case cannot show every scenario
		}
		run.Mandatory("success:"+rn, "success:"+rn+":conf", "success:"+rn+":public", "success:"+rn+":jwt",
			"authorization_pending:"+rn, "access_denied:"+rn, "expired_token:"+rn, "slow_down:"+rn,
			"unknown-code-refused:"+rn, "foreign-client-refused:"+rn, "config:"+rn, "hang:slow_down:"+rn,
			"history:form-path:later-flow:"+rn, "history:form-url:later-flow:"+rn, "config:form-path:later-flow:"+rn, "config:form-url:later-flow:"+rn,
			"twin:response:"+rn, "twin:other-provider-refused:"+rn, "twin:success:"+rn)
	}
	if run.ReplayCase() < 0 {
		run.Mandatory("alphabet:base20", "alphabet:digits", "alphabet:single-symbol", "alphabet:unicode")
		for _, m := range twinModes {
			run.Mandatory("twin:" + m)
		}
		for _, m := range entModes {
			run.Mandatory("entropy:"+m+":provider", "entropy:"+m+":legacy")
		}
	}

	nHist := run.N(2000, 50000)
	nCfg := run.N(200, 5000)
	nTwin := run.N(180, 3000)
	nEnt := run.N(64, 1000) // per entropy pattern
	if rc := run.ReplayCase(); rc >= 0 {
		if rc >= entBase {
			replayEntropy(run, rc-entBase, nEnt)
		} else if rc >= twinBase {
			runTwin(run, int(rc-twinBase))
		} else if rc >= hangBase {
			runHang(run)
		} else if rc >= cfgBase {
			runConfig(run, int(rc-cfgBase))
		} else {
			runHistory(run, int(rc), 0)
			runHistory(run, int(rc), 1)
		}
		finish(run)
	}
	ev.Parallel(nHist, 0, func(_ int, i int) {
		runHistory(run, i, 0)
		runHistory(run, i, 1)
	})
	hangDone := make(chan struct{})
	go func() { defer close(hangDone); runHang(run) }() // costs the library's own 4 s bound: runs beside the other parts
	ev.Parallel(nCfg, 0, func(_ int, i int) {
		runConfig(run, i)
	})
	ev.Parallel(nTwin, 0, func(_ int, i int) {
		runTwin(run, i)
	})
	<-hangDone
	// part 5 replaces a global of the process: it runs when nothing else does, one pattern after the other
	for m := range entModes {
		runEntropyMode(run, m, nEnt)
	}
	finish(run)
}

func finish(run *ev.Run) {
	run.Extra("device_codes_drawn_without_repeat", codesDrawn())
	run.Finish()
}
