package main

import (
	"context"
	"encoding/json"
	"fmt"
	"math"
	"math/rand/v2"
	"net/url"
	"slices"
	"strings"
	"sync"
	"time"

	"github.com/zitadel/oidc/v3/pkg/oidc"
	"github.com/zitadel/oidc/v3/pkg/op"

	"verif/internal/ev"
	"verif/internal/opdrv"
	"verif/internal/vclient"
	"verif/internal/vstore"
)

const gtDevice = "urn:ietf:params:oauth:grant-type:device_code"

func pick[T any](r *rand.Rand, xs ...T) T { return xs[r.IntN(len(xs))] }

// ---------- client population ----------

// kinds: "conf" (web application, Basic secret), "public" (native, no secret), "jwt" (private_key_jwt),
// "nogrant" (confidential without the device grant), "ghost" (not registered at all).
type actor struct {
	id   string
	kind string
	c    *vclient.Client // nil for the ghost
}

// plain: a plainly configured client that holds the device grant (6a: success is a must only for those).
func (a actor) plain() bool { return a.kind == "conf" || a.kind == "public" || a.kind == "jwt" }

var actorIDs = []string{"dev", "dev2", "devpub", "devjwt", "web", "ghost"}

func population(w *opdrv.World, r *rand.Rand) map[string]actor {
	cl := opdrv.StdClients(w.Store)
	dev2 := vclient.Confidential("dev2", "secret-dev2")
	dev2.Grants = []oidc.GrantType{oidc.GrantTypeDeviceCode, oidc.GrantTypeRefreshToken}
	dev2.RespTypes = nil
	w.Store.AddClient(dev2)
	devjwt := vclient.Confidential("devjwt", "")
	devjwt.Auth = oidc.AuthMethodPrivateKeyJWT
	devjwt.Grants = []oidc.GrantType{oidc.GrantTypeDeviceCode, oidc.GrantTypeRefreshToken}
	devjwt.RespTypes = nil
	w.Store.AddClient(devjwt)
	w.Store.AddClientKey("devjwt", opdrv.ClientKey("devjwt"))
	// both access token formats
	for _, c := range []*vclient.Client{cl["dev"], dev2, cl["devpub"], devjwt} {
		if r.IntN(2) == 0 {
			c.TokenType = op.AccessTokenTypeJWT
		}
	}
	return map[string]actor{
		"dev":    {"dev", "conf", cl["dev"]},
		"dev2":   {"dev2", "conf", dev2},
		"devpub": {"devpub", "public", cl["devpub"]},
		"devjwt": {"devjwt", "jwt", devjwt},
		"web":    {"web", "nogrant", cl["web"]},
		"ghost":  {"ghost", "ghost", nil},
	}
}

// credential presentation kinds
var credKinds = []string{"right", "wrong", "none", "post", "anon"}

// credFor returns the presentation and its standing:
//
//	"valid"   the registered method with the right proof (or none for the public client)
//	"odd"     not a wrong credential, yet not the registered presentation (secret in the form for a Basic client,
//	          superfluous secret of a public client): success is grey, refusal is legal (6a C04/C05)
//	"invalid" wrong / missing proof, or no such client: tokens must never follow
func credFor(w *opdrv.World, a actor, kind string) (opdrv.ClientAuth, string) {
	if kind == "anon" {
		return opdrv.NoAuth(), "invalid"
	}
	switch a.kind {
	case "ghost":
		switch kind {
		case "none":
			return opdrv.IDOnly(a.id), "invalid"
		case "post":
			return opdrv.PostAuth(a.id, "secret-ghost"), "invalid"
		}
		return opdrv.BasicAuth(a.id, "secret-ghost"), "invalid"
	case "public":
		switch kind {
		case "wrong":
			return opdrv.BasicAuth(a.id, "superfluous"), "odd"
		case "post":
			return opdrv.PostAuth(a.id, "superfluous"), "odd"
		}
		return opdrv.IDOnly(a.id), "valid"
	case "jwt":
		switch kind {
		case "right":
			return opdrv.AssertionAuth(w.ClientAssertion(opdrv.ClientKey(a.id), a.id)), "valid"
		case "wrong":
			forged := opdrv.ClientKey("svc").With(opdrv.ClientKey(a.id).Kid, "RS256", "sig")
			return opdrv.AssertionAuth(w.ClientAssertion(forged, a.id)), "invalid"
		case "post":
			return opdrv.PostAuth(a.id, "no-such-secret"), "invalid"
		}
		return opdrv.IDOnly(a.id), "invalid"
	}
	// conf / nogrant
	switch kind {
	case "right":
		return opdrv.BasicAuth(a.id, a.c.Secret), "valid"
	case "wrong":
		return opdrv.BasicAuth(a.id, "not-the-secret"), "invalid"
	case "post":
		return opdrv.PostAuth(a.id, a.c.Secret), "odd"
	}
	return opdrv.IDOnly(a.id), "invalid"
}

// post sends a form POST; ctxKind "ctx-expired" / "ctx-cancelled" hands the handler a request whose context
// is already past its deadline / cancelled (what a storage then reports is a time-out / an ordinary failure).
func post(w *opdrv.World, router int, path string, form url.Values, auth opdrv.ClientAuth, ctxKind string) *opdrv.Resp {
	f := url.Values{}
	for k, v := range form {
		f[k] = slices.Clone(v)
	}
	hook := auth.Apply(f)
	r := w.NewRequest("POST", path, f)
	hook(r)
	switch ctxKind {
	case "ctx-expired":
		ctx, cancel := context.WithDeadline(r.Context(), time.Now().Add(-time.Hour))
		defer cancel()
		r = r.WithContext(ctx)
	case "ctx-cancelled":
		ctx, cancel := context.WithCancel(r.Context())
		cancel()
		r = r.WithContext(ctx)
	}
	return w.Do(router, r)
}

type reqLit struct {
	Path string     `json:"path"`
	Form url.Values `json:"form"`
	Auth string     `json:"auth"`
	Ctx  string     `json:"ctx,omitempty"`
}

func lit(path string, form url.Values, a opdrv.ClientAuth, ctxKind string) reqLit {
	s := a.Kind
	switch a.Kind {
	case "basic", "post":
		s += " " + a.ID + ":" + a.Secret
	case "idonly":
		s += " " + a.ID
	case "assertion":
		s += " " + a.Assertion
	}
	return reqLit{path, form, s, ctxKind}
}

// ---------- scopes ----------

var scopeChoices = []string{"openid", "openid profile", "openid email offline_access", "profile email", "api", "", "openid api offline_access"}

func scopeSet(s []string) string {
	c := slices.Clone(s)
	slices.Sort(c)
	c = slices.Compact(c)
	return strings.Join(c, " ")
}

func fields(s string) []string { return strings.Fields(s) }

// ---------- the device code registry (no repeats over the whole run) ----------

var (
	codesMu   sync.Mutex
	codesSeen = map[string]struct{}{}
)

// registerCode returns false when the code was already handed out in this run.
func registerCode(code string) bool {
	codesMu.Lock()
	defer codesMu.Unlock()
	if _, dup := codesSeen[code]; dup {
		return false
	}
	codesSeen[code] = struct{}{}
	return true
}

func codesDrawn() int {
	codesMu.Lock()
	defer codesMu.Unlock()
	return len(codesSeen)
}

// encodedBits is a conservative estimate of the entropy a string of this shape can carry at most:
// length x log2(size of the smallest usual alphabet containing all its characters).
func encodedBits(s string) float64 {
	hexL, hexU, b64 := true, true, true
	for _, c := range s {
		isDigit := c >= '0' && c <= '9'
		if !(isDigit || (c >= 'a' && c <= 'f')) {
			hexL = false
		}
		if !(isDigit || (c >= 'A' && c <= 'F')) {
			hexU = false
		}
		if !(isDigit || (c >= 'a' && c <= 'z') || (c >= 'A' && c <= 'Z') || c == '-' || c == '_' || c == '+' || c == '/' || c == '=') {
			b64 = false
		}
	}
	n := float64(len([]rune(s)))
	switch {
	case hexL || hexU:
		return n * 4
	case b64:
		return n * 6
	}
	return n * math.Log2(94)
}

// ---------- judging a device authorization response ----------

type daExpect struct {
	issuer    string // the issuer the provider has for this request
	cfg       op.DeviceAuthorizationConfig
	client    string
	scopes    []string
	issuerVia string // "static", "static-port", "static-path", "host"
	// others: user codes of the other flows the harness knows of (same provider, or another provider alive in the
	// process) -> who they belong to. Only used to say in a finding whose code a URI discloses; the verdict does not depend on it.
	others map[string]string
}

// sameValues: the same parameters with the same values in the same order per parameter.
func sameValues(a, b url.Values) bool {
	if len(a) != len(b) {
		return false
	}
	for k, v := range a {
		if !slices.Equal(v, b[k]) {
			return false
		}
	}
	return true
}

type daResult struct {
	DeviceCode, UserCode, URI, URIComplete string
	ExpiresIn, Interval                    float64
	HasInterval                            bool
}

type finding struct{ key, what string }

// userCodeMatches checks alphabet, amount and dash format: amount runes of the alphabet with a '-' before rune
// i whenever interval != 0, i != 0 and i is a multiple of interval.
func userCodeMatches(code string, cfg op.UserCodeConfig) string {
	set := map[rune]bool{}
	for _, c := range cfg.CharSet {
		set[c] = true
	}
	rs := []rune(code)
	pos := 0
	for i := 0; i < cfg.CharAmount; i++ {
		if cfg.DashInterval != 0 && i != 0 && i%cfg.DashInterval == 0 {
			if pos >= len(rs) || rs[pos] != '-' {
				return fmt.Sprintf("no dash before character %d", i)
			}
			pos++
		}
		if pos >= len(rs) {
			return fmt.Sprintf("only %d of %d characters", i, cfg.CharAmount)
		}
		if !set[rs[pos]] {
			return fmt.Sprintf("character %q at position %d is not in the alphabet", rs[pos], pos)
		}
		pos++
	}
	if pos != len(rs) {
		return fmt.Sprintf("%d trailing characters", len(rs)-pos)
	}
	return ""
}

// judgeDeviceResponse decides every clause the statement makes about a device authorization response.
// t0/t1 bracket the request. greys are open points that were met (counted, never failed).
func judgeDeviceResponse(w *opdrv.World, resp *opdrv.Resp, e daExpect, t0, t1 time.Time) (res *daResult, greys []string, f *finding) {
	fail := func(key, what string, a ...any) (*daResult, []string, *finding) {
		return res, greys, &finding{key, fmt.Sprintf(what, a...)}
	}
	var raw map[string]json.RawMessage
	if err := json.Unmarshal(resp.Body.Bytes(), &raw); err != nil {
		return fail("response-not-json", "body is not a JSON object: %v", err)
	}
	res = &daResult{}
	str := func(k string) (string, bool) {
		var s string
		if v, ok := raw[k]; !ok || json.Unmarshal(v, &s) != nil {
			return "", false
		}
		return s, true
	}
	num := func(k string) (float64, bool) {
		var n float64
		if v, ok := raw[k]; !ok || json.Unmarshal(v, &n) != nil {
			return 0, false
		}
		return n, true
	}
	var ok bool
	if res.DeviceCode, ok = str("device_code"); !ok || res.DeviceCode == "" {
		return fail("device-code-missing", "no device_code string in the response")
	}
	if res.UserCode, ok = str("user_code"); !ok {
		return fail("user-code-missing", "no user_code string in the response")
	}
	if res.URI, ok = str("verification_uri"); !ok {
		return fail("verification-uri-missing", "no verification_uri string in the response")
	}
	res.URIComplete, _ = str("verification_uri_complete")
	if res.ExpiresIn, ok = num("expires_in"); !ok {
		return fail("expires-in-missing", "no numeric expires_in in the response")
	}
	res.Interval, res.HasInterval = num("interval")

	// device code: sampled unguessability
	if bits := encodedBits(res.DeviceCode); bits < 128 {
		return fail("device-code-short", "device code %q can carry at most %.0f bits (< 128)", res.DeviceCode, bits)
	}
	if !registerCode(res.DeviceCode) {
		return fail("device-code-repeat", "device code %q was handed out twice in this run", res.DeviceCode)
	}
	// user code: alphabet / amount / dash format
	if why := userCodeMatches(res.UserCode, e.cfg.UserCode); why != "" {
		return fail("user-code-format", "user code %q does not match alphabet %q amount %d dash interval %d: %s", res.UserCode, e.cfg.UserCode.CharSet, e.cfg.UserCode.CharAmount, e.cfg.UserCode.DashInterval, why)
	}
	// verification URIs
	iss, err := url.Parse(e.issuer)
	if err != nil {
		return fail("harness", "issuer %q does not parse", e.issuer)
	}
	wantPaths := []string{e.cfg.UserFormPath}
	if iss.Path != "" && iss.Path != "/" {
		// open point: the form path below an issuer that has a path of its own
		wantPaths = append(wantPaths, strings.TrimRight(iss.Path, "/")+e.cfg.UserFormPath)
	}
	formQuery := url.Values{} // the parameters the configured form address has of its own (none with a form path)
	if e.cfg.UserFormURL != "" {
		fu, err := url.Parse(e.cfg.UserFormURL)
		if err != nil {
			return fail("harness", "UserFormURL %q does not parse", e.cfg.UserFormURL)
		}
		wantPaths = []string{fu.Path}
		formQuery = fu.Query()
	}
	whose := func(code string) string {
		switch {
		case code == res.UserCode:
			return "this flow's own user code"
		case e.others[code] != "":
			return "the user code of " + e.others[code]
		}
		return "neither this flow's user code nor that of an earlier flow of the providers of this case (a flow of another provider alive in the process?)"
	}
	vu, err := url.Parse(res.URI)
	if err != nil {
		return fail("verification-uri", "verification_uri %q does not parse: %v", res.URI, err)
	}
	if vu.Scheme != iss.Scheme || vu.Host != iss.Host || vu.User != nil || vu.Fragment != "" {
		return fail("verification-uri", "verification_uri %q is not on the issuer %q", res.URI, e.issuer)
	}
	if !slices.Contains(wantPaths, vu.Path) {
		return fail("verification-uri", "verification_uri %q has path %q, configured form path is %q (issuer %q)", res.URI, vu.Path, e.cfg.UserFormPath, e.issuer)
	}
	if len(wantPaths) > 1 {
		greys = append(greys, "issuer-with-path:form-path-"+map[bool]string{true: "replaces", false: "appended"}[vu.Path == e.cfg.UserFormPath])
	}
	// "without the code": verification_uri is the configured form address and nothing besides - in particular it is
	// the same for every flow of the provider and carries no user code (of this or of any other flow)
	vq, err := url.ParseQuery(vu.RawQuery)
	if err != nil {
		return fail("verification-uri", "query of verification_uri %q does not decode: %v", res.URI, err)
	}
	if _, configured := formQuery["user_code"]; !configured {
		if got, has := vq["user_code"]; has {
			return fail("verification-uri-carries-code", "verification_uri %q (the URI without the code) carries user_code %q: %s", res.URI, got, whose(strings.Join(got, ",")))
		}
	}
	if !sameValues(vq, formQuery) {
		return fail("verification-uri", "verification_uri %q carries the query %q, the configured form address has %q", res.URI, vu.RawQuery, formQuery.Encode())
	}
	if res.URIComplete == "" {
		return fail("verification-uri-complete", "no verification_uri_complete although the statement promises the URI with and without the code")
	}
	cu, err := url.Parse(res.URIComplete)
	if err != nil {
		return fail("verification-uri-complete", "verification_uri_complete %q does not parse: %v", res.URIComplete, err)
	}
	if cu.Scheme != vu.Scheme || cu.Host != vu.Host || cu.Path != vu.Path || cu.User != nil || cu.Fragment != "" {
		return fail("verification-uri-complete", "verification_uri_complete %q is not verification_uri %q plus the code", res.URIComplete, res.URI)
	}
	q, err := url.ParseQuery(cu.RawQuery)
	if err != nil {
		return fail("verification-uri-complete", "query of verification_uri_complete %q does not decode: %v", res.URIComplete, err)
	}
	if got := q["user_code"]; len(got) != 1 || got[0] != res.UserCode {
		return fail("verification-uri-complete", "verification_uri_complete %q decodes to user_code %q, the response says %q", res.URIComplete, got, res.UserCode)
	}
	rest := url.Values{}
	for k, v := range q {
		if k != "user_code" {
			rest[k] = v
		}
	}
	switch {
	case len(rest) == 0 && len(formQuery) == 0:
	case len(rest) == 0:
		// open point: a form address with parameters of its own - are they kept beside the code?
		greys = append(greys, "form-url-with-query:dropped-from-complete")
	case sameValues(rest, formQuery):
		greys = append(greys, "form-url-with-query:kept-in-complete")
	default:
		return fail("verification-uri-complete", "verification_uri_complete %q carries parameters %q besides user_code, the configured form address has %q", res.URIComplete, rest.Encode(), formQuery.Encode())
	}
	// lifetime and poll interval
	life := e.cfg.Lifetime.Seconds()
	if math.Abs(res.ExpiresIn-life) >= 1 {
		return fail("expires-in", "expires_in %v, configured lifetime %v", res.ExpiresIn, e.cfg.Lifetime)
	}
	iv := e.cfg.PollInterval.Seconds()
	switch {
	case res.HasInterval:
		if math.Abs(res.Interval-iv) >= 1 {
			return fail("interval", "interval %v, configured poll interval %v", res.Interval, e.cfg.PollInterval)
		}
	case iv < 1:
		greys = append(greys, "interval-absent:configured-below-1s")
	case iv == 5:
		greys = append(greys, "interval-absent:configured-5s-is-the-rfc-default")
	default:
		return fail("interval", "no interval in the response, configured poll interval %v (a client would assume 5 s)", e.cfg.PollInterval)
	}
	// what was stored for this device code is what the response promises
	rec, found := w.Store.DeviceRecord(res.DeviceCode)
	if !found {
		return fail("device-code-not-stored", "device code %q of the response was never stored", res.DeviceCode)
	}
	if rec.UserCode != res.UserCode {
		return fail("user-code-binding", "stored user code %q differs from the response %q", rec.UserCode, res.UserCode)
	}
	if rec.ClientID != e.client {
		return fail("stored-client", "device code stored for client %q, requested by %q", rec.ClientID, e.client)
	}
	if scopeSet(rec.Scopes) != scopeSet(e.scopes) {
		return fail("stored-scopes", "device code stored with scopes %q, requested %q", rec.Scopes, e.scopes)
	}
	lo, hi := t0.Add(e.cfg.Lifetime-2*time.Second), t1.Add(e.cfg.Lifetime+2*time.Second)
	if rec.Expires.Before(lo) || rec.Expires.After(hi) {
		return fail("stored-expiry", "device code stored to expire at %s, configured lifetime %v from a request made in [%s, %s]", rec.Expires.Format(time.RFC3339Nano), e.cfg.Lifetime, t0.Format(time.RFC3339Nano), t1.Format(time.RFC3339Nano))
	}
	// the code a user agent reads from the complete URI leads to this very device code
	byUC, found := w.Store.DeviceByUserCode(q.Get("user_code"))
	if !found || byUC.DeviceCode != res.DeviceCode {
		return fail("user-code-binding", "user code %q from verification_uri_complete leads to device code %q, the response says %q", q.Get("user_code"), byUC.DeviceCode, res.DeviceCode)
	}
	return res, greys, nil
}

// ---------- judging issued tokens ----------

// judgeTokens: the issued tokens carry the approving user's subject, the requested scopes and the initiating client.
func judgeTokens(run *ev.Run, w *opdrv.World, toks *opdrv.Tokens, owner, user string, scopes []string) *finding {
	rec, ok := w.Store.TokenRecord(w.TokenID(toks.Access))
	if !ok {
		return &finding{"access-token-unknown", "returned access token does not resolve to a stored token"}
	}
	want := scopeSet(scopes)
	if rec.Subject != user || rec.ClientID != owner || scopeSet(rec.Scopes) != want {
		return &finding{"access-token-binding", fmt.Sprintf("access token sub=%q client=%q scopes=%q; approving user %q, initiating client %q, requested scopes %q", rec.Subject, rec.ClientID, rec.Scopes, user, owner, scopes)}
	}
	if scopeSet(fields(toks.Scope)) != want {
		return &finding{"response-scope", fmt.Sprintf("token response scope %q, requested %q", toks.Scope, scopes)}
	}
	if strings.Count(toks.Access, ".") == 2 {
		c, err := w.VerifyWithOPKey(toks.Access)
		if err != nil {
			return &finding{"access-token-unverifiable", "JWT access token does not verify under the provider key: " + err.Error()}
		}
		if c["sub"] != user || c["client_id"] != owner {
			return &finding{"access-token-binding", fmt.Sprintf("JWT access token sub=%v client_id=%v; approving user %q, initiating client %q", c["sub"], c["client_id"], user, owner)}
		}
		run.Count("tokens", "access_jwt")
	} else {
		if _, sub, ok := w.OpaqueTokenID(toks.Access); !ok || sub != user {
			return &finding{"access-token-binding", fmt.Sprintf("opaque access token names subject %q, approving user %q", sub, user)}
		}
		run.Count("tokens", "access_opaque")
	}
	if toks.ID != "" {
		c, err := w.VerifyWithOPKey(toks.ID)
		if err != nil {
			return &finding{"id-token-unverifiable", "id_token does not verify under the provider key: " + err.Error()}
		}
		if c["sub"] != user || !opdrv.AudContains(c["aud"], owner) || (c["azp"] != nil && c["azp"] != owner) {
			return &finding{"id-token-binding", fmt.Sprintf("id_token sub=%v aud=%v azp=%v; approving user %q, initiating client %q", c["sub"], c["aud"], c["azp"], user, owner)}
		}
		run.Count("tokens", "id_token")
	} else if slices.Contains(scopes, "openid") {
		run.Count("tokens", "grey_openid_without_id_token")
	}
	if toks.Refresh != "" {
		rr, ok := w.Store.RefreshRecord(toks.Refresh)
		if !ok {
			return &finding{"refresh-token-unknown", "returned refresh token does not resolve to a stored token"}
		}
		if rr.Subject != user || rr.ClientID != owner || scopeSet(rr.Scopes) != want {
			return &finding{"refresh-token-binding", fmt.Sprintf("refresh token sub=%q client=%q scopes=%q; approving user %q, initiating client %q, requested scopes %q", rr.Subject, rr.ClientID, rr.Scopes, user, owner, scopes)}
		}
		run.Count("tokens", "refresh_token")
	}
	return nil
}

// storageTimedOut reports whether, during the request, the storage answered the device-state look-up with a time-out.
func storageTimedOut(w *opdrv.World, resp *opdrv.Resp) (asked, timedOut bool) {
	for _, e := range w.Store.JournalSince(resp.SeqStart) {
		if e.Method == "GetDeviceAuthorizatonState" {
			asked = true
			if strings.Contains(e.Err, context.DeadlineExceeded.Error()) {
				timedOut = true
			}
		}
	}
	return
}

func duplicateUserCode(w *opdrv.World, resp *opdrv.Resp) bool {
	for _, e := range w.Store.JournalSince(resp.SeqStart) {
		if e.Method == "StoreDeviceAuthorization" && e.Err == op.ErrDuplicateUserCode.Error() {
			return true
		}
	}
	return false
}

func success(resp *opdrv.Resp) *opdrv.Tokens {
	t := opdrv.DecodeTokens(resp)
	if t != nil && (t.Access != "" || t.ID != "" || t.Refresh != "") {
		return t
	}
	// tokens under any status are tokens
	if m := resp.JSON(); m != nil {
		for _, k := range []string{"access_token", "id_token", "refresh_token"} {
			if s, _ := m[k].(string); s != "" {
				a, _ := m["access_token"].(string)
				i, _ := m["id_token"].(string)
				rf, _ := m["refresh_token"].(string)
				sc, _ := m["scope"].(string)
				return &opdrv.Tokens{Access: a, ID: i, Refresh: rf, Scope: sc, Raw: m}
			}
		}
	}
	return nil
}

var _ = vstore.Full
