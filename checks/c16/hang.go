package main

// Part 3 — the device-state look-up that hangs.
//
// "on storage time-out slow_down": the injected time-outs of part 1 make the storage answer a deadline error at
// once. A storage whose query really hangs returns only when the context it was handed ends, so whether the poll is
// answered at all depends on the library bounding that context (the poll interval is the promise made to the device).
// Here the storage's look-up blocks until its context is done (vstore.BlockDeviceLookup). Decided without any clock
// of the harness:
//   - the context the storage is handed must carry a deadline (state-based witness: without one a context-honouring
//     storage never returns and the poll is never answered);
//   - when that deadline ends the look-up the answer must be slow_down.
// One case per (router, client kind); each costs the library's own bound (4 s) and they run side by side.

import (
	"fmt"
	"math/rand/v2"
	"net/url"
	"sync"
	"time"

	"verif/internal/ev"
	"verif/internal/opdrv"
	"verif/internal/vstore"
)

const hangBase = 1 << 41

func runHang(run *ev.Run) {
	type cell struct {
		router int
		actor  string
	}
	var cells []cell
	for ri := 0; ri < 2; ri++ {
		for _, a := range []string{"dev", "devpub", "devjwt"} {
			cells = append(cells, cell{ri, a})
		}
	}
	var wg sync.WaitGroup
	for ci, c := range cells {
		wg.Add(1)
		go func() {
			defer wg.Done()
			runHangCell(run, ci, c.router, c.actor)
		}()
	}
	wg.Wait()
}

func runHangCell(run *ev.Run, ci, router int, actorID string) {
	rn := opdrv.RouterNames[router]
	caseIdx := int64(hangBase + ci)
	w, err := opdrv.NewWorld(opdrv.Options{Config: opdrv.DefaultConfig(), Caps: vstore.Full})
	if err != nil {
		run.HarnessBug("hang: world: " + err.Error())
		return
	}
	pop := population(w, rand.New(rand.NewPCG(uint64(ci), 16)))
	a := pop[actorID]
	auth, _ := credFor(w, a, "right")
	resp := w.Post(router, "/device_authorization", url.Values{"scope": {"openid profile"}}, auth)
	dc := resp.Str("device_code")
	if dc == "" {
		run.HarnessBug("hang: device authorization failed: " + resp.Brief())
		return
	}
	auth, _ = credFor(w, a, "right")
	w.Store.BlockDeviceLookup.Store(true)
	done := make(chan *opdrv.Resp, 1)
	go func() { done <- w.Token(router, url.Values{"grant_type": {gtDevice}, "device_code": {dc}}, auth) }()
	var poll *opdrv.Resp
	select {
	case poll = <-done:
	case <-time.After(60 * time.Second):
		// watchdog: the library's own bound is seconds; not answering within a minute is a harness-side stop, not a verdict
		run.Inconclusive("hang: poll not answered within the watchdog on " + rn)
		return
	}
	w.Store.BlockDeviceLookup.Store(false)
	run.Eval()
	wit := map[string]any{"part": "hanging look-up", "router": rn, "client": actorID, "answer": poll.Brief(),
		"lookups_handed_a_context_without_deadline": w.Store.DeviceLookupsWithoutDeadline.Load()}
	switch {
	case poll.Panic != nil && poll.Panic.InRepo:
		run.Violation("C16:panic:"+poll.Panic.Site(), caseIdx, "poll panicked: "+poll.Panic.Value, wit)
	case w.Store.DeviceLookupsWithoutDeadline.Load() > 0:
		run.Violation("C16:"+rn+":hanging-lookup-without-deadline", caseIdx,
			"the device-state look-up was handed a context without a deadline: a storage whose query hangs never returns and the poll is never answered (no slow_down)", wit)
	case poll.OAuthError() != "slow_down":
		run.Violation("C16:"+rn+":timeout-not-slow_down", caseIdx,
			fmt.Sprintf("the device-state look-up ended with its context's deadline, the answer is %q (status %d) instead of slow_down", poll.OAuthError(), poll.Status), wit)
	default:
		run.Observed("hang:slow_down:" + rn)
		run.Count("outcome", "slow_down_on_hanging_lookup")
		run.Distinct(fmt.Sprintf("hang|%s|%s", rn, a.kind))
	}
}
