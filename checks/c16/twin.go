package main

// Part 4 — several providers (or one provider under several hosts) alive in the same process.
//
// The statement speaks about *the* provider's issuer and *the* configured alphabet / format / lifetime / interval, and
// about "that very device code". Parts 1 and 2 give every provider a world of its own and drive it alone; here two or
// three providers that share parts of their configuration (the same form URL string, the same issuer with different
// form addresses, the same form path under different hosts, everything the same but the storage) are driven in turns,
// so that anything the library remembers from one device authorization (of this or of another provider) and applies to
// the next one shows at the boundary:
//   - every device authorization response follows the configuration and issuer of the provider (and host) that
//     answered it, whatever was answered before (judgeDeviceResponse, the same oracle as parts 1 and 2);
//   - a device code is known only where it was issued: polled at another provider (same client ids and secrets
//     registered there) it is an unknown code - refused, never "keep polling", never tokens, before and after the user
//     approved it at its own provider;
//   - at its own provider it answers authorization_pending before and tokens after the approval made through the user
//     code a user agent reads from verification_uri_complete (must: the other provider's refusals never reached the
//     storage of the own one, so nothing is tainted).

import (
	"fmt"
	"net/url"
	"time"

	"github.com/zitadel/oidc/v3/pkg/op"

	"verif/internal/ev"
	"verif/internal/opdrv"
	"verif/internal/vstore"
)

const twinBase = 1 << 42

var twinModes = []string{"same-form-url", "same-issuer-other-form-path", "same-issuer-url-and-path", "hosts-same-form-path", "same-everything", "one-provider-two-hosts"}

// user-code configurations with pairwise disjoint alphabets: a code drawn under another provider's configuration never fits
var twinUserCodes = []op.UserCodeConfig{
	op.UserCodeDigits,
	op.UserCodeBase20,
	{CharSet: "abcdefghijkmnpqrstuvwxyz", CharAmount: 9, DashInterval: 3},
	{CharSet: "αβγδεζηθικλμνξοπρστυφχψω", CharAmount: 6, DashInterval: 0},
	{CharSet: "бвгджзклмнпрстфхцчшщ", CharAmount: 10, DashInterval: 5},
}

type twinSide struct {
	name   string
	w      *opdrv.World
	dc     op.DeviceAuthorizationConfig
	issuer string
	via    string
	pop    map[string]actor
	own    int // index of the provider instance (sides of "one-provider-two-hosts" share one)
}

type twinFlow struct {
	side   int
	router int
	a      actor
	scopes string
	res    *daResult
	t0     time.Time
}

func runTwin(run *ev.Run, caseIdx int) {
	r := run.CaseRand(1604, caseIdx)
	mode := twinModes[caseIdx%len(twinModes)] // every mode is met whatever the seed
	nSides := 2 + r.IntN(2)
	if mode == "one-provider-two-hosts" {
		nSides = 2
	}
	ucStart, lifeStart, ivStart := r.IntN(len(twinUserCodes)), r.IntN(len(lifetimes)), r.IntN(len(intervals))
	tenant := r.IntN(1000)
	var sides []*twinSide
	var cfgLit []map[string]any
	for k := 0; k < nSides; k++ {
		dc := op.DeviceAuthorizationConfig{
			Lifetime:     lifetimes[(lifeStart+k)%len(lifetimes)],
			PollInterval: intervals[(ivStart+k)%len(intervals)],
			UserFormPath: "/device",
			UserCode:     twinUserCodes[(ucStart+k)%len(twinUserCodes)],
		}
		opt := opdrv.Options{Caps: vstore.Full, Issuer: opdrv.DefaultIssuer}
		via := "static"
		switch mode {
		case "same-form-url":
			dc.UserFormURL, dc.UserFormPath = opdrv.DefaultIssuer+"/activate", "/ignored"
		case "same-issuer-other-form-path":
			dc.UserFormPath = formPaths[(k+tenant)%len(formPaths)]
		case "same-issuer-url-and-path":
			if k%2 == 0 {
				dc.UserFormURL, dc.UserFormPath = opdrv.DefaultIssuer+"/activate", "/ignored"
			}
		case "hosts-same-form-path":
			via = "host"
			opt.Issuer = fmt.Sprintf("https://tenant-%d.verif.test", tenant+k)
			opt.IssuerFn = op.IssuerFromHost("")
		case "same-everything":
			dc.Lifetime, dc.PollInterval, dc.UserCode = lifetimes[lifeStart], intervals[ivStart], twinUserCodes[ucStart]
		case "one-provider-two-hosts":
			via = "host"
			opt.Issuer = fmt.Sprintf("https://tenant-%d.verif.test", tenant+k)
			opt.IssuerFn = op.IssuerFromHost("")
			dc = op.DeviceAuthorizationConfig{Lifetime: lifetimes[lifeStart], PollInterval: intervals[ivStart], UserFormPath: "/device", UserCode: twinUserCodes[ucStart]}
		}
		side := &twinSide{name: string(rune('A' + k)), dc: dc, issuer: opt.Issuer, via: via, own: k}
		if mode == "one-provider-two-hosts" && k > 0 {
			// the same provider and storage, reached under another host name: the issuer of *this request* is another one
			cp := *sides[0].w
			cp.Issuer = opt.Issuer
			if u, err := url.Parse(opt.Issuer); err == nil {
				cp.Host = u.Host
			}
			side.w, side.pop, side.own = &cp, sides[0].pop, 0
		} else {
			opt.Config = opdrv.DefaultConfig()
			opt.Config.DeviceAuthorization = dc
			w, err := opdrv.NewWorld(opt)
			if err != nil {
				run.HarnessBug(fmt.Sprintf("twin case %d: provider refused the configuration: %v", caseIdx, err))
				return
			}
			side.w, side.pop = w, population(w, r)
		}
		sides = append(sides, side)
		cfgLit = append(cfgLit, map[string]any{"provider": side.name, "instance": side.own, "issuer": side.issuer, "issuer_via": via, "alphabet": dc.UserCode.CharSet, "char_amount": dc.UserCode.CharAmount,
			"dash_interval": dc.UserCode.DashInterval, "lifetime": dc.Lifetime.String(), "poll_interval": dc.PollInterval.String(), "user_form_path": dc.UserFormPath, "user_form_url": dc.UserFormURL})
	}
	var log []opLog
	violated := func(router int, key, what string) {
		run.Violation("C16:"+opdrv.RouterNames[router]+":"+key, int64(twinBase+caseIdx), what, map[string]any{"part": "several providers in one process", "mode": mode, "providers": cfgLit, "history": log})
	}

	// ---- device authorizations in turns ----
	var flows []*twinFlow
	others := map[string]string{}
	nReq := 4 + r.IntN(5)
	for k := 0; k < nReq; k++ {
		si := k % nSides
		if k >= nSides && r.IntN(3) == 0 {
			si = r.IntN(nSides) // not only strict alternation: also twice in a row at one provider
		}
		side := sides[si]
		router := r.IntN(2)
		rn := opdrv.RouterNames[router]
		a := side.pop[pick(r, "dev", "dev2", "devpub", "devjwt")]
		auth, _ := credFor(side.w, a, "right")
		scopes := pick(r, scopeChoices...)
		form := url.Values{}
		if scopes != "" {
			form.Set("scope", scopes)
		}
		t0 := time.Now()
		resp := post(side.w, router, "/device_authorization", form, auth, "")
		t1 := time.Now()
		log = append(log, opLog{"device_authorization", fmt.Sprintf("provider %s (%s) router=%s client=%s(%s) scope=%q", side.name, side.issuer, rn, a.id, a.kind, scopes), lit("/device_authorization", form, auth, ""), resp.Brief()})
		run.Eval()
		if resp.Panic != nil {
			violated(router, "panic:"+resp.Panic.Site(), "device authorization handler panicked: "+resp.Panic.Value)
			return
		}
		if resp.Status != 200 {
			if duplicateUserCode(side.w, resp) {
				run.Count("grey", "duplicate-user-code-answered-"+fmt.Sprint(resp.Status))
				continue
			}
			violated(router, "device-authorization-refused", "a plainly registered device client with proper credentials was refused under a valid configuration: "+resp.Brief())
			return
		}
		res, greys, f := judgeDeviceResponse(side.w, resp, daExpect{issuer: side.issuer, cfg: side.dc, client: a.id, scopes: fields(scopes), issuerVia: side.via, others: others}, t0, t1)
		for _, g := range greys {
			run.Count("grey", g)
		}
		if f != nil {
			violated(router, "response:"+f.key, fmt.Sprintf("provider %s, after %d earlier device authorizations in this process group: %s", side.name, k, f.what))
			return
		}
		others[res.UserCode] = fmt.Sprintf("flow %d (provider %s, client %s)", k+1, side.name, a.id)
		flows = append(flows, &twinFlow{si, router, a, scopes, res, t0})
		nth := "first-here"
		for _, fl := range flows[:len(flows)-1] {
			if fl.side == si {
				nth = "later-here"
			}
		}
		run.Distinct(fmt.Sprintf("twin-da|%s|%s|side=%d/%d|%s|%s|after-others=%v", rn, mode, si, nSides, a.kind, nth, k > 0))
		run.Count("twin_device_authorization", mode+":"+nth)
		run.Observed("twin:" + mode)
		run.Observed("twin:response:" + rn)
	}

	// ---- polls: a device code is known only where it was issued ----
	for _, fl := range flows {
		if r.IntN(3) == 0 && len(flows) > 2 {
			continue
		}
		side := sides[fl.side]
		rn := opdrv.RouterNames[fl.router]
		if time.Since(fl.t0) > side.dc.Lifetime-10*time.Second {
			run.Inconclusive("twin case stalled near the device-code lifetime")
			continue
		}
		pform := url.Values{"grant_type": {gtDevice}, "device_code": {fl.res.DeviceCode}}
		var elsewhere []*twinSide
		for _, o := range sides {
			if o.own != side.own {
				elsewhere = append(elsewhere, o)
			}
		}
		atOther := func(when string) bool {
			if len(elsewhere) == 0 {
				return true
			}
			o := elsewhere[r.IntN(len(elsewhere))]
			orouter := r.IntN(2)
			orn := opdrv.RouterNames[orouter]
			oauth := credOf(o.w, o.pop[fl.a.id])
			resp := post(o.w, orouter, "/oauth/token", pform, oauth, "")
			log = append(log, opLog{"poll", fmt.Sprintf("%s: device code of provider %s presented at provider %s router=%s by client %s", when, side.name, o.name, orn, fl.a.id), lit("/oauth/token", pform, oauth, ""), resp.Brief()})
			run.Eval()
			if resp.Panic != nil {
				violated(orouter, "panic:"+resp.Panic.Site(), "token handler panicked: "+resp.Panic.Value)
				return false
			}
			if success(resp) != nil {
				violated(orouter, "tokens-despite:unknown-code", fmt.Sprintf("provider %s issued tokens for a device code that provider %s handed out (%s)", o.name, side.name, when))
				return false
			}
			if resp.Status < 400 || resp.OAuthError() == "" {
				violated(orouter, "refusal-not-an-error", fmt.Sprintf("device code of another provider answered with status %d and error %q", resp.Status, resp.OAuthError()))
				return false
			}
			if e := resp.OAuthError(); e == "authorization_pending" || e == "slow_down" {
				violated(orouter, "not-refused:unknown-code", fmt.Sprintf("provider %s answered %q (keep polling) for a device code it never issued (%s)", o.name, e, when))
				return false
			}
			run.Observed("twin:other-provider-refused:" + orn)
			run.Count("outcome", "twin_refused_at_other_provider:"+resp.OAuthError())
			run.Distinct(fmt.Sprintf("twin-poll-elsewhere|%s|%s|%s|%s", orn, mode, fl.a.kind, when))
			return true
		}
		if !atOther("before approval") {
			return
		}
		auth := credOf(side.w, fl.a)
		before := post(side.w, fl.router, "/oauth/token", pform, auth, "")
		log = append(log, opLog{"poll", fmt.Sprintf("provider %s router=%s before approval", side.name, rn), lit("/oauth/token", pform, auth, ""), before.Brief()})
		run.Eval()
		if before.Panic != nil {
			violated(fl.router, "panic:"+before.Panic.Site(), "token handler panicked: "+before.Panic.Value)
			return
		}
		if success(before) != nil {
			violated(fl.router, "tokens-despite:state-pending", "tokens before the user approved")
			return
		}
		if before.OAuthError() != "authorization_pending" {
			violated(fl.router, "wrong-error:pending", fmt.Sprintf("pending device code polled by its client at its provider: %q instead of authorization_pending", before.OAuthError()))
			return
		}
		cu, _ := url.Parse(fl.res.URIComplete)
		typed := cu.Query().Get("user_code")
		rec, found := side.w.Store.DeviceByUserCode(typed)
		if !found {
			run.HarnessBug("twin: user code of a judged response not in its store")
			return
		}
		user := pick(r, "user-1", "user-2")
		side.w.Store.ApproveDevice(rec.DeviceCode, user)
		log = append(log, opLog{Op: "approve", Detail: fmt.Sprintf("provider %s: user code %q typed by %s", side.name, typed, user)})
		if !atOther("after approval at its own provider") {
			return
		}
		auth = credOf(side.w, fl.a)
		after := post(side.w, fl.router, "/oauth/token", pform, auth, "")
		log = append(log, opLog{"poll", fmt.Sprintf("provider %s router=%s after approval", side.name, rn), lit("/oauth/token", pform, auth, ""), after.Brief()})
		run.Eval()
		if after.Panic != nil {
			violated(fl.router, "panic:"+after.Panic.Site(), "token handler panicked: "+after.Panic.Value)
			return
		}
		toks := success(after)
		if toks == nil {
			violated(fl.router, "must-succeed", "approved through the user code of the response, polled by the initiating client at the issuing provider, refused: "+after.Brief())
			return
		}
		if f := judgeTokens(run, side.w, toks, fl.a.id, user, fields(fl.scopes)); f != nil {
			violated(fl.router, "tokens:"+f.key, f.what)
			return
		}
		run.Observed("twin:success:" + rn)
		run.Count("outcome", "twin_flow_success")
		run.Distinct(fmt.Sprintf("twin-flow|%s|%s|%s", rn, mode, fl.a.kind))
	}
	if caseIdx < len(twinModes) {
		run.SampleKind("several_providers:"+mode, map[string]any{"providers": cfgLit, "history": sampleOf("both", log)["history"]})
	}
}
