package main

import (
	"context"
	"encoding/json"
	"errors"
	"sync/atomic"
	"time"

	jose "github.com/go-jose/go-jose/v4"

	"github.com/zitadel/oidc/v3/pkg/oidc"
	"github.com/zitadel/oidc/v3/pkg/op"

	"verif/internal/keys"
	"verif/internal/mon"
	"verif/internal/opdrv"
	"verif/internal/vclient"
	"verif/internal/vstore"
)

const (
	partnerIssuer  = "https://partner-idp.verif.test"
	partnerSubject = "partner-user-7"
)

func partnerKey() *keys.Key { return keys.Get("c15-partner-idp", jose.ES256) }

// tevStore is vstore with every capability plus op.TokenExchangeTokensVerifierStorage: a careful verifier that
// trusts exactly one foreign issuer (the "partner IdP") for tokens declared as urn:...:jwt and nothing else.
// The framework also consults it as a fallback when its own verification of an access / refresh / ID token
// failed; this verifier then answers with an error.
type tevStore struct {
	op.Storage
	op.TokenExchangeStorage
	op.ClientCredentialsStorage
	op.DeviceAuthorizationStorage
	calls *atomic.Int64
}

func (t tevStore) verify(token string, tt oidc.TokenType) (string, string, map[string]any, error) {
	t.calls.Add(1)
	if tt != oidc.JWTTokenType {
		return "", "", nil, errors.New("tev: only urn:ietf:params:oauth:token-type:jwt is verified here")
	}
	jws, err := jose.ParseSigned(token, []jose.SignatureAlgorithm{jose.ES256})
	if err != nil {
		return "", "", nil, err
	}
	payload, err := jws.Verify(partnerKey().Public())
	if err != nil {
		return "", "", nil, err
	}
	var c map[string]any
	if err := json.Unmarshal(payload, &c); err != nil || c == nil {
		return "", "", nil, errors.New("tev: payload is not a claims object")
	}
	if c["iss"] != partnerIssuer {
		return "", "", nil, errors.New("tev: issuer not trusted")
	}
	exp, _ := c["exp"].(float64)
	if time.Now().Unix() >= int64(exp) {
		return "", "", nil, errors.New("tev: expired")
	}
	sub, _ := c["sub"].(string)
	if sub == "" {
		return "", "", nil, errors.New("tev: no subject")
	}
	return token, sub, c, nil
}

func (t tevStore) VerifyExchangeSubjectToken(ctx context.Context, token string, tt oidc.TokenType) (string, string, map[string]any, error) {
	return t.verify(token, tt)
}

func (t tevStore) VerifyExchangeActorToken(ctx context.Context, token string, tt oidc.TokenType) (string, string, map[string]any, error) {
	return t.verify(token, tt)
}

// tevStoreX is tevStore over a storage that also has the optional "Extras" capabilities
// (CanGetPrivateClaimsFromRequest, CanSetUserinfoFromRequest, CanTerminateSessionFromRequest, JWTProfileTokenStorage).
type tevStoreX struct {
	tevStore
	op.CanGetPrivateClaimsFromRequest
	op.CanSetUserinfoFromRequest
	op.CanTerminateSessionFromRequest
	op.JWTProfileTokenStorage
}

var (
	_ op.TokenExchangeTokensVerifierStorage = tevStoreX{}
	_ op.TokenExchangeStorage               = tevStoreX{}
	_ op.CanGetPrivateClaimsFromRequest     = tevStoreX{}
)

var (
	_ op.TokenExchangeTokensVerifierStorage = tevStore{}
	_ op.TokenExchangeStorage               = tevStore{}
)

type world struct {
	*opdrv.World
	cl       map[string]*vclient.Client
	verifier bool
	tevCalls atomic.Int64
	sig      *keys.Key
	// view is set when this world is one issuer of a provider with a request-dependent issuer (multi.go): requests go to
	// the view's host, the expected issuer of everything issued is the view's issuer
	view *mtView
}

// newWorld is opdrv.NewWorld with the option of wrapping the storage in tevStore.
func newWorld(sig *keys.Key, verifier, extras bool) (*world, *mon.PanicInfo) {
	return newWorldIssuer(sig, verifier, extras, nil)
}

// newWorldIssuer is newWorld with the provider's issuer strategy given (nil = the static default issuer).
func newWorldIssuer(sig *keys.Key, verifier, extras bool, issuerFn func(bool) (op.IssuerFromRequest, error)) (*world, *mon.PanicInfo) {
	if issuerFn == nil {
		issuerFn = op.StaticIssuer(opdrv.DefaultIssuer)
	}
	st := vstore.New(sig)
	st.TEActorClaim = true
	st.TEJWTTypeOK = verifier
	w := &world{verifier: verifier, sig: sig}
	base := st.As(vstore.Caps{CC: true, TE: true, Dev: true, Extras: extras})
	storage := base
	if verifier {
		tev := tevStore{
			Storage:                    base,
			TokenExchangeStorage:       base.(op.TokenExchangeStorage),
			ClientCredentialsStorage:   base.(op.ClientCredentialsStorage),
			DeviceAuthorizationStorage: base.(op.DeviceAuthorizationStorage),
			calls:                      &w.tevCalls,
		}
		storage = tev
		if extras {
			storage = tevStoreX{tev, base.(op.CanGetPrivateClaimsFromRequest), base.(op.CanSetUserinfoFromRequest),
				base.(op.CanTerminateSessionFromRequest), base.(op.JWTProfileTokenStorage)}
		}
	}
	ow := &opdrv.World{Store: st, Storage: storage, Issuer: opdrv.DefaultIssuer, Host: "op.verif.test"}
	var cerr error
	pi := mon.Catch(func() {
		cfg := opdrv.DefaultConfig()
		p, err := op.NewProvider(&cfg, storage, issuerFn, op.WithLogger(opdrv.Discard))
		if err != nil {
			cerr = err
			return
		}
		ow.Provider = p
		ow.Handlers[opdrv.RouterProvider] = p
		ow.Handlers[opdrv.RouterLegacy] = op.RegisterLegacyServer(op.NewLegacyServer(p, opdrv.DefaultEndpointsCopy()), op.AuthorizeCallbackHandler(p), op.WithFallbackLogger(opdrv.Discard))
	})
	if pi != nil {
		return nil, pi
	}
	if cerr != nil {
		panic("c15: NewProvider: " + cerr.Error())
	}
	w.World = ow
	w.cl = opdrv.StdClients(st)
	// owners of subject tokens: web issues opaque access tokens, web2 JWT access tokens
	w.cl["web2"].TokenType = op.AccessTokenTypeJWT
	// exchanging clients beyond web / web2 / svc / jwt
	w.cl["post"].Grants = append(w.cl["post"].Grants, oidc.GrantTypeTokenExchange)
	w.cl["native"].Grants = append(w.cl["native"].Grants, oidc.GrantTypeTokenExchange)
	w.cl["jwt"].TokenType = op.AccessTokenTypeJWT
	return w, nil
}
