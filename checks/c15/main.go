// C15 — token exchange needs live subject/actor tokens and returns what it declares.
//
// Every case builds a fresh world (real op.Provider over vstore, both routers), mints the subject / actor tokens it
// needs through the real code flow, kills / forges them as the case demands, sends ONE token-exchange request (plus
// 0-2 follow-up requests that reuse or kill tokens: a short history) and judges every response with an oracle
// written from the property statement:
//
//   - 200 only if: the client is authenticated, the subject token (and the actor token, if given) is a live token
//     of the declared supported type, the requested type is one the provider can issue, the storage did not veto;
//   - every 200 must contain what issued_token_type names: an access token that userinfo / introspection of the same
//     provider accept and whose stored record has the subject, scopes and actor the storage policy decided; a refresh
//     token the refresh grant accepts; an ID token that rp.VerifyIDToken accepts with those claims;
//   - everything else must be an OAuth error document (status >= 400, "error" member, no token), never a panic.
package main

import (
	"context"
	"encoding/base64"
	"fmt"
	"math/rand/v2"
	"net/url"
	"slices"
	"strings"

	"github.com/zitadel/oidc/v3/pkg/client/rp"
	"github.com/zitadel/oidc/v3/pkg/oidc"
	"github.com/zitadel/oidc/v3/pkg/op"

	jose "github.com/go-jose/go-jose/v4"

	"verif/internal/ev"
	"verif/internal/keys"
	"verif/internal/opdrv"
	"verif/internal/vclient"
	"verif/internal/vstore"
)

const stream = 15

var (
	declaredDim  = []string{"access", "refresh", "id", "jwt", "junk"}
	actorDim     = append([]string{"none"}, tokenKinds...)
	requestedDim = []string{"absent", "access", "refresh", "id", "jwt", "junk"}
	matrixSize   = len(tokenKinds) * len(declaredDim) * len(actorDim) * len(requestedDim) // 8*5*9*6 = 2160
	sigAlgs      = []jose.SignatureAlgorithm{jose.RS256, jose.ES256, jose.PS256}
	policyNames  = map[vstore.TEPolicy]string{vstore.TEAllow: "allow", vstore.TEVeto: "veto", vstore.TEImpersonate: "impersonate"}
)

func typeURN(r *rand.Rand, d string) string {
	switch d {
	case "access":
		return tAccess
	case "refresh":
		return tRefresh
	case "id":
		return tID
	case "jwt":
		return tJWT
	case "absent":
		return ""
	}
	return pick(r, "urn:ietf:params:oauth:token-type:saml2", "access_token", "urn:ietf:params:oauth:token-type:ACCESS_TOKEN", "Bearer", tAccess+" ")
}

func shortType(u string) string {
	switch u {
	case tAccess:
		return "access_token"
	case tRefresh:
		return "refresh_token"
	case tID:
		return "id_token"
	case tJWT:
		return "jwt"
	case "":
		return "absent"
	}
	return "junk"
}

// spec is everything that defines one case apart from the token strings (a pure function of seed and index).
type spec struct {
	Stratum          string
	SubjKind         string
	SubjVariant      string // "" = drawn by makeToken
	SubjDeclared     string // dimension name
	ActorKind        string
	ActorVariant     string
	ActorDeclared    string // dimension name or "natural"
	Requested        string
	Policy           vstore.TEPolicy
	Client           string
	Cred             string
	Verifier         bool
	VetoAtClaims     bool // the storage's claim hooks for the exchanged token refuse (access_denied) after both request hooks passed; judged only when a hook actually ran
	VetoAtCreate     bool // the storage's second hook CreateTokenExchangeRequest refuses (invalid_target) after ValidateTokenExchangeRequest passed
	GrantNil         bool // the storage grants no scope at all: SetCurrentScopes(nil)
	Extras           bool // the storage also implements CanGetPrivateClaimsFromRequest / CanSetUserinfoFromRequest / ... besides TokenExchangeStorage
	UISubjectByScope bool // the storage fills UserInfo.Subject of an exchanged ID token only when openid is among the decided scopes
	NoRefreshVet     bool // the storage trusts the framework's refresh-token look-up instead of re-checking it
	NoDefaultType    bool // the storage's ValidateTokenExchangeRequest sets no default for an absent requested_token_type (the choice is the provider's)
	FaultSweep       bool // after the clean request the same request is repeated once per storage call k of its trace, the k-th call failing (storvar.go)
	SigAlg           jose.SignatureAlgorithm
	Scope            string // "\x00" = absent
	Audience         []string
	Resource         []string
	Follow           string
}

var scopeDim = []string{"\x00", "openid", "openid profile", "openid email api", "api", "unknownscope", "openid unknownscope offline_access", "openid openid profile", "", "profile email phone address"}
var audienceDim = [][]string{nil, nil, {"web2"}, {"https://api.example", "svc"}, {"web", "web"}, {"https://api.example/a b?c=d&e"}}
var resourceDim = [][]string{nil, nil, {"https://rs.example/one"}, {"https://rs.example/one", "https://rs.example/two"}}
var clientDim = []string{"web", "web", "web2", "web2", "svc", "post", "jwt", "native", "dev"}
var credDim = []string{"right", "right", "right", "right", "right", "right", "right", "right", "wrong-secret", "none", "idonly", "unknown-client", "other-secret", "empty-secret", "post-right", "basic-right", "malformed-basic", "assertion-expired"}

func naturalDeclared(kind, variant string) string {
	switch kind {
	case "opaque", "jwt":
		return "access"
	case "refresh":
		return "refresh"
	case "id":
		return "id"
	case "foreign":
		if strings.HasPrefix(variant, "partner") {
			return "jwt"
		}
	}
	switch {
	case strings.HasPrefix(variant, "refresh"):
		return "refresh"
	case strings.HasPrefix(variant, "id-"), variant == "foreign-issuer-id-token":
		return "id"
	}
	return "access"
}

// scenarioBase is the case index of the first scripted scenario (far above any generated case).
const scenarioBase = 1_000_000

// scenarios are a few scripted, seed-independent cases run before the generated ones: the plainest conforming
// exchanges and the sharpest form of every defect class reading suggested, so that their witnesses are the ones kept.
var scenarios = []spec{
	{Stratum: "scenario:opaque-access-subject", SubjKind: "opaque", SubjDeclared: "access", ActorKind: "none", Requested: "absent", Policy: vstore.TEAllow, Client: "web", Cred: "right", Scope: "openid profile api"},
	{Stratum: "scenario:requested-type-jwt", SubjKind: "jwt", SubjDeclared: "access", ActorKind: "none", Requested: "jwt", Policy: vstore.TEAllow, Client: "web", Cred: "right", Scope: "openid"},
	{Stratum: "scenario:revoked-jwt-access-token-declared-id_token", SubjKind: "revoked", SubjVariant: "jwt-revoked", SubjDeclared: "id", ActorKind: "none", Requested: "access", Policy: vstore.TEAllow, Client: "web", Cred: "right", Scope: "openid"},
	{Stratum: "scenario:delegation-opaque-actor", SubjKind: "id", SubjDeclared: "id", ActorKind: "opaque", ActorDeclared: "natural", Requested: "id", Policy: vstore.TEImpersonate, Client: "web2", Cred: "right", Scope: "openid email"},
	{Stratum: "scenario:refresh-for-refresh", SubjKind: "refresh", SubjDeclared: "refresh", ActorKind: "jwt", ActorDeclared: "natural", Requested: "refresh", Policy: vstore.TEAllow, Client: "web", Cred: "right", Scope: "openid offline_access", Follow: "returned-as-subject"},
	{Stratum: "scenario:partner-jwt-subject", SubjKind: "foreign", SubjVariant: "partner-jwt", SubjDeclared: "jwt", ActorKind: "none", Requested: "access", Policy: vstore.TEAllow, Client: "svc", Cred: "right", Scope: "api", Verifier: true},
	{Stratum: "scenario:null-payload-subject", SubjKind: "garbage", SubjVariant: "null-payload-signed", SubjDeclared: "access", ActorKind: "none", Requested: "access", Policy: vstore.TEAllow, Client: "web", Cred: "right", Scope: "openid"},
	{Stratum: "scenario:storage-veto", SubjKind: "jwt", SubjDeclared: "access", ActorKind: "none", Requested: "access", Policy: vstore.TEVeto, Client: "web", Cred: "right", Scope: "openid"},
	{Stratum: "scenario:wrong-secret", SubjKind: "jwt", SubjDeclared: "access", ActorKind: "none", Requested: "access", Policy: vstore.TEAllow, Client: "web", Cred: "wrong-secret", Scope: "openid"},
	{Stratum: "scenario:impersonated-id_token-without-openid", SubjKind: "jwt", SubjDeclared: "access", ActorKind: "none", Requested: "id", Policy: vstore.TEImpersonate, Client: "web", Cred: "right", Scope: "profile email", UISubjectByScope: true},
	{Stratum: "scenario:impersonated-jwt-access-token-without-openid", SubjKind: "refresh", SubjDeclared: "refresh", ActorKind: "opaque", ActorDeclared: "natural", Requested: "access", Policy: vstore.TEImpersonate, Client: "web2", Cred: "right", Scope: "api", UISubjectByScope: true},
	{Stratum: "scenario:veto-at-create", SubjKind: "jwt", SubjDeclared: "access", ActorKind: "none", Requested: "access", Policy: vstore.TEAllow, Client: "web", Cred: "right", Scope: "openid", VetoAtCreate: true},
	{Stratum: "scenario:veto-at-create-id_token", SubjKind: "refresh", SubjDeclared: "refresh", ActorKind: "none", Requested: "id", Policy: vstore.TEAllow, Client: "web2", Cred: "right", Scope: "openid", VetoAtCreate: true},
	{Stratum: "scenario:veto-at-claims-jwt-access", SubjKind: "jwt", SubjDeclared: "access", ActorKind: "none", Requested: "access", Policy: vstore.TEAllow, Client: "web2", Cred: "right", Scope: "openid", VetoAtClaims: true},
	{Stratum: "scenario:veto-at-claims-jwt-access-extras", SubjKind: "refresh", SubjDeclared: "refresh", ActorKind: "opaque", ActorDeclared: "natural", Requested: "absent", Policy: vstore.TEImpersonate, Client: "web2", Cred: "right", Scope: "openid api", VetoAtClaims: true, Extras: true},
	{Stratum: "scenario:veto-at-claims-id_token", SubjKind: "jwt", SubjDeclared: "access", ActorKind: "none", Requested: "id", Policy: vstore.TEAllow, Client: "web", Cred: "right", Scope: "openid email", VetoAtClaims: true},
	{Stratum: "scenario:grant-nil-access", SubjKind: "jwt", SubjDeclared: "access", ActorKind: "none", Requested: "access", Policy: vstore.TEAllow, Client: "web2", Cred: "right", Scope: "openid profile email", GrantNil: true, UISubjectByScope: true},
	{Stratum: "scenario:grant-nil-id_token", SubjKind: "id", SubjDeclared: "id", ActorKind: "none", Requested: "id", Policy: vstore.TEImpersonate, Client: "web", Cred: "right", Scope: "openid profile email", GrantNil: true, UISubjectByScope: true},
	{Stratum: "scenario:extras-jwt-actor", SubjKind: "jwt", SubjDeclared: "access", ActorKind: "opaque", ActorDeclared: "natural", Requested: "access", Policy: vstore.TEAllow, Client: "web2", Cred: "right", Scope: "openid api", Extras: true},
	{Stratum: "scenario:kill-subject-then-repeat", SubjKind: "jwt", SubjDeclared: "access", ActorKind: "none", Requested: "access", Policy: vstore.TEAllow, Client: "web2", Cred: "right", Scope: "openid", Follow: "kill-subject-repeat"},
}

func drawSpec(r *rand.Rand, i int, matrixCases int) spec {
	if i >= storBase {
		return drawStorSpec(r, i-storBase)
	}
	if i >= scenarioBase {
		s := scenarios[i-scenarioBase]
		s.SigAlg = jose.RS256
		return s
	}
	var s spec
	s.SigAlg = pick(r, sigAlgs...)
	s.Verifier = r.IntN(3) == 0
	s.NoRefreshVet = r.IntN(2) == 0
	s.UISubjectByScope = r.IntN(2) == 0
	s.Extras = r.IntN(2) == 0
	s.VetoAtCreate = r.IntN(12) == 0
	s.GrantNil = r.IntN(8) == 0
	s.Scope = pick(r, scopeDim...)
	s.Audience = pick(r, audienceDim...)
	s.Resource = pick(r, resourceDim...)
	if i < matrixCases {
		// stratum 1: the full kind matrix, cell = i mod 2160
		s.Stratum = "matrix"
		c := i % matrixSize
		s.Requested = requestedDim[c%len(requestedDim)]
		c /= len(requestedDim)
		s.ActorKind = actorDim[c%len(actorDim)]
		c /= len(actorDim)
		s.SubjDeclared = declaredDim[c%len(declaredDim)]
		c /= len(declaredDim)
		s.SubjKind = tokenKinds[c]
		if r.IntN(4) == 0 {
			s.ActorDeclared = pick(r, "access", "refresh", "id", "jwt", "junk", "absent")
		} else {
			s.ActorDeclared = "natural"
		}
		s.Policy = pick(r, vstore.TEAllow, vstore.TEAllow, vstore.TEAllow, vstore.TEImpersonate, vstore.TEImpersonate, vstore.TEVeto)
		s.Client = pick(r, clientDim...)
		s.Cred = pick(r, credDim...)
		if r.IntN(3) == 0 {
			s.Follow = pick(r, "repeat", "kill-subject-repeat", "returned-as-subject", "returned-as-actor", "kill-returned-use")
		}
		return s
	}
	// stratum 2: conforming requests, half of them with exactly one dimension made non-conforming
	s.Stratum = "near-valid"
	s.SubjKind = pick(r, "opaque", "jwt", "refresh", "id")
	if s.Verifier && r.IntN(4) == 0 {
		s.SubjKind, s.SubjVariant = "foreign", "partner-jwt"
	}
	s.SubjDeclared = naturalDeclared(s.SubjKind, s.SubjVariant)
	s.ActorKind = pick(r, "none", "none", "opaque", "jwt", "refresh", "id")
	if s.Verifier && r.IntN(6) == 0 {
		s.ActorKind, s.ActorVariant = "foreign", "partner-jwt"
	}
	s.ActorDeclared = "natural"
	s.Requested = pick(r, "absent", "access", "refresh", "id")
	s.Policy = pick(r, vstore.TEAllow, vstore.TEImpersonate)
	s.Client = pick(r, "web", "web", "web2", "web2", "svc", "post", "jwt")
	s.Cred = pick(r, "right", "right", "right", "post-right", "basic-right")
	switch r.IntN(8) {
	case 0:
		// the storage's second hook vetoes: an OAuth error for every requested type, nothing issued
		s.Stratum = "near-valid/veto-at-create"
		s.VetoAtCreate = true
		return s
	case 3:
		// the storage refuses at the claim hooks of the token to be issued (JWT access token / ID token): an OAuth error, never a token
		s.Stratum = "near-valid/veto-at-claims"
		s.VetoAtClaims, s.VetoAtCreate = true, false
		s.Extras = r.IntN(2) == 0
		s.Client, s.Cred = pick(r, "web2", "web2", "web", "svc"), pick(r, "right", "right", "basic-right")
		s.Requested = pick(r, "absent", "access", "id", "id", "refresh")
		return s
	case 1:
		// the storage grants no scope although several known ones were requested
		s.Stratum = "near-valid/grant-nil"
		s.GrantNil, s.VetoAtCreate = true, false
		s.Scope = pick(r, "openid profile email", "profile email api", "openid email phone address", "openid profile email phone address api offline_access")
		s.UISubjectByScope = r.IntN(4) != 0
		s.Client = pick(r, "web2", "web2", "web", "svc")
		s.Cred = pick(r, "right", "right", "basic-right")
		return s
	case 2:
		// exchanged JWT access tokens of a storage with BOTH TokenExchangeStorage and CanGetPrivateClaimsFromRequest must keep act
		s.Stratum = "near-valid/extras-jwt-actor"
		s.Extras, s.VetoAtCreate = true, false
		s.Client, s.Cred = "web2", pick(r, "right", "right", "basic-right")
		s.ActorKind, s.ActorVariant = pick(r, "opaque", "jwt", "refresh", "id"), ""
		s.Requested = pick(r, "absent", "access", "refresh")
		return s
	}
	if r.IntN(4) == 0 {
		// impersonation with a decided scope list that lacks openid: the issued token must still carry the subject
		// the storage decided (an ID token then gets no subject from the storage's userinfo)
		s.Stratum = "near-valid/impersonate-without-openid"
		s.Policy = vstore.TEImpersonate
		s.Scope = pick(r, "profile", "email api", "api", "profile email", "email", "phone address api")
		s.Requested = pick(r, "id", "id", "id", "access", "refresh")
		s.UISubjectByScope = r.IntN(4) != 0
		s.Client = pick(r, "web2", "web2", "web", "svc", "jwt", "post")
		s.Cred = pick(r, "right", "right", "basic-right")
		if r.IntN(2) == 0 {
			s.Follow = pick(r, "repeat", "returned-as-subject", "returned-as-actor")
		}
		return s
	}
	if r.IntN(2) == 0 {
		switch r.IntN(7) {
		case 0:
			s.SubjKind, s.SubjVariant = pick(r, "foreign", "expired", "revoked", "garbage"), ""
			if s.SubjKind == "foreign" {
				s.SubjVariant = pick(r, liveVariants["foreign"][2:]...)
			}
			if r.IntN(2) == 0 {
				// declare the type the dead token would naturally have
				s.SubjVariant = pick(r, liveVariants[s.SubjKind]...)
				if s.SubjVariant == "partner-jwt" {
					s.SubjVariant = "partner-jwt-expired"
				}
				s.SubjDeclared = naturalDeclared(s.SubjKind, s.SubjVariant)
			}
		case 1:
			s.SubjDeclared = pick(r, declaredDim...)
		case 2:
			s.ActorKind, s.ActorVariant = pick(r, "foreign", "expired", "revoked", "garbage"), ""
			if s.ActorKind == "foreign" {
				s.ActorVariant = pick(r, liveVariants["foreign"][2:]...)
			}
		case 3:
			if s.ActorKind == "none" {
				s.ActorKind = pick(r, "opaque", "jwt", "refresh", "id")
			}
			s.ActorDeclared = pick(r, "access", "refresh", "id", "jwt", "junk", "absent")
		case 4:
			s.Requested = pick(r, "jwt", "junk")
		case 5:
			s.Policy = vstore.TEVeto
		case 6:
			s.Cred = pick(r, credDim[8:]...)
			s.Client = pick(r, clientDim...)
		}
	}
	if r.IntN(2) == 0 {
		s.Follow = pick(r, "repeat", "kill-subject-repeat", "returned-as-subject", "returned-as-actor", "kill-returned-use")
	}
	return s
}

// ---------- one exchange request ----------

type exch struct {
	Step          string
	Client        *vclient.Client
	Cred          string
	Subj          *tok
	SubjDeclared  string // URN as sent ("" = parameter absent)
	Actor         *tok   // nil = no actor_token
	ActorDeclared string
	Requested     string // URN as sent
	ReqDim        string
	Scope         string
	Audience      []string
	Resource      []string
	GrantNil      bool     // the storage grants no scope for this request
	Multi         bool     // a step of a multi-issuer history (multi.go)
	NoDefault     bool     // the storage sets no default requested type: with the parameter absent the issued type is the provider's choice
	Fault         *faultAt // the storage call of this request that fails (storvar.go); nil = none
}

type stepLog struct {
	Step   string `json:"step"`
	Router string `json:"router"`
	// multi-issuer worlds: where the request was sent and which issuer that request stands for
	Host      string     `json:"request_host,omitempty"`
	Forwarded string     `json:"forwarded_header,omitempty"`
	Issuer    string     `json:"request_issuer,omitempty"`
	Tokens    string     `json:"tokens,omitempty"`
	Auth      string     `json:"client_auth"`
	Form      url.Values `json:"form"`
	Policy    string     `json:"storage_policy"`
	Fault     string     `json:"storage_fault,omitempty"`
	Status    int        `json:"status"`
	Body      string     `json:"body"`
	Verdict   string     `json:"verdict"`
	Expected  any        `json:"expected,omitempty"`
}

func (e *exch) form() url.Values {
	f := url.Values{"grant_type": {string(oidc.GrantTypeTokenExchange)}}
	f.Set("subject_token", e.Subj.Str)
	if e.SubjDeclared != "" {
		f.Set("subject_token_type", e.SubjDeclared)
	}
	if e.Actor != nil {
		f.Set("actor_token", e.Actor.Str)
		if e.ActorDeclared != "" {
			f.Set("actor_token_type", e.ActorDeclared)
		}
	} else if e.ActorDeclared != "" {
		f.Set("actor_token_type", e.ActorDeclared) // a type without a token
	}
	if e.Requested != "" {
		f.Set("requested_token_type", e.Requested)
	}
	if e.Scope != "\x00" {
		f.Set("scope", e.Scope)
	}
	for _, a := range e.Audience {
		f.Add("audience", a)
	}
	for _, a := range e.Resource {
		f.Add("resource", a)
	}
	return f
}

// credential builds the client credentials of kind for client and says whether they authenticate the client:
// "yes", "no", or "public" (a public client identified by its id: the statement's "authenticated" is left open).
func credential(w *world, c *vclient.Client, kind string) (opdrv.ClientAuth, string, string) {
	public := c.Auth == oidc.AuthMethodNone
	res := func(a opdrv.ClientAuth, auth string) (opdrv.ClientAuth, string, string) {
		if public && kind != "none" && kind != "unknown-client" && kind != "malformed-basic" {
			auth = "public"
		}
		desc := a.Kind
		switch a.Kind {
		case "basic", "post":
			desc += " " + a.ID + ":" + a.Secret
		case "idonly":
			desc += " " + a.ID
		case "rawbasic":
			desc += " " + a.RawHeader
		case "assertion":
			desc += " " + short(a.Assertion)
		}
		return a, auth, desc
	}
	switch kind {
	case "right":
		return res(w.AuthFor(c), "yes")
	case "wrong-secret":
		switch c.Auth {
		case oidc.AuthMethodPost:
			return res(opdrv.PostAuth(c.ID, "not-the-secret"), "no")
		case oidc.AuthMethodPrivateKeyJWT:
			return res(opdrv.AssertionAuth(w.ClientAssertion(opdrv.ClientKey("svc").With(opdrv.ClientKey("jwt").Kid, "RS256", "sig"), c.ID)), "no")
		}
		return res(opdrv.BasicAuth(c.ID, "not-the-secret"), "no")
	case "none":
		return res(opdrv.NoAuth(), "no")
	case "idonly":
		return res(opdrv.IDOnly(c.ID), "no")
	case "unknown-client":
		return res(opdrv.BasicAuth("ghost", "secret-web"), "no")
	case "other-secret":
		other := "secret-web2"
		if c.ID == "web2" {
			other = "secret-web"
		}
		return res(opdrv.BasicAuth(c.ID, other), "no")
	case "empty-secret":
		return res(opdrv.BasicAuth(c.ID, ""), "no")
	case "post-right":
		if c.Secret == "" {
			return res(w.AuthFor(c), "yes")
		}
		return res(opdrv.PostAuth(c.ID, c.Secret), "yes")
	case "basic-right":
		if c.Secret == "" {
			return res(w.AuthFor(c), "yes")
		}
		return res(opdrv.BasicAuth(c.ID, c.Secret), "yes")
	case "malformed-basic":
		raw := "Basic " + base64.StdEncoding.EncodeToString([]byte(c.ID+"%zz:"+c.Secret))
		return res(opdrv.ClientAuth{Kind: "rawbasic", RawHeader: raw}, "no")
	case "assertion-expired":
		k := opdrv.ClientKey("jwt")
		if c.Auth != oidc.AuthMethodPrivateKeyJWT {
			// an assertion for a client that has no key registered (or is not the jwt client)
			k = opdrv.ClientKey("svc")
		}
		a := opdrv.Assertion(k, c.ID, c.ID, []string{w.Issuer}, timeNow().Add(-3*hour), timeNow().Add(-2*hour), nil)
		return res(opdrv.AssertionAuth(a), "no")
	}
	panic("c15: unknown credential kind " + kind)
}

// expectation is what the storage policy decides for a conforming request (the reference model of vstore's policy,
// computed independently of what the library handed to the storage).
type expectation struct {
	Subject string   `json:"subject"`
	Scopes  []string `json:"scopes"`
	Actor   string   `json:"actor"`
	Issued  string   `json:"issued_token_type"`
	Client  string   `json:"client"`
}

func expect(e *exch, policy vstore.TEPolicy, impersonateAs string) expectation {
	x := expectation{Subject: e.Subj.Subject, Client: e.Client.ID}
	if policy == vstore.TEImpersonate {
		x.Subject = impersonateAs
	}
	if e.Actor != nil {
		x.Actor = e.Actor.Subject
	}
	if e.Scope != "\x00" {
		for _, sc := range strings.Split(e.Scope, " ") {
			if slices.Contains(vstore.KnownScopes, sc) {
				x.Scopes = append(x.Scopes, sc)
			}
		}
	}
	if len(x.Scopes) == 0 {
		x.Scopes = []string{oidc.ScopeOpenID}
	}
	if e.GrantNil {
		x.Scopes = []string{}
	}
	x.Issued = e.Requested
	if x.Issued == "" && !e.NoDefault {
		x.Issued = tAccess
	}
	// (x.Issued == "": nobody named a type - neither the client nor the storage; whatever the provider answers must
	// name what it contains, resolved in verifyIssued)
	return x
}

type caseRun struct {
	run      *ev.Run
	idx      int
	c        *caseCtx
	sp       spec
	log      []stepLog
	returned *opdrv.Tokens
	retExp   expectation
	stop     bool
	trace    []string       // storage methods called by the last exchange request, in order (before any verification call)
	extra    map[string]any // further witness members (multi-issuer histories: strategy, views, token pool)
}

func (cr *caseRun) witness() map[string]any {
	m := map[string]any{
		"router": opdrv.RouterNames[cr.c.router], "spec": cr.sp, "signing_alg": cr.sp.SigAlg, "verifier_storage": cr.sp.Verifier,
		"preparation": cr.c.prep, "requests": cr.log,
	}
	for k, v := range cr.extra {
		m[k] = v
	}
	return m
}

func (cr *caseRun) violate(key, what string) {
	cr.stop = true
	cr.run.Count("violation_by_router", opdrv.RouterNames[cr.c.router]+"|"+key)
	cr.run.Violation("C15:"+key, int64(cr.idx), what, cr.witness())
}

func (cr *caseRun) checkPanic(resp *opdrv.Resp, where string) bool {
	if resp == nil || resp.Panic == nil {
		return false
	}
	pi := resp.Panic
	if pi.InRepo {
		cr.run.Count("panic_site", pi.Site())
		cr.violate("panic:"+pi.Site(), where+": the handler panicked ("+pi.Value+") at "+pi.Frame)
	} else {
		cr.stop = true
		cr.run.HarnessBug("panic outside library code during " + where + ": " + pi.Value + " at " + pi.Frame)
	}
	return true
}

var tokenMembers = []string{"access_token", "refresh_token", "id_token"}

// do sends one exchange and judges it. It returns the decoded tokens of a 200 answer that passed every check.
func (cr *caseRun) do(e *exch) *opdrv.Tokens {
	run, c, w := cr.run, cr.c, cr.c.w
	rn := opdrv.RouterNames[c.router]
	// the mandatory scenarios of the single-issuer strata are not satisfied by steps of multi-issuer histories
	// (those have their own names, multi.go)
	observed := run.Observed
	if e.Multi {
		observed = func(string) {}
	}
	auth, authenticated, authDesc := credential(w, e.Client, e.Cred)
	policy := cr.sp.Policy
	w.Store.TEPolicy = policy
	w.Store.TEImpersonateAs = "user-imp"

	// reference verdict before the call
	type why struct{ reason, key string }
	refuse := func() (must []why, grey []string) {
		switch shortType(e.Requested) {
		case "jwt", "junk":
			must = append(must, why{"requested type " + shortType(e.Requested) + " cannot be issued", "requested-type-unissuable"})
		}
		if policy == vstore.TEVeto {
			must = append(must, why{"storage veto", "storage-veto"})
		} else if cr.sp.VetoAtCreate {
			must = append(must, why{"storage veto at its CreateTokenExchangeRequest hook", "storage-veto"})
		}
		switch authenticated {
		case "no":
			must = append(must, why{"client not authenticated (" + e.Cred + ")", "client-unauthenticated"})
		case "public":
			grey = append(grey, "public-client-identified-only")
		}
		if !slices.Contains(e.Client.Grants, oidc.GrantTypeTokenExchange) {
			grey = append(grey, "grant-not-registered(C05)")
		}
		add := func(role string, t *tok, declared string) {
			reason, g := classify(t, declared, cr.sp.Verifier)
			if (reason == "" || g) && t.Issuer != "" && t.Issuer != w.Issuer {
				// a provider whose issuer depends on the request: the token was issued under another issuer than the
				// one this request is addressed to. A token that names its issuer (ID token, JWT access token) is a
				// foreign token here, however live it is at its own issuer; opaque and refresh tokens name none (grey)
				if !t.bound() {
					grey = append(grey, role+"-unbound-token-of-another-issuer")
				} else {
					must = append(must, why{fmt.Sprintf("%s token foreign: %s/%s (%s) was issued under %s (%s), the request is addressed to %s", role, t.Kind, t.Variant, t.Form, t.Issuer, t.IssuedAt, w.Issuer),
						role + "-foreign:other-issuer-of-the-provider:" + t.Form})
					return
				}
			}
			if reason == "" {
				return
			}
			if g {
				grey = append(grey, role+"-"+reason)
				return
			}
			key := role + "-" + reason
			if reason == "mistyped" {
				key += ":" + t.Form + "-as-" + shortType(declared)
			}
			text := role + " token " + reason + " (" + t.Kind + "/" + t.Variant + " declared " + shortType(declared) + ")"
			if reason == "mistyped" && !t.live() {
				text += ", and it is not even live any more"
			}
			must = append(must, why{text, key})
		}
		add("subject", e.Subj, e.SubjDeclared)
		if e.Actor != nil {
			add("actor", e.Actor, e.ActorDeclared)
		}
		return
	}
	must0, grey0 := refuse()
	w.Store.ResetJournal()
	form := e.form()
	if e.Fault != nil {
		w.Store.Arm(e.Fault.plan())
	}
	resp := w.Token(c.router, form, auth)
	if e.Fault != nil {
		w.Store.Arm(nil)
	}
	must1, _ := refuse()
	run.Eval()
	cr.trace = cr.trace[:0:0]
	for _, en := range w.Store.Journal() {
		cr.trace = append(cr.trace, en.Method)
	}
	// the storage call that failed in this request, if one was planned and reached
	fIdx, fMethod := -1, ""
	if e.Fault != nil {
		for i, en := range w.Store.Journal() {
			if en.Fault {
				fIdx, fMethod = i, en.Method
				if teHooks[en.Method] {
					// a storage that fails in one of its token-exchange hooks has not approved the request, whatever the error value
					y := why{fmt.Sprintf("the storage failed at its %s hook (%s)", en.Method, en.Err), "storage-failure:" + en.Method}
					must0, must1 = append(must0, y), append(must1, y)
				}
				break
			}
		}
	}

	body := resp.Body.String()
	if len(body) > 1200 {
		body = body[:1200] + "..."
	}
	sl := stepLog{Step: e.Step, Router: rn, Auth: authDesc, Form: form, Policy: policyNames[policy], Status: resp.Status, Body: body}
	if e.Fault != nil {
		sl.Fault = e.Fault.describe(w.Store.Journal(), fIdx)
		out := fmt.Sprint(resp.Status)
		if ec, _ := resp.JSON()["error"].(string); ec != "" {
			out += " " + ec
		}
		if fIdx < 0 {
			run.Count("fault_not_reached|"+rn, fmt.Sprintf("call %d (%s in the clean trace)", e.Fault.K, e.Fault.Method))
		} else {
			run.Count("fault_outcome|"+rn, fMethod+" -> "+out)
			run.Count("fault_flavour", e.Fault.Flavour+" -> "+out)
			observed("fault:fired:" + fMethod + ":" + rn)
		}
	}
	if v := w.view; v != nil {
		sl.Host, sl.Forwarded, sl.Issuer = v.Host, v.hdr, v.Issuer
		sl.Tokens = "subject " + e.Subj.ref()
		if e.Actor != nil {
			sl.Tokens += "; actor " + e.Actor.ref()
		}
	}
	cr.log = append(cr.log, sl)
	last := &cr.log[len(cr.log)-1]

	actorKind, actorDecl := "none", "-"
	if e.Actor != nil {
		actorKind, actorDecl = e.Actor.Kind, shortType(e.ActorDeclared)
	}
	run.Distinct(strings.Join([]string{rn, e.Step, e.Subj.Kind + "/" + e.Subj.Variant, shortType(e.SubjDeclared), actorKind, actorDecl, e.ReqDim,
		policyNames[policy], e.Client.ID, e.Cred, fmt.Sprint(cr.sp.Verifier)}, "|"))
	run.Count("requests", rn+"|"+e.Step)

	if cr.checkPanic(resp, "token exchange ("+e.Step+")") {
		last.Verdict = "panic"
		return nil
	}
	if len(must0) != len(must1) {
		run.Inconclusive("reference changed during the call")
		last.Verdict = "inconclusive"
		return nil
	}
	m := resp.JSON()
	if e.NoDefault && e.Requested == "" && e.Fault == nil {
		// did the request reach the point where nobody has named a type (the storage approved and set none)?
		for _, en := range w.Store.Journal() {
			if en.Method == "ValidateTokenExchangeRequest" && en.Err == "" && strings.HasSuffix(en.Ret, "|") {
				observed("nodefault:absent:answered:" + rn)
				ec, _ := m["error"].(string)
				run.Count("no_default_type_absent_answer|"+rn, strings.TrimSpace(fmt.Sprintf("%d %s", resp.Status, ec)))
			}
		}
	}

	if resp.Status != 200 {
		// ----- a refusal: must be an OAuth error document without any token -----
		errCode, _ := m["error"].(string)
		desc, _ := m["error_description"].(string)
		if resp.Status < 400 || errCode == "" {
			last.Verdict = "violation"
			cr.violate("refusal-not-oauth-error", fmt.Sprintf("the request was not granted but the answer is not an OAuth error document: status %d body %q", resp.Status, body))
			return nil
		}
		for _, k := range tokenMembers {
			if s, _ := m[k].(string); s != "" {
				last.Verdict = "violation"
				cr.violate("error-with-token", fmt.Sprintf("error answer %d %s carries a non-empty %s", resp.Status, errCode, k))
				return nil
			}
		}
		run.Count("refusal_error|"+rn, fmt.Sprintf("%d %s: %s", resp.Status, errCode, desc))
		// a refused exchange must not have issued anything: no token may have been created at the storage
		hookVeto, claimsVeto := false, false
		for _, en := range w.Store.Journal() {
			if (en.Method == "GetPrivateClaimsFromTokenExchangeRequest" || en.Method == "SetUserinfoFromTokenExchangeRequest") && en.Err != "" && !en.Fault {
				// the claim hooks need the id of the token record (jti), so the record exists before they can refuse:
				// a record that is never delivered is not "a success response", the statement is silent about it
				claimsVeto = true
			}
		}
		for i, en := range w.Store.Journal() {
			switch en.Method {
			case "CreateTokenExchangeRequest":
				hookVeto = hookVeto || (en.Err != "" && !en.Fault)
			case "CreateAccessToken", "CreateAccessAndRefreshTokens":
				if en.Err == "" && claimsVeto {
					run.Count("grey", "token-record-created-before-the-claims-hook-refused")
				} else if en.Err == "" && fIdx > i {
					// the storage failed in a later call of the same request (signing key, claims): the record exists and is
					// never delivered; the statement speaks of success responses only
					run.Count("grey", "token-record-created-before-the-storage-failed-at-"+fMethod)
				} else if en.Err == "" {
					last.Verdict = "violation"
					cr.violate("refusal-after-token-creation", fmt.Sprintf("the exchange was answered %d %s (%s) but the storage had already created a token for it (%s -> %s)", resp.Status, errCode, desc, en.Method, en.Ret))
					return nil
				}
			}
		}
		if cr.sp.VetoAtClaims {
			for _, en := range w.Store.Journal() {
				if (en.Method == "GetPrivateClaimsFromTokenExchangeRequest" || en.Method == "SetUserinfoFromTokenExchangeRequest") && en.Err != "" && !en.Fault {
					observed("refused:storage-veto-at-claims:" + rn)
					run.Count("veto_at_claims|"+rn, "refused at "+en.Method+": requested="+e.ReqDim)
					break
				}
			}
		}
		if hookVeto && cr.sp.VetoAtCreate {
			observed("refused:storage-veto-at-create:" + rn)
			run.Count("veto_at_create_refused|"+rn, "requested="+e.ReqDim)
		}
		switch {
		case len(must0) > 0:
			last.Verdict = "refused as required (" + must0[0].key + ")"
			for _, y := range must0 {
				k := y.key
				if i := strings.Index(k, ":"); i > 0 {
					k = k[:i]
				}
				run.Count("refusal_required_reason", k)
			}
			observed("refused:" + strings.SplitN(must0[0].key, ":", 2)[0] + ":" + rn)
			run.SampleKind("refused/"+strings.SplitN(must0[0].key, ":", 2)[0], last)
		case len(grey0) > 0:
			last.Verdict = "refused (grey: " + strings.Join(grey0, ",") + ")"
			run.Count("grey_refused", strings.Join(grey0, "+"))
		default:
			// the statement is "succeeds only for": refusing a conforming request is never an alarm
			last.Verdict = "refused although conforming (not judged)"
			run.Count("conforming_refused|"+rn, fmt.Sprintf("client=%s cred=%s: %d %s: %s", e.Client.ID, e.Cred, resp.Status, errCode, desc))
		}
		return nil
	}

	// ----- status 200: a success response -----
	toks := opdrv.DecodeTokens(resp)
	x := expect(e, policy, w.Store.TEImpersonateAs)
	last.Expected = x
	if len(must0) > 0 {
		what := fmt.Sprintf("200 although the request must be refused: %s; body %q", must0[0].reason, body)
		if toks == nil || toks.Access == "" {
			what = "success response with an EMPTY token: " + what
		}
		last.Verdict = "violation"
		cr.violate("success-despite:"+must0[0].key, what)
		return nil
	}
	for _, en := range w.Store.Journal() {
		if (en.Method == "GetPrivateClaimsFromTokenExchangeRequest" || en.Method == "SetUserinfoFromTokenExchangeRequest") && en.Err != "" && !en.Fault {
			last.Verdict = "violation"
			cr.violate("success-despite:storage-veto:claims-hook", fmt.Sprintf("200 although the storage refused the request at %s (%s); body %q", en.Method, en.Err, body))
			return nil
		}
	}
	if cr.sp.VetoAtClaims {
		run.Count("veto_at_claims|"+rn, "success without a claims hook (opaque token): requested="+e.ReqDim+" client="+e.Client.ID)
	}
	for _, g := range grey0 {
		run.Count("grey_success", g)
	}
	if m == nil || toks == nil {
		last.Verdict = "violation"
		cr.violate("success-body-not-json", "200 whose body is not a JSON object: "+body)
		return nil
	}
	if !cr.verifyIssued(e, &x, toks, last) {
		return nil
	}
	last.Verdict = "success, returned token verified"
	if fIdx >= 0 {
		// a storage call of this request failed and the provider answered 200 all the same: whether that may be is C10's
		// question; here the answer was held to everything a success response owes (and it did)
		last.Verdict = "success although the storage failed at " + fMethod + ", returned token verified"
		run.Count("success_after_storage_failure|"+rn, fMethod+" ("+e.Fault.Flavour+")")
	}
	if e.NoDefault {
		run.Count("no_default_type|"+rn, "requested="+e.ReqDim+" -> 200 issued="+shortType(x.Issued))
		if e.Requested != "" {
			observed("nodefault:success:explicit:" + rn)
		}
	}
	issued := shortType(x.Issued)
	run.Count("success|"+rn, fmt.Sprintf("subject=%s actor=%s issued=%s policy=%s", e.Subj.Kind, actorKind, issued, policyNames[policy]))
	run.Count("success_client", e.Client.ID+"/"+e.Cred)
	observed("success:" + rn + ":" + issued)
	observed("success:subject=" + e.Subj.Kind + "/" + shortType(e.SubjDeclared))
	if e.Actor != nil {
		observed("success:actor:" + rn)
		observed("success:actor=" + e.Actor.Kind)
	}
	if policy == vstore.TEImpersonate {
		observed("success:impersonate:" + rn)
		if !slices.Contains(x.Scopes, oidc.ScopeOpenID) {
			run.Count("impersonated_without_openid|"+rn, fmt.Sprintf("issued=%s userinfo-subject-by-scope=%v", issued, cr.sp.UISubjectByScope))
			if cr.sp.UISubjectByScope && issued == "id_token" {
				observed("impersonated-id_token-without-openid:" + rn)
			}
			if strings.Count(toks.Access, ".") == 2 && issued != "id_token" {
				observed("impersonated-jwt-access-token-without-openid:" + rn)
			}
		}
	}
	if e.Step != "primary" && !e.Multi {
		observed("success:follow-up")
	}
	if e.GrantNil && e.Scope != "\x00" && len(strings.Fields(e.Scope)) > 1 {
		observed("success:grant-nil:" + rn)
		observed("success:grant-nil:" + issued)
		run.Count("grant_nil_success|"+rn, "issued="+issued)
	}
	if cr.sp.Extras && e.Actor != nil && issued != "id_token" && strings.Count(toks.Access, ".") == 2 {
		observed("success:extras-jwt-actor:" + rn)
		run.Count("extras_jwt_actor_success|"+rn, "issued="+issued)
	}
	run.SampleKind("success/"+issued+"/"+actorKind[:min(4, len(actorKind))], last)
	return toks
}

type opKeySet struct{ k *keys.Key }

func (s opKeySet) VerifySignature(ctx context.Context, jws *jose.JSONWebSignature) ([]byte, error) {
	return jws.Verify(s.k.Public())
}

func actSub(v any) string {
	m, _ := v.(map[string]any)
	s, _ := m["sub"].(string)
	return s
}

func eqScopes(a, b []string) bool { return strings.Join(a, " ") == strings.Join(b, " ") }

// verifyIssued checks that the 200 answer contains what issued_token_type names, live and as decided.
func (cr *caseRun) verifyIssued(e *exch, xp *expectation, toks *opdrv.Tokens, last *stepLog) bool {
	run, c, w := cr.run, cr.c, cr.c.w
	bad := func(key, what string) bool {
		last.Verdict = "violation"
		cr.violate(key, what)
		return false
	}
	if xp.Issued == "" {
		// neither the client nor the storage named a type: the choice was the provider's, but the answer must still name
		// a kind of token (and, below, contain exactly that)
		switch toks.IssuedType {
		case tAccess, tRefresh, tID:
			xp.Issued = toks.IssuedType
			last.Expected = *xp
			run.Count("provider_chosen_issued_type", shortType(toks.IssuedType))
		default:
			return bad("issued-type-names-nothing", fmt.Sprintf("200 whose issued_token_type %q names no kind of token the provider issues (requested_token_type absent, the storage set none)", toks.IssuedType))
		}
	}
	x := *xp
	issued := shortType(x.Issued)
	if toks.IssuedType != x.Issued {
		return bad("issued-type-mismatch", fmt.Sprintf("issued_token_type %q although the storage decided %q", toks.IssuedType, x.Issued))
	}
	// the response contains the kind of token it names and no other: a refresh token nobody requested, the storage
	// policy never decided and issued_token_type does not name is not "what it declares"
	if issued != "refresh_token" && toks.Refresh != "" {
		return bad("issued:undeclared-refresh_token", fmt.Sprintf("200 with issued_token_type %s (requested_token_type %s) that also carries a refresh_token %q", issued, e.ReqDim, toks.Refresh))
	}
	if toks.ID != "" {
		run.Count("grey", "additional id_token member next to issued_token_type "+issued)
	}
	if issued != "refresh_token" {
		for _, en := range w.Store.Journal() {
			if en.Method == "CreateAccessAndRefreshTokens" && en.Err == "" {
				run.Count("grey", "refresh-token-record-created-for-issued_token_type-"+issued+"-but-not-returned")
			}
		}
	}
	// the storage must have been asked, and about the right subject
	var decided *vstore.Entry
	for _, en := range w.Store.Journal() {
		if en.Method == "ValidateTokenExchangeRequest" && en.Err == "" {
			en := en
			decided = &en
		}
	}
	if decided == nil {
		return bad("issued:no-storage-decision", "200 although the storage policy (ValidateTokenExchangeRequest) never approved the request")
	}
	if decided.A != e.Subj.Subject {
		return bad("subject-resolution-mismatch", fmt.Sprintf("the storage was told the subject token stands for %q, it was issued for %q", decided.A, e.Subj.Subject))
	}
	if want := x.Subject + "|" + strings.Join(x.Scopes, " ") + "|" + x.Issued; decided.Ret != want {
		// what the request object reported back after the storage's setters ran differs from the reference model of
		// the policy: either the library's request object lost a decision (judged below on the issued token) or the
		// model is wrong; counted so that a disagreement on the unchanged tree is visible in the evidence
		run.Count("policy_model_vs_request_object", "differs")
	} else {
		run.Count("policy_model_vs_request_object", "agrees")
	}
	if toks.Scope != strings.Join(x.Scopes, " ") {
		return bad("response-scope-mismatch", fmt.Sprintf("response scope %q, the storage decided %q", toks.Scope, strings.Join(x.Scopes, " ")))
	}

	checkAccess := func(at string) bool {
		id := w.TokenID(at)
		rec, ok := w.Store.TokenRecord(id)
		if id == "" || !ok {
			return bad("issued:access_token:unknown", fmt.Sprintf("the returned access token does not resolve to a token the storage created (id %q)", id))
		}
		if rec.Flow != "token_exchange" || rec.ClientID != x.Client {
			return bad("issued:access_token:client-mismatch", fmt.Sprintf("stored token flow=%s client=%s, expected token_exchange / %s", rec.Flow, rec.ClientID, x.Client))
		}
		if rec.Subject != x.Subject {
			return bad("issued:access_token:subject-mismatch", fmt.Sprintf("stored token subject %q, the storage decided %q", rec.Subject, x.Subject))
		}
		if !eqScopes(rec.Scopes, x.Scopes) {
			return bad("issued:access_token:scope-mismatch", fmt.Sprintf("stored token scopes %v, the storage decided %v", rec.Scopes, x.Scopes))
		}
		if rec.Actor != x.Actor {
			return bad("issued:access_token:actor-mismatch", fmt.Sprintf("stored token actor %q, the actor token stands for %q", rec.Actor, x.Actor))
		}
		wantAud := slices.Clone(e.Audience)
		if len(wantAud) == 0 {
			wantAud = []string{x.Client}
		}
		if !slices.Contains(wantAud, x.Client) {
			wantAud = append(wantAud, x.Client)
		}
		if !slices.Equal(rec.Audience, wantAud) {
			run.Count("grey_audience_differs", fmt.Sprintf("%v vs %v", rec.Audience, wantAud))
		}
		// live at the provider: userinfo
		ur := w.NewRequest("GET", "/userinfo", nil)
		ur.Header.Set("Authorization", "Bearer "+at)
		uresp := w.Do(c.router, ur)
		if cr.checkPanic(uresp, "userinfo with the returned token") {
			return false
		}
		if uresp.Status != 200 || uresp.Str("sub") != x.Subject {
			return bad("issued:access_token:not-live-at-userinfo", fmt.Sprintf("userinfo with the returned access token: %s (expected 200 with sub %q)", uresp.Brief(), x.Subject))
		}
		run.Count("returned_token_checks", "userinfo-ok")
		// live at the provider: introspection by the exchanging client (when it can authenticate with a secret)
		if e.Client.Secret != "" && e.Client.Auth == oidc.AuthMethodBasic {
			iresp := w.Post(c.router, "/oauth/introspect", url.Values{"token": {at}}, opdrv.BasicAuth(e.Client.ID, e.Client.Secret))
			if cr.checkPanic(iresp, "introspection of the returned token") {
				return false
			}
			im := iresp.JSON()
			isc, _ := im["scope"].(string)
			if iresp.Status != 200 || im["active"] != true || im["sub"] != x.Subject || isc != strings.Join(x.Scopes, " ") || im["client_id"] != x.Client {
				return bad("issued:access_token:not-live-at-introspection", fmt.Sprintf("introspection of the returned access token by %s: %s (expected active, sub %q, scope %q, client_id %q)", e.Client.ID, iresp.Brief(), x.Subject, strings.Join(x.Scopes, " "), x.Client))
			}
			run.Count("returned_token_checks", "introspection-ok")
		}
		if strings.Count(at, ".") == 2 {
			cl, err := w.VerifyWithOPKey(at)
			if err != nil {
				return bad("issued:access_token:jwt-unverifiable", "the returned JWT access token does not verify under the provider key: "+err.Error())
			}
			if cl["sub"] != x.Subject || cl["iss"] != w.Issuer || cl["client_id"] != x.Client || actSub(cl["act"]) != x.Actor {
				return bad("issued:access_token:jwt-claims-mismatch", fmt.Sprintf("JWT access token claims sub=%v iss=%v client_id=%v act=%v, expected sub=%q client=%q actor=%q", cl["sub"], cl["iss"], cl["client_id"], cl["act"], x.Subject, x.Client, x.Actor))
			}
			run.Count("returned_token_checks", "jwt-access-claims-ok")
		} else if e.Client.TokenType == op.AccessTokenTypeJWT {
			run.Count("grey", "client registered for JWT access tokens received an opaque one")
		}
		return true
	}

	switch issued {
	case "access_token":
		if toks.Access == "" {
			return bad("issued:access_token:empty", "200 with issued_token_type access_token and an empty access_token")
		}
		if !checkAccess(toks.Access) {
			return false
		}
	case "refresh_token":
		if toks.Refresh == "" {
			return bad("issued:refresh_token:missing", "200 with issued_token_type refresh_token but no refresh_token in the response")
		}
		rec, ok := w.Store.RefreshRecord(toks.Refresh)
		if !ok || !w.Store.RefreshLive(toks.Refresh) {
			return bad("issued:refresh_token:unknown", "the returned refresh token is not a live refresh token of the storage")
		}
		if rec.Subject != x.Subject || !eqScopes(rec.Scopes, x.Scopes) || rec.Actor != x.Actor || rec.ClientID != x.Client {
			return bad("issued:refresh_token:binding-mismatch", fmt.Sprintf("stored refresh token sub=%q scopes=%v actor=%q client=%q, decided sub=%q scopes=%v actor=%q client=%q", rec.Subject, rec.Scopes, rec.Actor, rec.ClientID, x.Subject, x.Scopes, x.Actor, x.Client))
		}
		if toks.Access == "" {
			run.Count("grey", "refresh_token issued without accompanying access_token")
		} else if !checkAccess(toks.Access) {
			return false
		}
	case "id_token":
		if toks.Access == "" {
			return bad("issued:id_token:empty", "200 with issued_token_type id_token and an empty access_token member")
		}
		v := rp.NewIDTokenVerifier(w.Issuer, x.Client, opKeySet{w.Store.SigningKeyOf()}, rp.WithSupportedSigningAlgorithms(string(cr.sp.SigAlg)))
		var claims *oidc.IDTokenClaims
		var verr error
		if pi := catch(func() { claims, verr = rp.VerifyIDToken[*oidc.IDTokenClaims](context.Background(), toks.Access, v) }); pi != nil {
			if pi.InRepo {
				cr.violate("panic:"+pi.Site(), "rp.VerifyIDToken on the returned ID token panicked: "+pi.Value)
			} else {
				run.HarnessBug("panic in harness while verifying ID token: " + pi.Value + " at " + pi.Frame)
				cr.stop = true
			}
			return false
		}
		if verr != nil {
			return bad("issued:id_token:unverifiable", "rp.VerifyIDToken rejects the returned ID token: "+verr.Error())
		}
		raw, err := w.VerifyWithOPKey(toks.Access)
		if err != nil {
			return bad("issued:id_token:unverifiable", "the returned ID token does not verify under the provider key: "+err.Error())
		}
		if claims.Subject != x.Subject {
			return bad("issued:id_token:subject-mismatch", fmt.Sprintf("ID token sub=%q, the storage decided %q (subject token stands for %q, decided scopes %v, storage sets userinfo subject only with openid: %v)", claims.Subject, x.Subject, e.Subj.Subject, x.Scopes, cr.sp.UISubjectByScope))
		}
		if claims.AuthorizedParty != x.Client || actSub(raw["act"]) != x.Actor {
			return bad("issued:id_token:claims-mismatch", fmt.Sprintf("ID token sub=%q azp=%q act=%v, decided sub=%q client=%q actor=%q", claims.Subject, claims.AuthorizedParty, raw["act"], x.Subject, x.Client, x.Actor))
		}
		for sc, claim := range map[string]string{oidc.ScopeProfile: "name", oidc.ScopeEmail: "email", oidc.ScopePhone: "phone_number", oidc.ScopeAddress: "address"} {
			if _, has := raw[claim]; has && !slices.Contains(x.Scopes, sc) {
				return bad("issued:id_token:scope-mismatch", fmt.Sprintf("ID token carries the %q claim although the storage decided the scopes %v (requested %q)", claim, x.Scopes, e.Scope))
			}
		}
		run.Count("returned_token_checks", "id-token-ok")
		run.Count("id_token_token_type", toks.TokenType)
	}
	return true
}

// useRefresh checks that a returned refresh token is usable at the refresh grant (and rotates it away).
func (cr *caseRun) useRefresh(e *exch, x expectation, rt string) {
	run, c, w := cr.run, cr.c, cr.c.w
	if !slices.Contains(e.Client.Grants, oidc.GrantTypeRefreshToken) {
		run.Count("returned_token_checks", "refresh-grant-skipped(client without refresh grant)")
		return
	}
	auth, _, authDesc := credential(w, e.Client, "right")
	form := url.Values{"grant_type": {"refresh_token"}, "refresh_token": {rt}}
	resp := w.Token(c.router, form, auth)
	cr.log = append(cr.log, stepLog{Step: "use-returned-refresh-token", Router: opdrv.RouterNames[c.router], Auth: authDesc, Form: form, Status: resp.Status, Body: resp.Body.String()})
	if cr.checkPanic(resp, "refresh grant with the returned refresh token") {
		return
	}
	nt := opdrv.DecodeTokens(resp)
	if nt == nil || nt.Access == "" {
		cr.violate("issued:refresh_token:unusable", "the refresh grant refuses the refresh token the exchange just returned to the same client: "+resp.Brief())
		return
	}
	rec, ok := w.Store.TokenRecord(w.TokenID(nt.Access))
	if !ok || rec.Subject != x.Subject || !eqScopes(rec.Scopes, x.Scopes) {
		cr.violate("issued:refresh_token:binding-mismatch", fmt.Sprintf("tokens obtained with the returned refresh token: subject %q scopes %v, decided %q %v", rec.Subject, rec.Scopes, x.Subject, x.Scopes))
		return
	}
	run.Count("returned_token_checks", "refresh-grant-ok")
	run.Observed("refresh-usable:" + opdrv.RouterNames[c.router])
}

func runCase(run *ev.Run, idx, router, matrixCases int) {
	r := run.CaseRand(stream, idx)
	sp := drawSpec(r, idx, matrixCases)
	w, pi := newWorld(keys.Get("op-sig-c15", sp.SigAlg), sp.Verifier, sp.Extras)
	if pi != nil {
		if pi.InRepo {
			run.Violation("C15:panic:"+pi.Site(), int64(idx), "constructing the provider panicked: "+pi.Value, map[string]any{"spec": sp})
		} else {
			run.HarnessBug("panic while building the world: " + pi.Value + " at " + pi.Frame)
		}
		return
	}
	w.Store.TENoRefreshVet = sp.NoRefreshVet
	w.Store.TEUISubByScope = sp.UISubjectByScope
	w.Store.TEVetoAtCreate = sp.VetoAtCreate
	w.Store.TEVetoAtClaims = sp.VetoAtClaims
	w.Store.TEGrantNil = sp.GrantNil
	w.Store.TENoDefaultType = sp.NoDefaultType
	c := &caseCtx{w: w, router: router, r: r, prep: []prepOp{}}
	cr := &caseRun{run: run, idx: idx, c: c, sp: sp}

	subj := c.makeToken(sp.SubjKind, sp.SubjVariant, true)
	var actor *tok
	if sp.ActorKind != "none" {
		actor = c.makeToken(sp.ActorKind, sp.ActorVariant, false)
	}
	if c.panicP != nil {
		cr.checkPanic(c.panicP, "preparation (revoke / refresh)")
		return
	}
	if c.failed != "" {
		run.Count("preparation_failed", c.failed)
		run.Inconclusive("preparation failed")
		return
	}
	e := &exch{Step: "primary", Client: w.cl[sp.Client], Cred: sp.Cred, Subj: subj, Actor: actor, ReqDim: sp.Requested,
		Scope: sp.Scope, Audience: sp.Audience, Resource: sp.Resource, GrantNil: sp.GrantNil, NoDefault: sp.NoDefaultType}
	e.SubjDeclared = typeURN(r, sp.SubjDeclared)
	if sp.SubjDeclared == "junk" && r.IntN(4) == 0 {
		e.SubjDeclared = "" // parameter absent
	}
	e.Requested = typeURN(r, sp.Requested)
	if actor != nil {
		ad := sp.ActorDeclared
		if ad == "natural" {
			ad = naturalDeclared(actor.Kind, actor.Variant)
			if actor.Kind == "garbage" {
				ad = pick(r, "access", "refresh", "id", "jwt")
			}
		}
		e.ActorDeclared = typeURN(r, ad)
	} else if r.IntN(12) == 0 {
		e.ActorDeclared = typeURN(r, pick(r, "access", "refresh", "id", "jwt", "junk"))
	}
	toks := cr.do(e)
	if cr.stop {
		return
	}
	x := expect(e, sp.Policy, "user-imp")
	if x.Issued == "" && toks != nil {
		x.Issued = toks.IssuedType // the provider's choice, verified by do
	}
	if sp.FaultSweep {
		cr.faultSweep(e, toks, x)
		return
	}

	// ----- follow-up requests: a short history over the same tokens -----
	retTok := func() (*tok, string) {
		if toks == nil {
			return nil, ""
		}
		switch shortType(x.Issued) {
		case "access_token":
			id := w.TokenID(toks.Access)
			return &tok{Kind: "returned", Variant: "access", Form: formOf(&tok{Str: toks.Access, Natural: tAccess}), Str: toks.Access, Natural: tAccess, Subject: x.Subject, whyDead: "dead", live: func() bool { return w.Store.TokenLive(id) }}, tAccess
		case "refresh_token":
			rt := toks.Refresh
			return &tok{Kind: "returned", Variant: "refresh", Form: "refresh", Str: rt, Natural: tRefresh, Subject: x.Subject, whyDead: "dead", live: func() bool { return w.Store.RefreshLive(rt) }}, tRefresh
		case "id_token":
			return &tok{Kind: "returned", Variant: "id", Form: "id-token", Str: toks.Access, Natural: tID, Subject: x.Subject, live: always(true)}, tID
		}
		return nil, ""
	}
	follow := sp.Follow
	switch follow {
	case "repeat":
		e2 := *e
		e2.Step = "repeat"
		cr.do(&e2)
	case "kill-subject-repeat":
		// kill the subject token through the provider's own revocation endpoint, then repeat the same request
		owner := ""
		if rec, ok := w.Store.TokenRecord(w.TokenID(subj.Str)); ok && subj.Natural == tAccess {
			owner = rec.ClientID
		} else if rec, ok := w.Store.RefreshRecord(subj.Str); ok && subj.Natural == tRefresh {
			owner = rec.ClientID
		}
		if owner != "" {
			c.revoke(owner, subj.Str, "")
			if c.panicP != nil {
				cr.checkPanic(c.panicP, "revocation of the subject token")
				return
			}
			e2 := *e
			e2.Step = "repeat-after-revoking-subject"
			cr.do(&e2)
		}
	case "returned-as-subject":
		if rt, decl := retTok(); rt != nil {
			e2 := *e
			e2.Step, e2.Subj, e2.SubjDeclared = "returned-token-as-subject", rt, decl
			e2.Requested = typeURN(r, pick(r, "absent", "access", "refresh", "id", "jwt"))
			e2.ReqDim = shortType(e2.Requested)
			t2 := cr.do(&e2)
			x2 := expect(&e2, sp.Policy, "user-imp")
			if x2.Issued == "" && t2 != nil {
				x2.Issued = t2.IssuedType
			}
			if t2 != nil && !cr.stop && shortType(x2.Issued) == "refresh_token" {
				cr.useRefresh(&e2, x2, t2.Refresh)
			}
		}
	case "returned-as-actor":
		if rt, decl := retTok(); rt != nil {
			e2 := *e
			e2.Step, e2.Actor, e2.ActorDeclared = "returned-token-as-actor", rt, decl
			cr.do(&e2)
		}
	case "kill-returned-use":
		if rt, decl := retTok(); rt != nil && rt.Variant != "id" {
			c.revoke(e.Client.ID, rt.Str, "")
			if c.panicP != nil {
				cr.checkPanic(c.panicP, "revocation of the returned token")
				return
			}
			e2 := *e
			e2.Step, e2.Subj, e2.SubjDeclared = "returned-token-as-subject-after-revocation", rt, decl
			cr.do(&e2)
		}
	}
	if cr.stop {
		return
	}
	// last: the returned refresh token must work at the refresh grant (this rotates it away)
	if toks != nil && shortType(x.Issued) == "refresh_token" && follow != "kill-returned-use" {
		cr.useRefresh(e, x, toks.Refresh)
	}
	if w.tevCalls.Load() > 0 {
		run.CountN("verifier_storage_calls", opdrv.RouterNames[router], w.tevCalls.Load())
	}
}

func main() {
	run := ev.Start("C15", "exploration")
	run.SetRule("one fresh world per case and router; stratum 'matrix' enumerates subject kind(8) x declared type(5) x actor kind(none+8) x requested type(6) = 2160 cells " +
		"(cell = case mod 2160) with drawn variant, actor declared type, policy, client, credential, scope/audience/resource lists, signing alg, verifier storage; " +
		"stratum 'near-valid' draws conforming requests and makes exactly one dimension non-conforming in half of them; a third/half of the cases add one follow-up request (repeat, repeat after revoking the subject, " +
		"returned token as subject / actor, returned token after its revocation). Every token-endpoint answer is an evaluation; distinct = distinct vectors " +
		"(router, step, subject kind/variant, declared type, actor kind, actor declared type, requested type, policy, client, credential kind, verifier storage); " +
		"stratum 'multi-issuer' (case indices from 2e6): one provider with a request-dependent issuer (IssuerFromHost \"\" and \"/tenant/x\", IssuerFromForwardedOrHost behind a proxy) serving two or three hosts; " +
		"code flows under every host, then a history of 5-10 exchanges that presents ID tokens, JWT / opaque access tokens, refresh tokens and the tokens earlier steps returned at the issuer they were issued under and at the others, " +
		"as subject or actor (5 scripted histories x 3 strategies, then drawn ones); the step name carries the relation (own / other / other-unbound) of subject and actor to the addressed issuer; " +
		"stratum 'storage-variants' (case indices from 3e6, scripted then drawn, conforming requests): 'no-default-type' = a storage whose ValidateTokenExchangeRequest leaves an absent requested_token_type alone (requested absent / access / refresh / id); " +
		"'fault-sweep' = the request once cleanly, then once per storage call k of its trace with the k-th call failing (plain / deadline / server_error / OAuth refusal / cancelled context, rotating), then once more cleanly - every answer judged on its own")
	run.Assume(
		"vstore policy (DESIGN 3): ValidateTokenExchangeRequest vets liveness of access / refresh tokens by id and subject, accepts ID tokens the framework verified, sets requested type access_token when absent, keeps only known scopes (default openid), impersonation replaces the subject, veto answers invalid_target",
		"an ID token is live iff genuine and unexpired (not revocable, DESIGN 6a); expiry is produced by the harness hours away from now, never by racing the clock",
		"a public client that only identifies itself, a client without the token-exchange grant (C05's business) and a genuine JWT declared as the generic urn:...:jwt type are grey: counted, never failed",
		"issued_token_type refresh_token is judged as DESIGN decided: the response's refresh_token member must be a live refresh token usable at the refresh grant (the accompanying access_token is verified like an access token)",
		"only refusal is never judged ('succeeds only for'): a conforming request that is refused is counted in conforming_refused",
		"a success response contains a refresh_token exactly when issued_token_type names refresh_token: a refresh token that nobody requested, the storage policy never decided and issued_token_type does not name is a mismatching token (an additional id_token member is grey: the response type documents it)",
		"when neither the client nor the storage names a token type the choice is the provider's: a refusal is not judged, a 200 must name access_token, refresh_token or id_token and contain exactly that",
		"whether a storage failure may ever be answered with 200 is C10's statement; here such a 200 is held to everything a success response owes, and a failure inside one of the storage's four token-exchange hooks counts as the storage not approving (must be refused)",
		"a provider whose issuer depends on the request is one provider per issuer: an ID token or JWT access token issued under host A is the quantifier's 'foreign' kind at host B of the same instance (as C08 models it); opaque access tokens and refresh tokens name no issuer and are grey across hosts; what a 200 contains must be live at, and name the issuer of, the host that answered")
	var mandatory []string
	for _, rn := range opdrv.RouterNames {
		mandatory = append(mandatory, "success:"+rn+":access_token", "success:"+rn+":refresh_token", "success:"+rn+":id_token",
			"success:actor:"+rn, "success:impersonate:"+rn, "refresh-usable:"+rn,
			"impersonated-id_token-without-openid:"+rn, "impersonated-jwt-access-token-without-openid:"+rn,
			"refused:storage-veto-at-create:"+rn, "refused:storage-veto-at-claims:"+rn, "success:grant-nil:"+rn, "success:extras-jwt-actor:"+rn,
			"refused:storage-veto:"+rn, "refused:client-unauthenticated:"+rn, "refused:requested-type-unissuable:"+rn,
			"refused:subject-dead:"+rn, "refused:subject-garbage:"+rn, "refused:subject-foreign:"+rn, "refused:subject-mistyped:"+rn,
			"refused:subject-type-unsupported:"+rn, "refused:actor-dead:"+rn, "refused:actor-garbage:"+rn)
	}
	mandatory = append(mandatory, "success:subject=opaque/access_token", "success:subject=jwt/access_token", "success:subject=refresh/refresh_token",
		"success:subject=id/id_token", "success:subject=foreign/jwt", "success:actor=opaque", "success:actor=jwt", "success:actor=refresh", "success:actor=id", "success:follow-up",
		"success:grant-nil:access_token", "success:grant-nil:refresh_token", "success:grant-nil:id_token")
	mandatory = append(mandatory, mtMandatory()...)
	mandatory = append(mandatory, storMandatory()...)
	if run.ReplayCase() < 0 {
		run.Mandatory(mandatory...)
	}

	matrixCases := run.N(matrixSize, 18*matrixSize)
	n := run.N(matrixSize+4320, 18*matrixSize+36120) // 3 600 / 75 000 cases, each on both routers
	nMulti := mtScriptedCount() + run.N(240, 6000)   // multi-issuer histories (multi.go), each on both routers
	nStor := storCount(run.N(96, 2400))              // storage variants: no-default-type and fault sweeps (storvar.go), each on both routers
	run.Extra("cases", map[string]int{"scripted_scenarios": len(scenarios), "matrix": matrixCases, "near_valid": n - matrixCases, "routers": 2,
		"multi_issuer_scripted": mtScriptedCount(), "multi_issuer_generated": nMulti - mtScriptedCount(),
		"storage_variants_scripted": len(storScripts), "storage_variants_generated": nStor - len(storScripts)})
	if rc := run.ReplayCase(); rc >= 0 {
		for router := 0; router < 2; router++ {
			if rc >= storBase {
				runCase(run, int(rc), router, matrixCases)
			} else if rc >= multiBase {
				runMulti(run, int(rc)-multiBase, router)
			} else {
				runCase(run, int(rc), router, matrixCases)
			}
		}
		run.Finish()
	}
	for k := range scenarios {
		for router := 0; router < 2; router++ {
			if pi := catch(func() { runCase(run, scenarioBase+k, router, matrixCases) }); pi != nil {
				run.HarnessBug(fmt.Sprintf("scenario %d router %d: panic outside a monitored call: %s at %s", k, router, pi.Value, pi.Frame))
			}
		}
	}
	phase := map[string]float64{}
	t0 := timeNow()
	ev.Parallel(nStor, 0, func(_ int, k int) {
		for router := 0; router < 2; router++ {
			if pi := catch(func() { runCase(run, storBase+k, router, matrixCases) }); pi != nil {
				run.HarnessBug(fmt.Sprintf("storage-variant case %d router %d: panic outside a monitored call: %s at %s", k, router, pi.Value, pi.Frame))
			}
		}
	})
	phase["storage_variants"] = timeNow().Sub(t0).Seconds()
	t0 = timeNow()
	ev.Parallel(nMulti, 0, func(_ int, k int) {
		for router := 0; router < 2; router++ {
			if pi := catch(func() { runMulti(run, k, router) }); pi != nil {
				run.HarnessBug(fmt.Sprintf("multi-issuer history %d router %d: panic outside a monitored call: %s at %s", k, router, pi.Value, pi.Frame))
			}
		}
	})
	phase["multi_issuer"] = timeNow().Sub(t0).Seconds()
	t0 = timeNow()
	ev.Parallel(n, 0, func(_ int, i int) {
		for router := 0; router < 2; router++ {
			if pi := catch(func() { runCase(run, i, router, matrixCases) }); pi != nil {
				run.HarnessBug(fmt.Sprintf("case %d router %d: panic outside a monitored call: %s at %s", i, router, pi.Value, pi.Frame))
			}
		}
	})
	phase["matrix_and_near_valid"] = timeNow().Sub(t0).Seconds()
	run.Extra("phase_wall_s", phase) // reporting only; nothing depends on it
	run.Finish()
}
