package main

// Stratum "storage-variants" (case indices from storBase): conforming exchanges against storages that behave in legal
// but less common ways, judged by the same oracle (do / verifyIssued) as every other request.
//
//   - no-default-type: the storage's ValidateTokenExchangeRequest decides subject and scopes and leaves an absent
//     requested_token_type alone. Nobody has named a type then; whatever the provider answers, a 200 must name a kind of
//     token it issues and contain exactly that kind, live and as decided (a refusal is never judged).
//   - fault-sweep: the request is sent once cleanly (its storage trace is recorded), then once per storage call k of that
//     trace with the k-th call failing (error value rotating over plain / deadline / server_error / an OAuth refusal /
//     a cancelled context), then once more cleanly. Every answer is judged on its own: an error document carries no
//     token; a 200 - whether the provider may answer 200 after a storage failure at all is C10's question - still owes
//     everything a success response owes (issued_token_type names what is contained, live, as decided); a failure
//     inside one of the storage's token-exchange hooks is a request the storage has not approved.

import (
	"context"
	"fmt"
	"math/rand/v2"
	"strings"

	"github.com/zitadel/oidc/v3/pkg/oidc"

	"verif/internal/opdrv"
	"verif/internal/vstore"
)

const storBase = 3_000_000

// teHooks are the storage's own token-exchange hooks: the places where its policy speaks.
var teHooks = map[string]bool{
	"ValidateTokenExchangeRequest":             true,
	"CreateTokenExchangeRequest":               true,
	"GetPrivateClaimsFromTokenExchangeRequest": true,
	"SetUserinfoFromTokenExchangeRequest":      true,
}

var faultFlavours = []string{"plain", "deadline", "server_error", "access_denied", "canceled"}

// faultAt names the storage call of one request that fails.
type faultAt struct {
	K       int    // 1-based index among the storage calls of the request
	Method  string // the method at that index in the clean trace of the same request
	Flavour string
}

func (f *faultAt) plan() *vstore.FaultPlan {
	p := &vstore.FaultPlan{At: f.K}
	switch f.Flavour {
	case "deadline":
		p.Kind = vstore.FaultDeadline
	case "server_error":
		p.Kind = vstore.FaultOIDCServerError
	case "access_denied":
		p.Err = oidc.ErrAccessDenied().WithDescription("vstore: refused by the storage")
	case "canceled":
		p.Err = fmt.Errorf("vstore: query aborted: %w", context.Canceled)
	}
	return p
}

// describe renders the fault and the storage calls of the request for the witness.
func (f *faultAt) describe(journal []vstore.Entry, fIdx int) string {
	var calls []string
	for i, en := range journal {
		c := en.Method
		if en.Err != "" {
			c += " -> error"
		}
		if i == fIdx {
			c = "[" + c + ": " + en.Err + "]"
		}
		calls = append(calls, c)
		if len(calls) == 24 {
			calls = append(calls, "...")
			break
		}
	}
	return fmt.Sprintf("storage call %d of the request (%s in the clean trace) fails, error flavour %s; storage calls seen: %s", f.K, f.Method, f.Flavour, strings.Join(calls, ", "))
}

var storScripts = []spec{
	{Stratum: "scenario:no-default-type-absent", SubjKind: "jwt", SubjDeclared: "access", ActorKind: "none", Requested: "absent", Policy: vstore.TEAllow, Client: "web", Cred: "right", Scope: "openid profile", NoDefaultType: true},
	{Stratum: "scenario:no-default-type-absent-jwt-client-actor", SubjKind: "refresh", SubjDeclared: "refresh", ActorKind: "opaque", ActorDeclared: "natural", Requested: "absent", Policy: vstore.TEImpersonate, Client: "web2", Cred: "right", Scope: "openid api", NoDefaultType: true, Extras: true},
	{Stratum: "scenario:no-default-type-explicit-refresh", SubjKind: "id", SubjDeclared: "id", ActorKind: "none", Requested: "refresh", Policy: vstore.TEAllow, Client: "web", Cred: "right", Scope: "openid email", NoDefaultType: true, Follow: "returned-as-subject"},
	{Stratum: "scenario:no-default-type-explicit-access", SubjKind: "opaque", SubjDeclared: "access", ActorKind: "none", Requested: "access", Policy: vstore.TEAllow, Client: "web2", Cred: "right", Scope: "openid", NoDefaultType: true},
	{Stratum: "scenario:fault-sweep-refresh_token", SubjKind: "jwt", SubjDeclared: "access", ActorKind: "none", Requested: "refresh", Policy: vstore.TEAllow, Client: "web", Cred: "right", Scope: "openid profile", FaultSweep: true},
	{Stratum: "scenario:fault-sweep-jwt-access-token-extras", SubjKind: "refresh", SubjDeclared: "refresh", ActorKind: "opaque", ActorDeclared: "natural", Requested: "access", Policy: vstore.TEAllow, Client: "web2", Cred: "right", Scope: "openid api", Extras: true, FaultSweep: true},
	{Stratum: "scenario:fault-sweep-id_token", SubjKind: "id", SubjDeclared: "id", ActorKind: "none", Requested: "id", Policy: vstore.TEImpersonate, Client: "web", Cred: "right", Scope: "openid email", FaultSweep: true},
	{Stratum: "scenario:fault-sweep-absent", SubjKind: "opaque", SubjDeclared: "access", ActorKind: "jwt", ActorDeclared: "natural", Requested: "absent", Policy: vstore.TEAllow, Client: "web2", Cred: "right", Scope: "api", FaultSweep: true},
	{Stratum: "scenario:fault-sweep-refresh_token-jwt-client", SubjKind: "refresh", SubjDeclared: "refresh", ActorKind: "none", Requested: "refresh", Policy: vstore.TEImpersonate, Client: "web2", Cred: "right", Scope: "openid offline_access", Extras: true, FaultSweep: true},
}

func storCount(generated int) int { return len(storScripts) + generated }

var sweepRequested = []string{"refresh", "access", "id", "absent"}

func drawStorSpec(r *rand.Rand, k int) spec {
	if k < len(storScripts) {
		s := storScripts[k]
		s.SigAlg = sigAlgs[0]
		return s
	}
	k -= len(storScripts)
	var s spec
	s.SigAlg = pick(r, sigAlgs...)
	s.Verifier = r.IntN(4) == 0
	s.NoRefreshVet = r.IntN(2) == 0
	s.UISubjectByScope = r.IntN(2) == 0
	s.Extras = r.IntN(2) == 0
	s.Scope = pick(r, scopeDim...)
	s.Audience = pick(r, audienceDim...)
	s.Resource = pick(r, resourceDim...)
	s.SubjKind = pick(r, "opaque", "jwt", "refresh", "id")
	if s.Verifier && r.IntN(4) == 0 {
		s.SubjKind, s.SubjVariant = "foreign", "partner-jwt"
	}
	s.SubjDeclared = naturalDeclared(s.SubjKind, s.SubjVariant)
	s.ActorKind = pick(r, "none", "none", "opaque", "jwt", "refresh", "id")
	s.ActorDeclared = "natural"
	s.Policy = pick(r, vstore.TEAllow, vstore.TEAllow, vstore.TEImpersonate)
	// clients whose credentials both routers accept for this grant (client_secret_post is refused by one of them: a
	// conforming request that is refused before any storage policy is asked explores nothing here)
	s.Client = pick(r, "web", "web", "web2", "web2", "svc")
	s.Cred = pick(r, "right", "right", "basic-right")
	if k%2 == 0 {
		s.Stratum = "no-default-type"
		s.NoDefaultType = true
		s.Requested = pick(r, "absent", "absent", "absent", "access", "refresh", "id")
		s.GrantNil = r.IntN(8) == 0
		if r.IntN(3) == 0 {
			s.Follow = pick(r, "repeat", "returned-as-subject", "returned-as-actor", "kill-subject-repeat")
		}
		return s
	}
	s.Stratum = "fault-sweep"
	s.FaultSweep = true
	s.Requested = sweepRequested[(k/2)%len(sweepRequested)]
	s.NoDefaultType = r.IntN(5) == 0
	return s
}

// faultSweep repeats the primary request e once per storage call of its clean trace, that call failing, and once more
// cleanly at the end. Every answer is judged by do like any other request.
func (cr *caseRun) faultSweep(e *exch, primary *opdrv.Tokens, x expectation) {
	run, rn := cr.run, opdrv.RouterNames[cr.c.router]
	trace := cr.trace
	if len(trace) == 0 {
		run.Inconclusive("fault sweep: the clean request made no storage call")
		return
	}
	run.Count("fault_sweep_trace_len|"+rn, fmt.Sprintf("%02d calls, requested=%s", len(trace), e.ReqDim))
	for k := 1; k <= len(trace); k++ {
		e2 := *e
		e2.Step = "fault-at:" + trace[k-1]
		e2.Fault = &faultAt{K: k, Method: trace[k-1], Flavour: faultFlavours[(k+cr.idx)%len(faultFlavours)]}
		cr.do(&e2)
		if cr.stop {
			return
		}
	}
	run.Observed("fault:sweep-complete:" + rn)
	// the same request once more without a fault: nothing the failed attempts left behind may turn up in a success response
	e3 := *e
	e3.Step = "after-fault-sweep"
	if t3 := cr.do(&e3); t3 != nil {
		run.Observed("fault:clean-success-after-sweep:" + rn)
	}
	if cr.stop {
		return
	}
	if primary != nil && shortType(x.Issued) == "refresh_token" {
		cr.useRefresh(e, x, primary.Refresh)
	}
}

func storMandatory() []string {
	var out []string
	for _, rn := range opdrv.RouterNames {
		out = append(out, "nodefault:absent:answered:"+rn, "nodefault:success:explicit:"+rn,
			"fault:sweep-complete:"+rn, "fault:clean-success-after-sweep:"+rn, "refused:storage-failure:"+rn)
		for _, m := range []string{"ValidateTokenExchangeRequest", "CreateTokenExchangeRequest", "CreateAccessToken", "CreateAccessAndRefreshTokens",
			"GetPrivateClaimsFromTokenExchangeRequest", "SetUserinfoFromTokenExchangeRequest", "SigningKey", "GetClientByClientID"} {
			out = append(out, "fault:fired:"+m+":"+rn)
		}
	}
	return out
}
