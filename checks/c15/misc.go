package main

import (
	"time"

	"verif/internal/mon"
)

const hour = time.Hour

func timeNow() time.Time { return time.Now() }

func catch(fn func()) *mon.PanicInfo { return mon.Catch(fn) }
