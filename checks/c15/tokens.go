package main

import (
	"context"
	"encoding/base64"
	"encoding/json"
	"fmt"
	"math/rand/v2"
	"net/url"
	"strings"
	"time"

	jose "github.com/go-jose/go-jose/v4"

	"github.com/zitadel/oidc/v3/pkg/oidc"
	"github.com/zitadel/oidc/v3/pkg/op"

	"verif/internal/keys"
	"verif/internal/opdrv"
)

// The eight subject / actor token kinds of the property's quantifier.
var tokenKinds = []string{"opaque", "jwt", "refresh", "id", "foreign", "expired", "revoked", "garbage"}

const (
	tAccess  = string(oidc.AccessTokenType)
	tRefresh = string(oidc.RefreshTokenType)
	tID      = string(oidc.IDTokenType)
	tJWT     = string(oidc.JWTTokenType)
)

var supportedTypes = []string{tAccess, tRefresh, tID, tJWT}

// tok is one candidate subject / actor token together with the harness' knowledge about it.
type tok struct {
	Kind    string // one of tokenKinds (or "returned" for a token handed out by an earlier exchange)
	Variant string
	Str     string
	Natural string // the token type under which the token is genuine ("" = under none)
	Form    string // what the string genuinely is, if issued by this provider / the partner: opaque-access, jwt-access, refresh, id-token, partner-jwt
	Subject string // whom a genuine token stands for
	// live reports whether the token is live *now* (store truth / harness-chosen expiry, hours away from now)
	live func() bool
	// whyDead names the class when the token is not acceptable under any type
	whyDead string
	// Issuer is the issuer the token was issued under when the provider's issuer depends on the request (multi.go);
	// "" = a world with one static issuer, or a token of the partner IdP. IssuedAt names that view.
	Issuer   string
	IssuedAt string
}

// bound reports whether the token names its issuer (a JWT access token or an ID token): presented to another issuer
// of the same provider instance it is a foreign token. Opaque access tokens and refresh tokens carry no issuer.
func (t *tok) bound() bool {
	return t.Issuer != "" && (t.Form == "jwt-access" || t.Form == "id-token")
}

func (t *tok) brief() string {
	s := t.Str
	if len(s) > 96 {
		s = s[:60] + "..." + s[len(s)-24:]
	}
	return fmt.Sprintf("%s/%s %q", t.Kind, t.Variant, s)
}

type prepOp struct {
	Op     string `json:"op"`
	Detail string `json:"detail"`
	Result string `json:"result,omitempty"`
}

// caseCtx is the state of one case in one world.
type caseCtx struct {
	w      *world
	router int
	r      *rand.Rand
	prep   []prepOp
	minted map[string][]*opdrv.Tokens
	failed string // a preparation step that did not work (case is then skipped and counted)
	panicP *opdrv.Resp
}

func (c *caseCtx) note(op, detail, result string) {
	c.prep = append(c.prep, prepOp{op, detail, result})
}

func pick[T any](r *rand.Rand, xs ...T) T { return xs[r.IntN(len(xs))] }

// mint runs a real code flow for owner (web: opaque access tokens, web2: JWT access tokens) and user.
func (c *caseCtx) mint(owner, user string) *opdrv.Tokens {
	t := c.w.MintCode(c.router, c.w.cl[owner], "openid profile email offline_access", user)
	if t == nil || t.Access == "" || t.Refresh == "" || t.ID == "" {
		c.failed = "mint:" + owner
		c.note("mint", owner+" for "+user, "FAILED")
		return &opdrv.Tokens{}
	}
	c.note("mint", fmt.Sprintf("code flow client=%s user=%s scope='openid profile email offline_access'", owner, user),
		fmt.Sprintf("access=%s refresh=%s", c.w.TokenID(t.Access), t.Refresh))
	return t
}

func (c *caseCtx) ownerAuth(owner string) opdrv.ClientAuth { return c.w.AuthFor(c.w.cl[owner]) }

func (c *caseCtx) revoke(owner, token, hint string) {
	f := url.Values{"token": {token}}
	if hint != "" {
		f.Set("token_type_hint", hint)
	}
	resp := c.w.Post(c.router, "/revoke", f, c.ownerAuth(owner))
	c.note("revoke", "by "+owner+" token="+short(token), fmt.Sprint(resp.Status))
	if resp.Panic != nil {
		c.panicP = resp
	}
}

func (c *caseCtx) rotate(owner, refresh string) *opdrv.Tokens {
	resp := c.w.Token(c.router, url.Values{"grant_type": {"refresh_token"}, "refresh_token": {refresh}}, c.ownerAuth(owner))
	c.note("refresh-grant", "by "+owner+" refresh_token="+refresh, fmt.Sprint(resp.Status))
	if resp.Panic != nil {
		c.panicP = resp
	}
	return opdrv.DecodeTokens(resp)
}

func short(s string) string {
	if len(s) > 40 {
		return s[:28] + "..." + s[len(s)-8:]
	}
	return s
}

func always(b bool) func() bool { return func() bool { return b } }

// resign re-signs the payload of a genuine JWT after edit() with key k under the header kid.
func resign(token string, k *keys.Key, kid string, edit func(m map[string]any)) string {
	var m map[string]any
	if err := json.Unmarshal(keys.PayloadOf(token), &m); err != nil || m == nil {
		m = map[string]any{}
	}
	edit(m)
	b, _ := json.Marshal(m)
	return keys.SignAs(k, k.Alg, kid, b, "JWT")
}

func past(m map[string]any) {
	now := time.Now()
	m["exp"] = now.Add(-time.Hour).Unix()
	m["iat"] = now.Add(-2 * time.Hour).Unix()
	if _, ok := m["nbf"]; ok {
		m["nbf"] = now.Add(-2 * time.Hour).Unix()
	}
	if _, ok := m["auth_time"]; ok {
		m["auth_time"] = now.Add(-2 * time.Hour).Unix()
	}
}

func partnerJWT(k *keys.Key, iss string, exp time.Time) string {
	b, _ := json.Marshal(map[string]any{"iss": iss, "sub": partnerSubject, "aud": []string{opdrv.DefaultIssuer},
		"exp": exp.Unix(), "iat": time.Now().Add(-10 * time.Second).Unix(), "jti": "partner-jti-1"})
	return keys.Sign(k, b, "JWT")
}

var liveVariants = map[string][]string{
	"opaque":  {"fresh"},
	"jwt":     {"fresh"},
	"refresh": {"fresh"},
	"id":      {"fresh"},
	"foreign": {"partner-jwt", "partner-jwt", "partner-jwt-expired", "partner-jwt-unknown-key", "foreign-key-live-jti", "foreign-issuer-id-token", "foreign-issuer-access-jwt", "other-crypto-key-opaque"},
	"expired": {"opaque-store-expired", "jwt-store-expired", "jwt-resigned-exp-past", "refresh-store-expired", "id-resigned-exp-past"},
	"revoked": {"opaque-revoked", "jwt-revoked", "refresh-revoked", "refresh-rotated-away", "access-of-rotated-refresh", "access-session-terminated", "refresh-session-terminated"},
	"garbage": {"random-b64", "short", "long", "truncated-opaque", "bitflip-opaque", "three-dots", "alg-none-live-jti", "null-payload-signed", "empty-object-signed", "whitespace", "truncated-jwt"},
}

// makeToken builds a token of the given kind (variant "" = drawn).
func (c *caseCtx) makeToken(kind, variant string, isSubject bool) *tok {
	r := c.r
	user := pick(r, "user-1", "user-2")
	if variant == "" {
		variant = pick(r, liveVariants[kind]...)
		if kind == "garbage" && isSubject && r.IntN(12) == 0 {
			variant = "empty" // subject_token= (an empty actor_token would simply mean "no actor")
		}
	}
	t := &tok{Kind: kind, Variant: variant, live: always(false)}
	st := c.w.Store
	switch kind {
	case "opaque":
		m := c.mint("web", user)
		id := c.w.TokenID(m.Access)
		t.Str, t.Natural, t.Subject = m.Access, tAccess, user
		t.live = func() bool { return st.TokenLive(id) }
	case "jwt":
		m := c.mint("web2", user)
		id := c.w.TokenID(m.Access)
		t.Str, t.Natural, t.Subject = m.Access, tAccess, user
		t.live = func() bool { return st.TokenLive(id) }
	case "refresh":
		m := c.mint(pick(r, "web", "web2"), user)
		rt := m.Refresh
		t.Str, t.Natural, t.Subject = rt, tRefresh, user
		t.live = func() bool { return st.RefreshLive(rt) }
	case "id":
		m := c.mint(pick(r, "web", "web2"), user)
		t.Str, t.Natural, t.Subject = m.ID, tID, user
		t.live = always(true) // lifetime 1 h, not revocable (DESIGN 6a)
	case "foreign":
		t.whyDead = "foreign"
		switch variant {
		case "partner-jwt":
			t.Str, t.Natural, t.Subject = partnerJWT(partnerKey(), partnerIssuer, time.Now().Add(time.Hour)), tJWT, partnerSubject
			t.live = always(true)
			t.whyDead = ""
		case "partner-jwt-expired":
			t.Str = partnerJWT(partnerKey(), partnerIssuer, time.Now().Add(-time.Hour))
		case "partner-jwt-unknown-key":
			t.Str = partnerJWT(keys.Get("c15-unknown-es", jose.ES256).With(partnerKey().Kid, jose.ES256, "sig"), partnerIssuer, time.Now().Add(time.Hour))
		case "foreign-key-live-jti":
			// payload of a genuine live JWT access token, signed by a key the provider never published (same kid, same alg)
			m := c.mint("web2", user)
			t.Str = resign(m.Access, keys.Get("c15-evil-"+string(c.w.sig.Alg), c.w.sig.Alg), c.w.sig.Kid, func(map[string]any) {})
		case "foreign-issuer-id-token":
			m := c.mint("web", user)
			t.Str = resign(m.ID, keys.Get("c15-evil-"+string(c.w.sig.Alg), c.w.sig.Alg), "evil-kid", func(m map[string]any) { m["iss"] = "https://evil.example" })
		case "foreign-issuer-access-jwt":
			m := c.mint("web2", user)
			t.Str = resign(m.Access, c.w.sig, c.w.sig.Kid, func(m map[string]any) { m["iss"] = "https://evil.example" })
			// (even signed by the provider's key a token of another issuer is not this provider's token)
		case "other-crypto-key-opaque":
			m := c.mint("web", user)
			var k [32]byte
			copy(k[:], []byte("another-crypto-key-0123456789abcdef"))
			s, err := op.NewAESCrypto(k).Encrypt(c.w.TokenID(m.Access) + ":" + user)
			if err != nil {
				c.failed = "encrypt"
			}
			t.Str = s
		}
	case "expired":
		t.whyDead = "dead"
		switch variant {
		case "opaque-store-expired", "jwt-store-expired":
			owner := "web"
			if variant == "jwt-store-expired" {
				owner = "web2"
			}
			m := c.mint(owner, user)
			id := c.w.TokenID(m.Access)
			st.ExpireToken(id)
			c.note("expire", "stored expiry of "+id+" moved 48h into the past", "")
			t.Str, t.Natural, t.Subject = m.Access, tAccess, user
			t.live = func() bool { return st.TokenLive(id) }
		case "jwt-resigned-exp-past":
			// the stored token is live; only the JWT's own exp says it is over (signed with the provider's key)
			m := c.mint("web2", user)
			t.Str = resign(m.Access, c.w.sig, c.w.sig.Kid, past)
		case "refresh-store-expired":
			m := c.mint(pick(r, "web", "web2"), user)
			st.ExpireRefresh(m.Refresh)
			c.note("expire", "stored expiry of "+m.Refresh+" moved 48h into the past", "")
			rt := m.Refresh
			t.Str, t.Natural, t.Subject = rt, tRefresh, user
			t.live = func() bool { return st.RefreshLive(rt) }
		case "id-resigned-exp-past":
			m := c.mint(pick(r, "web", "web2"), user)
			t.Str = resign(m.ID, c.w.sig, c.w.sig.Kid, past)
		}
	case "revoked":
		t.whyDead = "dead"
		switch variant {
		case "opaque-revoked", "jwt-revoked":
			owner := "web"
			if variant == "jwt-revoked" {
				owner = "web2"
			}
			m := c.mint(owner, user)
			id := c.w.TokenID(m.Access)
			c.revoke(owner, m.Access, pick(r, "", "access_token"))
			t.Str, t.Natural, t.Subject = m.Access, tAccess, user
			t.live = func() bool { return st.TokenLive(id) }
		case "refresh-revoked":
			owner := pick(r, "web", "web2")
			m := c.mint(owner, user)
			c.revoke(owner, m.Refresh, pick(r, "", "refresh_token"))
			rt := m.Refresh
			t.Str, t.Natural, t.Subject = rt, tRefresh, user
			t.live = func() bool { return st.RefreshLive(rt) }
		case "refresh-rotated-away":
			owner := pick(r, "web", "web2")
			m := c.mint(owner, user)
			c.rotate(owner, m.Refresh)
			rt := m.Refresh
			t.Str, t.Natural, t.Subject = rt, tRefresh, user
			t.live = func() bool { return st.RefreshLive(rt) }
		case "access-session-terminated", "refresh-session-terminated":
			// what end_session does at the storage: every token of (user, client) dies
			owner := pick(r, "web", "web2")
			m := c.mint(owner, user)
			id := c.w.TokenID(m.Access)
			err := st.TerminateSession(context.Background(), user, owner)
			c.note("terminate-session", "user="+user+" client="+owner, fmt.Sprint(err))
			if variant == "access-session-terminated" {
				t.Str, t.Natural, t.Subject = m.Access, tAccess, user
				t.live = func() bool { return st.TokenLive(id) }
			} else {
				rt := m.Refresh
				t.Str, t.Natural, t.Subject = rt, tRefresh, user
				t.live = func() bool { return st.RefreshLive(rt) }
			}
		case "access-of-rotated-refresh":
			owner := pick(r, "web", "web2")
			m := c.mint(owner, user)
			id := c.w.TokenID(m.Access)
			c.rotate(owner, m.Refresh)
			t.Str, t.Natural, t.Subject = m.Access, tAccess, user
			t.live = func() bool { return st.TokenLive(id) }
		}
	case "garbage":
		t.whyDead = "garbage"
		switch variant {
		case "random-b64":
			b := make([]byte, 24+r.IntN(40))
			for i := range b {
				b[i] = byte(r.IntN(256))
			}
			t.Str = pick(r, base64.RawURLEncoding, base64.StdEncoding).EncodeToString(b)
		case "short":
			t.Str = pick(r, "x", "0", ":", "a:b", "at-1", "rt-1", "null", "{}")
		case "long":
			t.Str = strings.Repeat("A", 8192+r.IntN(4096))
		case "truncated-opaque":
			m := c.mint("web", user)
			t.Str = m.Access[:len(m.Access)/2]
		case "bitflip-opaque":
			m := c.mint("web", user)
			raw, err := base64.RawURLEncoding.DecodeString(m.Access)
			enc := base64.RawURLEncoding
			if err != nil {
				raw, err = base64.URLEncoding.DecodeString(m.Access)
				enc = base64.URLEncoding
			}
			if err != nil || len(raw) == 0 {
				t.Str = m.Access + "A"
			} else {
				raw[r.IntN(len(raw))] ^= 1 << r.IntN(8)
				t.Str = enc.EncodeToString(raw)
			}
		case "three-dots":
			t.Str = pick(r, "a.b.c", "..", "e30.e30.", "eyJhbGciOiJSUzI1NiJ9.e30.AAAA")
		case "alg-none-live-jti":
			m := c.mint("web2", user)
			t.Str = keys.Raw(keys.HeaderJSON("none", "", nil), keys.PayloadOf(m.Access), nil)
		case "null-payload-signed":
			t.Str = keys.Sign(keys.Get("c15-evil-"+string(c.w.sig.Alg), c.w.sig.Alg), []byte("null"), "JWT")
		case "empty-object-signed":
			t.Str = keys.Sign(c.w.sig, []byte("{}"), "JWT")
		case "whitespace":
			t.Str = pick(r, " ", "\t", " x ")
		case "truncated-jwt":
			m := c.mint("web2", user)
			t.Str = m.Access[:len(m.Access)-20]
		}
	}
	if t.Str == "" && c.failed == "" && variant != "empty" {
		c.failed = "empty-token:" + kind + "/" + variant
	}
	t.Form = formOf(t)
	return t
}

func formOf(t *tok) string {
	switch t.Natural {
	case tRefresh:
		return "refresh"
	case tID:
		return "id-token"
	case tJWT:
		return "partner-jwt"
	case tAccess:
		if strings.Count(t.Str, ".") == 2 {
			return "jwt-access"
		}
		return "opaque-access"
	}
	return ""
}

// classify returns ("", false) when tok presented under declared is a live token of the declared supported type,
// else the reason why the request must be refused; grey=true when the statement leaves the combination open.
func classify(t *tok, declared string, verifier bool) (reason string, grey bool) {
	supported := false
	for _, s := range supportedTypes {
		if s == declared {
			supported = true
		}
	}
	if !supported {
		return "type-unsupported", false
	}
	if t.whyDead == "garbage" || t.whyDead == "foreign" {
		return t.whyDead, false
	}
	if t.Natural == "" {
		// a forged variant of the expired class (JWT whose own exp is over)
		return "dead", false
	}
	if t.Natural != declared {
		// a genuine JWT (access or ID token of this provider) declared as the generic "jwt" type: the statement
		// does not say whether that is "of the declared type"; everything else is a mistyped token (live or not).
		if declared == tJWT && (t.Form == "jwt-access" || t.Form == "id-token") && t.live() {
			return "genuine-jwt-as-jwt-type", true
		}
		return "mistyped", false
	}
	if !t.live() {
		return "dead", false
	}
	if t.Natural == tJWT && !verifier {
		// nobody can verify a urn:...:jwt token in a world without the verifier storage
		return "jwt-type-without-verifier", false
	}
	return "", false
}
