package main

// C15, second part: ONE provider instance, SEVERAL issuers.
//
// A provider built with op.IssuerFromHost / op.IssuerFromForwardedOrHost derives the issuer from every request. Each
// host it serves is an issuer of its own: an ID token or JWT access token issued under host A names issuer A, and for
// the token endpoint of host B it is the quantifier's "foreign" kind - however live it is at A, and whatever the
// provider instance verified before. Every case builds one such provider (fresh world), obtains tokens under two or
// three hosts through real code flows and then sends a HISTORY of token-exchange requests that moves between the hosts:
// tokens are presented where they were issued and elsewhere, as subject and as actor, before and after the same
// instance verified tokens of the other hosts, and the tokens handed out by earlier steps join the pool.
//
// Oracle (statement: "succeeds only for ... a live subject token - and, if given, a live actor token - of the declared
// supported type", kind "foreign"): every request is judged by the same reference as in the single-issuer strata
// (caseRun.do), with one more clause there: a token that names its issuer and was issued under another issuer than
// the one the request is addressed to must be refused. Opaque access tokens and refresh tokens name no issuer: grey
// across hosts. Whatever a 200 contains must be live AT THE HOST THAT ANSWERED and name that host's issuer
// (verifyIssued: userinfo / introspection under that host, iss of JWT access tokens, rp.VerifyIDToken with that issuer).
// Refusing a conforming request is never judged ("succeeds only for").

import (
	"encoding/json"
	"fmt"
	"math/rand/v2"
	"net/http"
	"strings"

	jose "github.com/go-jose/go-jose/v4"

	"github.com/zitadel/oidc/v3/pkg/op"

	"verif/internal/ev"
	"verif/internal/keys"
	"verif/internal/opdrv"
	"verif/internal/vstore"
)

// multiBase is the case index of the first multi-issuer history; the scripted ones come first.
const multiBase = 2_000_000

// mtView is one issuer of the provider: how a request must look to be addressed to it.
type mtView struct {
	Name      string `json:"name"`
	Host      string `json:"host"`
	Forwarded string `json:"forwarded_header,omitempty"`
	Issuer    string `json:"issuer"`
	w         *world
	hdr       string // Forwarded header of the request being sent (the view's own, or a spoofed one)
}

var mtStrategies = []string{"host", "host-path", "forwarded"}

var mtHostSets = [][]string{
	{"a.verif.test", "b.verif.test", "c.verif.test"},
	{"op.verif.test", "op.verif.test:8443", "login.op.verif.test"},
	{"tenant-a.example", "tenant-b.example:444", "tenant-a.example.verif.test"},
}

const mtProxyHost = "proxy.verif.internal"

// mtStep is one request of a scripted history; tokens are named by pool reference:
// "<view>.opaque|refresh|id" (code flow of client web under that view), "<view>.jwt|refresh2|id2" (client web2),
// "ret:<k>" (what step k returned).
type mtStep struct {
	View      int
	Subj      string
	Actor     string
	Requested string // dimension name
	Client    string
	Spoof     bool // host strategies: the request carries a Forwarded header naming the host the token was issued under
}

type mtScript struct {
	Name  string
	Views int
	Steps []mtStep
}

// The plainest histories of every class (seed independent, run for every issuer strategy on both routers).
var mtScripts = []mtScript{
	{"exchanged-id_token-verified-at-its-issuer-then-presented-elsewhere", 2, []mtStep{
		{View: 0, Subj: "A.jwt", Requested: "id", Client: "web"},
		{View: 0, Subj: "ret:0", Requested: "access", Client: "web"},
		{View: 1, Subj: "ret:0", Requested: "access", Client: "web"},
		{View: 1, Subj: "B.opaque", Requested: "id", Client: "web2"},
		{View: 1, Subj: "ret:3", Requested: "access", Client: "web2"},
		{View: 0, Subj: "ret:3", Requested: "absent", Client: "web2", Spoof: true},
		{View: 0, Subj: "ret:0", Requested: "refresh", Client: "web"},
	}},
	{"id_token-presented-elsewhere-first", 2, []mtStep{
		{View: 1, Subj: "A.id", Requested: "access", Client: "web", Spoof: true},
		{View: 0, Subj: "A.id", Requested: "access", Client: "web"},
		{View: 1, Subj: "A.id", Requested: "id", Client: "web2"},
		{View: 1, Subj: "B.id2", Requested: "access", Client: "web2"},
		{View: 0, Subj: "B.id2", Requested: "access", Client: "web2"},
		{View: 1, Subj: "B.id2", Requested: "refresh", Client: "web"},
	}},
	{"id_token-as-actor", 2, []mtStep{
		{View: 0, Subj: "A.refresh", Actor: "A.id", Requested: "access", Client: "web2"},
		{View: 1, Subj: "B.refresh", Actor: "A.id", Requested: "access", Client: "web2"},
		{View: 1, Subj: "B.refresh", Actor: "B.id", Requested: "id", Client: "web2"},
		{View: 0, Subj: "A.refresh", Actor: "B.id", Requested: "access", Client: "web", Spoof: true},
		{View: 0, Subj: "A.refresh", Actor: "ret:2", Requested: "access", Client: "web"},
		{View: 1, Subj: "B.refresh", Actor: "ret:2", Requested: "access", Client: "web"},
	}},
	{"jwt-access-token-as-subject-and-actor", 2, []mtStep{
		{View: 1, Subj: "A.jwt", Requested: "access", Client: "web2"},
		{View: 0, Subj: "A.jwt", Requested: "access", Client: "web2"},
		{View: 1, Subj: "A.jwt", Requested: "access", Client: "web2", Spoof: true},
		{View: 1, Subj: "B.jwt", Requested: "access", Client: "web2"},
		{View: 0, Subj: "B.jwt", Requested: "id", Client: "web"},
		{View: 0, Subj: "ret:1", Requested: "access", Client: "web2"},
		{View: 1, Subj: "ret:1", Requested: "access", Client: "web2"},
		{View: 1, Subj: "B.refresh2", Actor: "B.jwt", Requested: "access", Client: "web"},
		{View: 1, Subj: "B.refresh2", Actor: "A.jwt", Requested: "access", Client: "web"},
		{View: 0, Subj: "A.opaque", Actor: "A.jwt", Requested: "refresh", Client: "web"},
	}},
	{"three-issuers", 3, []mtStep{
		{View: 0, Subj: "A.id", Requested: "id", Client: "web"},
		{View: 1, Subj: "B.id", Requested: "id", Client: "web"},
		{View: 2, Subj: "A.id", Requested: "access", Client: "web"},
		{View: 2, Subj: "B.id", Requested: "access", Client: "web2"},
		{View: 2, Subj: "ret:0", Requested: "access", Client: "web2", Spoof: true},
		{View: 2, Subj: "C.id", Requested: "id", Client: "web2"},
		{View: 0, Subj: "ret:5", Requested: "access", Client: "web2"},
		{View: 1, Subj: "ret:1", Actor: "ret:5", Requested: "access", Client: "web"},
		{View: 2, Subj: "ret:5", Actor: "C.id", Requested: "access", Client: "web"},
		{View: 2, Subj: "C.opaque", Actor: "A.jwt", Requested: "access", Client: "web"},
	}},
}

func mtScriptedCount() int { return len(mtScripts) * len(mtStrategies) }

// mtHist is what the history did with one token so far.
type mtHist struct{ okOwn, refusedOther bool }

type multi struct {
	run      *ev.Run
	cr       *caseRun
	c        *caseCtx
	r        *rand.Rand
	rn       string
	strategy string
	views    []*mtView
	pool     []*tok
	byRef    map[string]*tok
	refOf    map[*tok]string
	hist     map[*tok]*mtHist
	rets     map[int]*tok
}

func (t *tok) ref() string {
	s := t.Kind + "/" + t.Variant
	if t.IssuedAt != "" {
		s += " issued under " + t.IssuedAt
	}
	if t.Subject != "" {
		s += " for " + t.Subject
	}
	return s
}

func issOf(token string) string {
	var c struct {
		Iss string `json:"iss"`
	}
	_ = json.Unmarshal(keys.PayloadOf(token), &c)
	return c.Iss
}

func (m *multi) add(ref string, t *tok, v *mtView) {
	t.IssuedAt = v.Name
	t.Issuer = v.Issuer
	t.Form = formOf(t)
	m.pool = append(m.pool, t)
	m.byRef[ref] = t
	m.refOf[t] = ref
	m.hist[t] = &mtHist{}
}

func (m *multi) poolWitness() []map[string]string {
	var out []map[string]string
	for _, t := range m.pool {
		out = append(out, map[string]string{"ref": m.refOf[t], "what": t.Form, "issued_under": t.IssuedAt, "issuer": t.Issuer, "subject": t.Subject, "token": short(t.Str)})
	}
	return out
}

// use addresses the following requests to view v (hdr = the Forwarded header they carry).
func (m *multi) use(v *mtView, hdr string) {
	v.hdr = hdr
	m.c.w = v.w
}

// mintAt runs a code flow of owner under view v and adds access token, refresh token and ID token to the pool.
func (m *multi) mintAt(v *mtView, owner, user string) bool {
	m.use(v, v.Forwarded)
	t := m.c.mint(owner, user)
	if m.c.failed != "" {
		return false
	}
	if got := issOf(t.ID); got != v.Issuer {
		// the harness' idea of the request issuer must be the library's, otherwise nothing below means anything
		m.run.Count("multi_issuer_world", fmt.Sprintf("id_token iss %q under view %s (%s), expected %q", got, v.Name, m.strategy, v.Issuer))
		m.c.failed = "multi-issuer world: id_token iss differs from the expected request issuer"
		return false
	}
	st := m.c.w.Store
	id := m.c.w.TokenID(t.Access)
	rt := t.Refresh
	kind, sfx := "opaque", ""
	if owner == "web2" {
		kind, sfx = "jwt", "2"
		if got := issOf(t.Access); got != v.Issuer {
			m.c.failed = "multi-issuer world: access token iss differs from the expected request issuer"
			return false
		}
	}
	m.add(v.Name+"."+kind, &tok{Kind: kind, Variant: "fresh", Str: t.Access, Natural: tAccess, Subject: user, live: func() bool { return st.TokenLive(id) }, whyDead: "dead"}, v)
	m.add(v.Name+".refresh"+sfx, &tok{Kind: "refresh", Variant: "fresh", Str: rt, Natural: tRefresh, Subject: user, live: func() bool { return st.RefreshLive(rt) }, whyDead: "dead"}, v)
	m.add(v.Name+".id"+sfx, &tok{Kind: "id", Variant: "fresh", Str: t.ID, Natural: tID, Subject: user, live: always(true)}, v)
	return true
}

func (m *multi) relation(t *tok, v *mtView) string {
	switch {
	case t.Issuer == "":
		return "no-issuer"
	case t.Issuer == v.Issuer:
		return "own"
	case t.bound():
		return "other"
	}
	return "other-unbound"
}

// step sends one exchange to view v and keeps the books. It returns false when the case is over.
func (m *multi) step(k int, v *mtView, subj, actor *tok, declared, actorDeclared, requested, client, cred string, spoof bool) bool {
	run, cr := m.run, m.cr
	hdr := v.Forwarded
	focus := subj
	if actor != nil && m.relation(subj, v) == "own" {
		focus = actor
	}
	if spoof && m.strategy != "forwarded" && focus.IssuedAt != "" && focus.IssuedAt != v.Name {
		// op.IssuerFromHost reads the Host only: a client-supplied Forwarded header naming the token's own host must
		// not move the issuer of the request
		for _, o := range m.views {
			if o.Name == focus.IssuedAt {
				hdr = fmt.Sprintf("host=%q;proto=https", o.Host)
			}
		}
	}
	m.use(v, hdr)
	w := v.w
	rel := "subject-" + m.relation(subj, v)
	if actor != nil {
		rel += ",actor-" + m.relation(actor, v)
	}
	e := &exch{Step: "multi-issuer/" + m.strategy + "/" + rel, Multi: true, Client: w.cl[client], Cred: cred, Subj: subj, Actor: actor, ReqDim: requested,
		Scope: pick(m.r, "openid", "openid profile", "openid email api", "openid profile email offline_access")}
	e.SubjDeclared = typeURN(m.r, declared)
	e.Requested = typeURN(m.r, requested)
	if actor != nil {
		e.ActorDeclared = typeURN(m.r, actorDeclared)
	}
	toks := cr.do(e)
	if cr.stop {
		return false
	}
	last := cr.log[len(cr.log)-1]
	refused := strings.HasPrefix(last.Verdict, "refused")
	success := toks != nil
	if !refused && !success {
		return true // inconclusive step (already counted)
	}
	outcome := "refused"
	if success {
		outcome = "success"
	}
	run.Count("multi_issuer|"+m.rn, fmt.Sprintf("%s: %s declared=%s/%s -> %s", m.strategy, rel, shortType(e.SubjDeclared), map[bool]string{true: shortType(e.ActorDeclared), false: "-"}[actor != nil], outcome))
	if hdr != v.Forwarded {
		run.Observed("multi-issuer:spoofed-forwarded-header:" + m.rn)
	}
	// books per token: what this provider instance did with the token where
	note := func(role string, t *tok, natural bool) {
		if !t.bound() || !natural {
			return
		}
		h := m.hist[t]
		if h == nil {
			return
		}
		own := t.Issuer == v.Issuer
		switch {
		case own && success:
			run.Observed("multi-issuer:own-issuer:success:" + role + "=" + t.Form + ":" + m.rn)
			if h.refusedOther {
				run.Observed("multi-issuer:success-at-own-issuer-after-refusal-elsewhere:" + t.Form + ":" + m.rn)
			}
			h.okOwn = true
		case !own && refused:
			run.Observed("multi-issuer:other-issuer:refused:" + role + "=" + t.Form + ":" + m.rn)
			if h.okOwn {
				run.Observed("multi-issuer:refused-elsewhere-after-success-at-own-issuer:" + t.Form + ":" + m.rn)
			}
			if t.Kind == "returned" {
				run.Observed("multi-issuer:exchanged-token-refused-elsewhere:" + t.Form + ":" + m.rn)
			}
			h.refusedOther = true
		case own && refused:
			// "succeeds only for": not judged, but visible
			run.Count("multi_issuer_own_refused|"+m.rn, fmt.Sprintf("%s: %s=%s client=%s requested=%s: %d %s", m.strategy, role, t.Form, client, requested, last.Status, trunc(last.Body, 120)))
		}
	}
	subjNatural := e.SubjDeclared == subj.Natural
	if actor == nil {
		note("subject", subj, subjNatural)
	} else if m.relation(subj, v) == "own" && subjNatural && subj.live() {
		// an actor is only decisive next to an acceptable subject
		note("actor", actor, e.ActorDeclared == actor.Natural)
		if success {
			note("subject", subj, true)
		}
	}
	if !success {
		return true
	}
	// the returned token joins the pool, issued under v
	x := expect(e, cr.sp.Policy, "user-imp")
	var rt *tok
	switch shortType(x.Issued) {
	case "access_token":
		id, at := w.TokenID(toks.Access), toks.Access
		rt = &tok{Kind: "returned", Variant: "access", Str: at, Natural: tAccess, Subject: x.Subject, whyDead: "dead", live: func() bool { return w.Store.TokenLive(id) }}
	case "refresh_token":
		r := toks.Refresh
		rt = &tok{Kind: "returned", Variant: "refresh", Str: r, Natural: tRefresh, Subject: x.Subject, whyDead: "dead", live: func() bool { return w.Store.RefreshLive(r) }}
	case "id_token":
		rt = &tok{Kind: "returned", Variant: "id", Str: toks.Access, Natural: tID, Subject: x.Subject, live: always(true)}
	}
	if rt != nil {
		m.add(fmt.Sprintf("ret:%d", k), rt, v)
		m.rets[k] = rt
	}
	return true
}

func trunc(s string, n int) string {
	if len(s) > n {
		return s[:n] + "..."
	}
	return s
}

// weighted draw from the pool: tokens that name their issuer are what the histories are about
func (m *multi) drawTok(filter func(*tok) bool) *tok {
	var cand []*tok
	for _, t := range m.pool {
		if filter != nil && !filter(t) {
			continue
		}
		n := 1
		if t.bound() {
			n = 3
			if t.Form == "id-token" {
				n = 5
			}
		}
		for i := 0; i < n; i++ {
			cand = append(cand, t)
		}
	}
	if len(cand) == 0 {
		return nil
	}
	return cand[m.r.IntN(len(cand))]
}

func runMulti(run *ev.Run, k, router int) {
	idx := multiBase + k
	r := run.CaseRand(stream+1, k)
	rn := opdrv.RouterNames[router]
	var script *mtScript
	var strategy string
	var sp spec
	sp.SigAlg = jose.RS256
	sp.Policy = vstore.TEAllow
	nviews := 2
	hosts := mtHostSets[0]
	firstLast := false // mint under the views in reverse order: the host the provider serves first
	if k < mtScriptedCount() {
		script = &mtScripts[k/len(mtStrategies)]
		strategy = mtStrategies[k%len(mtStrategies)]
		sp.Stratum = "multi-issuer/scripted:" + script.Name
		nviews = script.Views
		hosts = mtHostSets[(k/len(mtStrategies))%len(mtHostSets)]
	} else {
		strategy = mtStrategies[k%len(mtStrategies)]
		sp.Stratum = "multi-issuer/generated"
		sp.SigAlg = pick(r, sigAlgs...)
		sp.Verifier = r.IntN(3) == 0
		sp.Extras = r.IntN(2) == 0
		sp.UISubjectByScope = r.IntN(2) == 0
		sp.NoRefreshVet = r.IntN(2) == 0
		sp.Policy = pick(r, vstore.TEAllow, vstore.TEAllow, vstore.TEImpersonate)
		if r.IntN(5) < 2 {
			nviews = 3
		}
		hosts = pick(r, mtHostSets...)
		firstLast = r.IntN(2) == 0
	}
	sp.Client, sp.Cred = "web", "right"

	path := ""
	var issuerFn func(bool) (op.IssuerFromRequest, error)
	switch strategy {
	case "host":
		issuerFn = op.IssuerFromHost("")
	case "host-path":
		path = "/tenant/x"
		issuerFn = op.IssuerFromHost(path)
	default:
		issuerFn = op.IssuerFromForwardedOrHost("")
	}
	base, pi := newWorldIssuer(keys.Get("op-sig-c15", sp.SigAlg), sp.Verifier, sp.Extras, issuerFn)
	if pi != nil {
		if pi.InRepo {
			run.Violation("C15:panic:"+pi.Site(), int64(idx), "constructing the provider panicked: "+pi.Value, map[string]any{"spec": sp, "issuer_strategy": strategy})
		} else {
			run.HarnessBug("panic while building the multi-issuer world: " + pi.Value + " at " + pi.Frame)
		}
		return
	}
	base.Store.TENoRefreshVet = sp.NoRefreshVet
	base.Store.TEUISubByScope = sp.UISubjectByScope

	m := &multi{run: run, r: r, rn: rn, strategy: strategy, byRef: map[string]*tok{}, refOf: map[*tok]string{}, hist: map[*tok]*mtHist{}, rets: map[int]*tok{}}
	for i := 0; i < nviews; i++ {
		v := &mtView{Name: string(rune('A' + i)), Host: hosts[i], Issuer: "https://" + hosts[i] + path}
		if strategy == "forwarded" && (i == 0 || (k+i)%2 == 0) {
			// behind a proxy: the Host is the proxy's, the public host travels in the Forwarded header; the other views
			// are reached directly (no Forwarded header: the strategy falls back to the Host)
			v.Host = mtProxyHost
			v.Forwarded = fmt.Sprintf("for=192.0.2.%d;host=%q;proto=https", 10+i, hosts[i])
		}
		ow := *base.World
		ow.Host, ow.Issuer = v.Host, v.Issuer
		for ri, h := range base.World.Handlers {
			h := h
			ow.Handlers[ri] = http.HandlerFunc(func(rw http.ResponseWriter, req *http.Request) {
				if v.hdr != "" {
					req.Header.Set("Forwarded", v.hdr)
				}
				h.ServeHTTP(rw, req)
			})
		}
		v.w = &world{World: &ow, cl: base.cl, verifier: base.verifier, sig: base.sig, view: v}
		m.views = append(m.views, v)
	}
	c := &caseCtx{w: m.views[0].w, router: router, r: r, prep: []prepOp{}}
	cr := &caseRun{run: run, idx: idx, c: c, sp: sp}
	m.c, m.cr = c, cr
	cr.extra = map[string]any{"issuer_strategy": strategy, "views": m.views}
	defer func() {
		if n := base.tevCalls.Load(); n > 0 {
			run.CountN("verifier_storage_calls", rn, n)
		}
	}()

	// ----- tokens of every issuer, through real code flows under that issuer -----
	order := make([]int, nviews)
	for i := range order {
		order[i] = i
		if firstLast {
			order[i] = nviews - 1 - i
		}
	}
	users := []string{"user-1", "user-2", "user-1"}
	for _, vi := range order {
		v := m.views[vi]
		owners := []string{"web", "web2"}
		if script == nil {
			switch r.IntN(4) {
			case 0:
				owners = []string{"web"}
			case 1:
				owners = []string{"web2"}
			}
		}
		for _, owner := range owners {
			if !m.mintAt(v, owner, users[vi]) {
				if c.panicP != nil {
					cr.checkPanic(c.panicP, "preparation")
					return
				}
				run.Count("preparation_failed", c.failed)
				run.Inconclusive("preparation failed")
				return
			}
		}
	}
	cr.extra["token_pool"] = m.poolWitness()
	defer func() { cr.extra["token_pool"] = m.poolWitness() }()
	run.Observed("multi-issuer:strategy=" + strategy + ":" + rn)
	run.Count("multi_issuer_cases|"+rn, fmt.Sprintf("%s views=%d first=%s", strategy, nviews, m.views[order[0]].Name))
	if nviews == 3 {
		run.Observed("multi-issuer:three-issuers:" + rn)
	}
	natural := func(t *tok) string {
		switch t.Natural {
		case tRefresh:
			return "refresh"
		case tID:
			return "id"
		}
		return "access"
	}

	if script != nil {
		for i, s := range script.Steps {
			subj := m.byRef[s.Subj]
			var actor *tok
			if s.Actor != "" {
				actor = m.byRef[s.Actor]
			}
			if subj == nil || (s.Actor != "" && actor == nil) {
				// an earlier step that should have produced the token was refused: not judged by the statement, but the
				// history cannot go on as written
				run.Count("multi_issuer_script_cut_short|"+rn, fmt.Sprintf("%s/%s at step %d (needs %s %s)", script.Name, strategy, i, s.Subj, s.Actor))
				continue
			}
			ad := ""
			if actor != nil {
				ad = natural(actor)
			}
			if !m.step(i, m.views[s.View], subj, actor, natural(subj), ad, s.Requested, s.Client, "right", s.Spoof) {
				return
			}
		}
		run.SampleKind("multi-issuer/"+strategy, map[string]any{"router": rn, "script": script.Name, "views": m.views, "requests": cr.log})
		return
	}

	// ----- a drawn history -----
	steps := 5 + r.IntN(4)
	for i := 0; i < steps; i++ {
		focus := m.drawTok(nil)
		// where: at the token's own issuer or at another one
		var v *mtView
		own := r.IntN(2) == 0
		var others []*mtView
		for _, o := range m.views {
			if o.Issuer == focus.Issuer {
				if own {
					v = o
				}
			} else {
				others = append(others, o)
			}
		}
		if v == nil {
			v = pick(r, others...)
		}
		subj, actor := focus, (*tok)(nil)
		switch r.IntN(10) {
		case 0, 1, 2:
			// the focus token is the ACTOR, next to a subject that is acceptable where the request goes
			if s := m.drawTok(func(t *tok) bool { return t != focus && t.Issuer == v.Issuer && t.live() }); s != nil {
				subj, actor = s, focus
			}
		case 3:
			// the focus token is the subject, with an actor of the addressed issuer
			actor = m.drawTok(func(t *tok) bool { return t != focus && t.Issuer == v.Issuer && t.live() })
		}
		declared, ad := natural(subj), ""
		if r.IntN(8) == 0 {
			declared = pick(r, declaredDim...)
		}
		if actor != nil {
			ad = natural(actor)
			if r.IntN(8) == 0 {
				ad = pick(r, declaredDim...)
			}
		}
		requested := pick(r, "absent", "access", "access", "refresh", "id", "id")
		client := pick(r, "web", "web", "web2", "web2", "svc", "jwt", "post")
		cred := pick(r, "right", "right", "right", "basic-right", "post-right")
		if !m.step(i, v, subj, actor, declared, ad, requested, client, cred, r.IntN(3) == 0) {
			return
		}
	}
	if k%97 == 0 {
		run.SampleKind("multi-issuer/generated/"+strategy, map[string]any{"router": rn, "views": m.views, "token_pool": m.poolWitness(), "requests": cr.log})
	}
}

// mtMandatory are the scenarios a run must have seen in the multi-issuer part.
func mtMandatory() []string {
	var out []string
	for _, rn := range opdrv.RouterNames {
		for _, s := range mtStrategies {
			out = append(out, "multi-issuer:strategy="+s+":"+rn)
		}
		out = append(out, "multi-issuer:three-issuers:"+rn, "multi-issuer:spoofed-forwarded-header:"+rn)
		for _, f := range []string{"id-token", "jwt-access"} {
			out = append(out,
				"multi-issuer:own-issuer:success:subject="+f+":"+rn, "multi-issuer:own-issuer:success:actor="+f+":"+rn,
				"multi-issuer:other-issuer:refused:subject="+f+":"+rn, "multi-issuer:other-issuer:refused:actor="+f+":"+rn,
				"multi-issuer:refused-elsewhere-after-success-at-own-issuer:"+f+":"+rn,
				"multi-issuer:success-at-own-issuer-after-refusal-elsewhere:"+f+":"+rn,
				"multi-issuer:exchanged-token-refused-elsewhere:"+f+":"+rn)
		}
	}
	return out
}
