// Package mon holds the structural monitors: one monotonic event counter, a
// recording http.ResponseWriter, a panic catcher that attributes a panic to
// /repo or /verif by its stack, and helpers to parse race-detector logs.
package mon

import (
	"bytes"
	"fmt"
	"net/http"
	"os"
	"regexp"
	"runtime/debug"
	"strings"
	"sync/atomic"
)

var seq atomic.Int64

// RepoPrefix is the directory the library under test was built from ("/repo/", or the scratch worktree given
// to ./check through VERIF_REPO_DIR); stack frames under it are attributed to the library.
var RepoPrefix = func() string {
	if d := os.Getenv("VERIF_REPO_DIR"); d != "" {
		return strings.TrimRight(d, "/") + "/"
	}
	return "/repo/"
}()

// Seq returns the next value of the single monotonic event counter that stamps
// storage calls and HTTP response events alike.
func Seq() int64 { return seq.Add(1) }

// Now returns the current counter value without advancing it.
func Now() int64 { return seq.Load() }

// Recorder is an http.ResponseWriter that records what a user agent would see
// and when (in Seq units) the first byte of the response was produced.
type Recorder struct {
	HeaderMap        http.Header
	Status           int         // status of the first WriteHeader (0 until written)
	SentHeader       http.Header // snapshot at first WriteHeader / Write
	Body             bytes.Buffer
	WriteHeaderCalls int
	SuperfluousCodes []int
	FirstWriteSeq    int64
	Writes           int
	// Codes is every status code handed to WriteHeader, in call order (recording only). net/http's server panics on
	// a code outside 100..999 ("invalid WriteHeader code"); this recorder stores it and carries on, so a monitor
	// that wants to know must look here (Status stays 0 after WriteHeader(0) and a later Write makes it 200).
	Codes []int
}

func NewRecorder() *Recorder { return &Recorder{HeaderMap: http.Header{}} }

func (r *Recorder) Header() http.Header { return r.HeaderMap }

func (r *Recorder) WriteHeader(code int) {
	r.WriteHeaderCalls++
	r.Codes = append(r.Codes, code)
	if r.Status != 0 {
		r.SuperfluousCodes = append(r.SuperfluousCodes, code)
		return
	}
	r.Status = code
	r.SentHeader = r.HeaderMap.Clone()
	r.FirstWriteSeq = Seq()
}

func (r *Recorder) Write(b []byte) (int, error) {
	if r.Status == 0 {
		r.Status = 200
		r.SentHeader = r.HeaderMap.Clone()
		r.FirstWriteSeq = Seq()
	}
	r.Writes++
	return r.Body.Write(b)
}

// Location returns the Location header the user agent received.
func (r *Recorder) Location() string {
	if r.SentHeader == nil {
		return ""
	}
	return r.SentHeader.Get("Location")
}

// PanicInfo describes a recovered panic.
type PanicInfo struct {
	Value   string
	Stack   string
	InRepo  bool   // first non-runtime frame below the panic is library code
	Frame   string // that frame ("file:line func")
	Harness bool   // first non-runtime frame is harness code
}

var frameRe = regexp.MustCompile(`(?m)^(\S.*)\n\t(/\S+\.go):(\d+)`)

// Catch runs fn and returns a description of the panic it raised, or nil.
func Catch(fn func()) (pi *PanicInfo) {
	defer func() {
		if v := recover(); v != nil {
			pi = classify(fmt.Sprint(v), string(debug.Stack()))
		}
	}()
	fn()
	return nil
}

func classify(val, stack string) *PanicInfo {
	pi := &PanicInfo{Value: val, Stack: stack}
	// frames after the "panic(" frame
	idx := strings.Index(stack, "\npanic(")
	s := stack
	if idx >= 0 {
		s = stack[idx+1:]
	}
	for _, m := range frameRe.FindAllStringSubmatch(s, -1) {
		fn, file := m[1], m[2]
		if strings.Contains(file, "/runtime/") || strings.HasPrefix(fn, "panic(") || strings.Contains(file, "/internal/mon/") {
			continue
		}
		// standard library / dependency frames: keep walking until we reach repo or harness code
		if strings.HasPrefix(file, RepoPrefix) {
			pi.InRepo = true
			pi.Frame = file + ":" + m[3] + " " + fn
			return pi
		}
		if strings.HasPrefix(file, "/verif/") || strings.Contains(file, "/.vp/runs/") {
			pi.Harness = true
			pi.Frame = file + ":" + m[3] + " " + fn
			return pi
		}
	}
	return pi
}

// Site returns a short stable signature of the panic site: function name without
// line numbers, so that the same defect reached by many inputs is one finding.
func (p *PanicInfo) Site() string {
	f := p.Frame
	if i := strings.Index(f, " "); i >= 0 {
		fn := f[i+1:]
		if j := strings.Index(fn, "("); j > 0 && !strings.HasPrefix(fn, "(") {
			// keep receiver forms like pkg.(*T).M intact; strip only the argument list
		}
		fn = stripArgs(fn)
		return fn
	}
	return f
}

func stripArgs(fn string) string {
	// "github.com/x/y.(*T).Method(0xc000..., ...)" -> "github.com/x/y.(*T).Method"
	depth := 0
	last := -1
	for i := 0; i < len(fn); i++ {
		switch fn[i] {
		case '(':
			if depth == 0 {
				last = i
			}
			depth++
		case ')':
			depth--
		}
	}
	if last > 0 && strings.HasSuffix(fn, ")") {
		// the last top-level parenthesised group is the argument list
		return fn[:last]
	}
	return fn
}

// RaceReport is one "WARNING: DATA RACE" block of a race-detector log.
type RaceReport struct {
	Text      string
	Frames    [2]string // outermost /repo frame (or first frame) of the two accesses
	TouchRepo bool
	Key       string
}

var raceFrame = regexp.MustCompile(`(?m)^  (\S+)\(.*\)\n\s+(/\S+\.go):(\d+)`)

// ParseRaceLog splits a GORACE log into reports and computes a de-duplication
// key: the pair of innermost /repo functions of the two conflicting accesses
// (line numbers stripped).
func ParseRaceLog(log string) []RaceReport {
	var out []RaceReport
	parts := strings.Split(log, "WARNING: DATA RACE")
	for _, p := range parts[1:] {
		end := strings.Index(p, "==================")
		if end >= 0 {
			p = p[:end]
		}
		rr := RaceReport{Text: "WARNING: DATA RACE" + p}
		// the two access stacks are the first two paragraphs
		paras := strings.Split(strings.TrimSpace(p), "\n\n")
		for i := 0; i < 2 && i < len(paras); i++ {
			ms := raceFrame.FindAllStringSubmatch(paras[i], -1)
			first := ""
			for _, m := range ms {
				if first == "" {
					first = m[1]
				}
				if strings.HasPrefix(m[2], RepoPrefix) {
					rr.Frames[i] = m[1]
					rr.TouchRepo = true
					break
				}
			}
			if rr.Frames[i] == "" {
				rr.Frames[i] = first
			}
		}
		a, b := rr.Frames[0], rr.Frames[1]
		if a > b {
			a, b = b, a
		}
		rr.Key = a + " <-> " + b
		out = append(out, rr)
	}
	return out
}
