package mon

import (
	"errors"
	"net/http"
)

// ErrConnGone is what a FaultyWriter returns from Write once the connection to the user agent is broken.
var ErrConnGone = errors.New("write tcp: broken pipe (injected by verif/mon.FaultyWriter)")

// WriteFault says when the connection to the user agent breaks while a handler writes its response.
// The zero value breaks it before the first body byte.
type WriteFault struct {
	// AfterBytes: number of body bytes the user agent still receives (used when OnWrite == 0). A Write that
	// would exceed it delivers the part that fits and fails; a response that is shorter is not disturbed.
	AfterBytes int
	// OnWrite > 0: the n-th call of Write fails without delivering anything, earlier calls succeed in full.
	OnWrite int
}

// FaultyWriter is an http.ResponseWriter in front of a Recorder: the Recorder keeps what the user agent
// received, the handler sees the write error. Once broken, every later Write fails as well (the
// connection does not come back). Headers are recorded as sent at the first WriteHeader / Write, as
// with the plain Recorder (a superset of what a user agent behind a dying connection can have seen).
type FaultyWriter struct {
	Rec    *Recorder
	Plan   WriteFault
	Broken bool // the fault fired
	Failed int  // Write calls that returned an error
	Lost   int  // bytes the handler tried to write and the user agent never received
	calls  int
	sent   int
}

func NewFaultyWriter(rec *Recorder, plan WriteFault) *FaultyWriter {
	return &FaultyWriter{Rec: rec, Plan: plan}
}

func (w *FaultyWriter) Header() http.Header { return w.Rec.Header() }

func (w *FaultyWriter) WriteHeader(code int) { w.Rec.WriteHeader(code) }

func (w *FaultyWriter) Write(b []byte) (int, error) {
	w.calls++
	if w.Broken {
		w.Failed++
		w.Lost += len(b)
		return 0, ErrConnGone
	}
	if w.Plan.OnWrite > 0 {
		if w.calls == w.Plan.OnWrite {
			w.Broken = true
			w.Failed++
			w.Lost += len(b)
			if w.Rec.Status == 0 {
				// net/http sends the header with the first Write
				w.Rec.WriteHeader(http.StatusOK)
			}
			return 0, ErrConnGone
		}
		return w.Rec.Write(b)
	}
	room := w.Plan.AfterBytes - w.sent
	if len(b) <= room {
		n, err := w.Rec.Write(b)
		w.sent += n
		return n, err
	}
	if room < 0 {
		room = 0
	}
	w.Broken = true
	w.Failed++
	w.Lost += len(b) - room
	if room > 0 {
		_, _ = w.Rec.Write(b[:room])
		w.sent += room
	} else if w.Rec.Status == 0 {
		w.Rec.WriteHeader(http.StatusOK)
	}
	return room, ErrConnGone
}
