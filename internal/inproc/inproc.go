// Package inproc is an http.RoundTripper that serves client requests by calling
// http.Handlers directly, in the calling goroutine: the library's client code
// (rp, rs, tokenexchange, profile, remote key set) talks to the library's own
// provider without sockets, so that the race detector sees one process-wide
// happens-before graph and a handler panic is caught and attributed.
//
// A Mux routes by URL host. Routes may be changed while no request is in
// flight or concurrently (the table is guarded); the transport itself keeps no
// per-request state, so it is safe for any number of goroutines.
package inproc

import (
	"bytes"
	"crypto/tls"
	"fmt"
	"io"
	"net/http"
	"net/url"
	"sync"
	"sync/atomic"

	"verif/internal/mon"
)

// Mux is an http.RoundTripper routing by host name to in-process handlers.
type Mux struct {
	mu     sync.RWMutex
	hosts  map[string]http.Handler
	panics []*mon.PanicInfo

	Requests atomic.Int64
}

func NewMux() *Mux { return &Mux{hosts: map[string]http.Handler{}} }

// Handle mounts h for URLs whose host is host (nil removes the route).
func (m *Mux) Handle(host string, h http.Handler) {
	m.mu.Lock()
	if h == nil {
		delete(m.hosts, host)
	} else {
		m.hosts[host] = h
	}
	m.mu.Unlock()
}

// Reset removes every route and forgets recorded panics.
func (m *Mux) Reset() {
	m.mu.Lock()
	m.hosts = map[string]http.Handler{}
	m.panics = nil
	m.mu.Unlock()
}

// Panics returns the handler panics caught so far.
func (m *Mux) Panics() []*mon.PanicInfo {
	m.mu.RLock()
	defer m.mu.RUnlock()
	return append([]*mon.PanicInfo(nil), m.panics...)
}

// Client returns a fresh *http.Client over this mux (no timeout, default redirect policy).
func (m *Mux) Client() *http.Client { return &http.Client{Transport: m} }

// RoundTrip implements http.RoundTripper.
func (m *Mux) RoundTrip(req *http.Request) (*http.Response, error) {
	if err := req.Context().Err(); err != nil {
		if req.Body != nil {
			req.Body.Close()
		}
		return nil, err
	}
	var body []byte
	if req.Body != nil {
		b, err := io.ReadAll(req.Body)
		req.Body.Close()
		if err != nil {
			return nil, err
		}
		body = b
	}
	host := req.URL.Host
	m.mu.RLock()
	h := m.hosts[host]
	m.mu.RUnlock()
	if h == nil {
		return nil, fmt.Errorf("inproc: dial %s: no such host", host)
	}
	m.Requests.Add(1)
	sr := &http.Request{
		Method:        req.Method,
		URL:           &url.URL{Path: req.URL.Path, RawPath: req.URL.RawPath, RawQuery: req.URL.RawQuery},
		Proto:         "HTTP/1.1",
		ProtoMajor:    1,
		ProtoMinor:    1,
		Header:        req.Header.Clone(),
		Body:          io.NopCloser(bytes.NewReader(body)),
		ContentLength: int64(len(body)),
		Host:          host,
		RemoteAddr:    "192.0.2.1:4711",
		RequestURI:    req.URL.RequestURI(),
	}
	if sr.Header == nil {
		sr.Header = http.Header{}
	}
	if req.Host != "" {
		sr.Host = req.Host
	}
	if req.URL.Scheme == "https" {
		sr.TLS = &tls.ConnectionState{}
	}
	if u := req.URL.User; u != nil && sr.Header.Get("Authorization") == "" {
		if p, ok := u.Password(); ok {
			sr.SetBasicAuth(u.Username(), p)
		}
	}
	sr = sr.WithContext(req.Context())
	rec := mon.NewRecorder()
	if pi := mon.Catch(func() { h.ServeHTTP(rec, sr) }); pi != nil {
		m.mu.Lock()
		m.panics = append(m.panics, pi)
		m.mu.Unlock()
		return nil, fmt.Errorf("inproc: handler for %s panicked: %s", host, pi.Value)
	}
	status := rec.Status
	hdr := rec.SentHeader
	if status == 0 {
		status = http.StatusOK
		hdr = rec.HeaderMap.Clone()
	}
	if hdr == nil {
		hdr = http.Header{}
	}
	b := rec.Body.Bytes()
	return &http.Response{
		Status:        fmt.Sprintf("%d %s", status, http.StatusText(status)),
		StatusCode:    status,
		Proto:         "HTTP/1.1",
		ProtoMajor:    1,
		ProtoMinor:    1,
		Header:        hdr,
		Body:          io.NopCloser(bytes.NewReader(b)),
		ContentLength: int64(len(b)),
		Request:       req,
	}, nil
}

// Redirector answers every request with a redirect (status code, e.g. 307) to
// base + the request URI: a gateway in front of the real endpoints.
func Redirector(base string, code int) http.Handler {
	return http.HandlerFunc(func(w http.ResponseWriter, r *http.Request) {
		w.Header().Set("Location", base+r.URL.RequestURI())
		w.WriteHeader(code)
	})
}
