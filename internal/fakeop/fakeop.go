// Package fakeop is a scriptable *remote provider* for the client-side code of the library (pkg/client/...).
//
// A Provider is an http.RoundTripper: no socket is involved, the library's *http.Client talks to it directly.
// Every endpoint (discovery, token, userinfo, introspection, JWKS, device_authorization, revocation, end_session,
// or any extra path) has a script: a queue of Responses that is consumed one per request, after which the
// endpoint's default Response (or dynamic Handler) answers. A Response fixes status, headers, body, declared
// Content-Length, an optional Gate (the answer is held until the harness releases it, or the request context
// ends) and an optional connection abort (before the headers, or in the middle of the body).
//
// Every request is logged with the value of the global event counter mon.Seq at arrival and at the moment the
// answer was handed to the client, so that request order can be related to storage journals and response
// recorders of the same run.
//
// The package is deliberately general: C09 (hostile answers), C13 (gated JWKS downloads), C17, C19 and C20 use it.
package fakeop

import (
	"bytes"
	"encoding/json"
	"errors"
	"fmt"
	"io"
	"net/http"
	"net/url"
	"strings"
	"sync"

	"verif/internal/mon"
)

// Endpoint names understood by New.
const (
	Discovery           = "discovery"
	Authorization       = "authorization"
	Token               = "token"
	Userinfo            = "userinfo"
	Introspection       = "introspection"
	JWKS                = "jwks"
	DeviceAuthorization = "device_authorization"
	Revocation          = "revocation"
	EndSession          = "end_session"
	Unknown             = "unknown" // any path that is not routed
)

// StdPaths are the paths (below the issuer) New routes.
var StdPaths = map[string]string{
	Discovery:           "/.well-known/openid-configuration",
	Authorization:       "/authorize",
	Token:               "/oauth/token",
	Userinfo:            "/userinfo",
	Introspection:       "/oauth/introspect",
	JWKS:                "/keys",
	DeviceAuthorization: "/device_authorization",
	Revocation:          "/revoke",
	EndSession:          "/end_session",
}

// Abort says how the "connection" of a response fails.
type Abort int

const (
	AbortNone    Abort = iota
	AbortConnect       // RoundTrip returns an error, no response at all (refused / reset before the status line)
	AbortBody          // status and headers are delivered, reading the body fails after AbortAfter bytes
)

// ErrAborted is the transport error of an aborted exchange.
var ErrAborted = errors.New("fakeop: connection reset by peer")

// Response is one scripted answer.
type Response struct {
	Status int
	Header http.Header
	Body   []byte
	// ContentLength: 0 means len(Body); -1 unknown; any other value is declared as is (it may lie).
	ContentLength int64
	Gate          *Gate // when set the answer is held until Gate.Release (or the request context ends)
	Abort         Abort
	AbortAfter    int    // bytes of Body served before an AbortBody failure
	Note          string // free label, copied into the request log
}

// JSON builds a 'Content-Type: application/json' response from v (marshalled) — v may be json.RawMessage / []byte.
func JSON(status int, v any) *Response {
	var b []byte
	switch t := v.(type) {
	case []byte:
		b = t
	case json.RawMessage:
		b = t
	case string:
		b = []byte(t)
	default:
		var err error
		if b, err = json.Marshal(v); err != nil {
			panic("fakeop.JSON: " + err.Error())
		}
	}
	return &Response{Status: status, Header: http.Header{"Content-Type": {"application/json"}}, Body: b}
}

// Bytes builds a response with an explicit content type ("" = no Content-Type header).
func Bytes(status int, contentType string, body []byte) *Response {
	r := &Response{Status: status, Header: http.Header{}, Body: body}
	if contentType != "" {
		r.Header.Set("Content-Type", contentType)
	}
	return r
}

// Redirect builds a redirect answer (location "" = no Location header).
func Redirect(status int, location string) *Response {
	r := &Response{Status: status, Header: http.Header{}}
	if location != "" {
		r.Header["Location"] = []string{location}
	}
	return r
}

// With sets a header and returns r (chainable).
func (r *Response) With(key, value string) *Response {
	if r.Header == nil {
		r.Header = http.Header{}
	}
	r.Header[http.CanonicalHeaderKey(key)] = []string{value}
	return r
}

// Held attaches a gate and returns r.
func (r *Response) Held(g *Gate) *Response { r.Gate = g; return r }

// Gate holds responses back until released: the schedule control point of the fake provider.
type Gate struct {
	mu       sync.Mutex
	open     chan struct{}
	arrived  chan struct{}
	waiting  int
	total    int
	released bool
}

func NewGate() *Gate { return &Gate{open: make(chan struct{}), arrived: make(chan struct{})} }

// Release lets every held (and every future) response through. Idempotent.
func (g *Gate) Release() {
	g.mu.Lock()
	if !g.released {
		g.released = true
		close(g.open)
	}
	g.mu.Unlock()
}

// Arrived is closed as soon as the first request is parked at (or passed through) the gate.
func (g *Gate) Arrived() <-chan struct{} { return g.arrived }

// Waiting returns how many requests are parked right now; Total how many ever reached the gate.
func (g *Gate) Waiting() int { g.mu.Lock(); defer g.mu.Unlock(); return g.waiting }
func (g *Gate) Total() int   { g.mu.Lock(); defer g.mu.Unlock(); return g.total }

func (g *Gate) wait(done <-chan struct{}) error {
	g.mu.Lock()
	g.waiting++
	g.total++
	if g.total == 1 {
		close(g.arrived)
	}
	g.mu.Unlock()
	defer func() { g.mu.Lock(); g.waiting--; g.mu.Unlock() }()
	select {
	case <-g.open:
		return nil
	case <-done:
		return errors.New("request context ended while the response was held")
	}
}

// Request is one entry of the request log.
type Request struct {
	Seq      int64 // mon.Seq at arrival
	DoneSeq  int64 // mon.Seq when the answer (or the abort) was handed to the client; 0 while held
	Endpoint string
	Method   string
	URL      string
	Host     string
	Path     string
	Header   http.Header
	Body     []byte
	Index    int    // 0-based number of this request at its endpoint
	Status   int    // status answered (0: aborted before the status line)
	Note     string // Response.Note
	Err      string // transport error returned to the client, if any
	form     url.Values
}

// Form parses the request body (and query) as application/x-www-form-urlencoded.
func (r *Request) Form() url.Values {
	if r.form == nil {
		v, _ := url.ParseQuery(string(r.Body))
		if v == nil {
			v = url.Values{}
		}
		if u, err := url.Parse(r.URL); err == nil {
			for k, vs := range u.Query() {
				v[k] = append(v[k], vs...)
			}
		}
		r.form = v
	}
	return r.form
}

// BasicAuth returns the raw (not unescaped) Basic credentials of the request.
func (r *Request) BasicAuth() (user, pass string, ok bool) {
	h := &http.Request{Header: r.Header}
	return h.BasicAuth()
}

// Handler computes an answer dynamically (used after the script of an endpoint is exhausted).
type Handler func(req *Request) *Response

type route struct {
	script  []*Response
	def     *Response
	handler Handler
	count   int
}

// Provider is the fake remote provider.
type Provider struct {
	Issuer string
	// StrictHost makes requests to another host than the issuer's resolve to the Unknown endpoint.
	StrictHost bool
	// MaxRequestBody bounds how much of a request body is kept in the log (default 1 MiB).
	MaxRequestBody int

	mu     sync.Mutex
	paths  map[string]string // endpoint -> path below issuer
	byPath map[string]string // absolute URL path -> endpoint
	routes map[string]*route
	log    []*Request
	host   string
	prefix string
}

// New returns a provider for issuer (e.g. "https://op.example" or "https://op.example/tenant/") routing StdPaths.
// Every endpoint initially answers 404 until scripted; use ServeDiscovery for a truthful discovery document.
func New(issuer string) *Provider {
	p := &Provider{Issuer: issuer, paths: map[string]string{}, byPath: map[string]string{}, routes: map[string]*route{}}
	if u, err := url.Parse(issuer); err == nil {
		p.host = u.Host
		p.prefix = strings.TrimSuffix(u.Path, "/")
	}
	for name, path := range StdPaths {
		p.AddEndpoint(name, path)
	}
	return p
}

// AddEndpoint routes an additional path (below the issuer) under the given endpoint name.
func (p *Provider) AddEndpoint(name, path string) {
	p.mu.Lock()
	defer p.mu.Unlock()
	if old, ok := p.paths[name]; ok {
		delete(p.byPath, p.prefix+old)
	}
	p.paths[name] = path
	p.byPath[p.prefix+path] = name
	if p.routes[name] == nil {
		p.routes[name] = &route{}
	}
}

// URL returns the absolute URL of an endpoint.
func (p *Provider) URL(endpoint string) string {
	p.mu.Lock()
	defer p.mu.Unlock()
	return strings.TrimSuffix(p.Issuer, "/") + p.paths[endpoint]
}

// DiscoveryDoc returns a truthful discovery document for the routed endpoints (a fresh map: edit it freely).
func (p *Provider) DiscoveryDoc() map[string]any {
	return map[string]any{
		"issuer":                                p.Issuer,
		"authorization_endpoint":                p.URL(Authorization),
		"token_endpoint":                        p.URL(Token),
		"introspection_endpoint":                p.URL(Introspection),
		"userinfo_endpoint":                     p.URL(Userinfo),
		"revocation_endpoint":                   p.URL(Revocation),
		"end_session_endpoint":                  p.URL(EndSession),
		"device_authorization_endpoint":         p.URL(DeviceAuthorization),
		"jwks_uri":                              p.URL(JWKS),
		"scopes_supported":                      []string{"openid", "profile", "email", "offline_access"},
		"response_types_supported":              []string{"code", "id_token", "id_token token"},
		"grant_types_supported":                 []string{"authorization_code", "refresh_token", "client_credentials", "urn:ietf:params:oauth:grant-type:jwt-bearer", "urn:ietf:params:oauth:grant-type:token-exchange", "urn:ietf:params:oauth:grant-type:device_code"},
		"subject_types_supported":               []string{"public"},
		"id_token_signing_alg_values_supported": []string{"RS256"},
		"token_endpoint_auth_methods_supported": []string{"client_secret_basic", "client_secret_post", "private_key_jwt", "none"},
		"code_challenge_methods_supported":      []string{"S256"},
		"claims_supported":                      []string{"sub", "aud", "exp", "iat", "iss", "name", "email"},
		"ui_locales_supported":                  []string{"en", "de"},
		"request_uri_parameter_supported":       false,
	}
}

// ServeDiscovery makes the discovery endpoint answer 200 with DiscoveryDoc() by default.
func (p *Provider) ServeDiscovery() { p.Default(Discovery, JSON(200, p.DiscoveryDoc())) }

func (p *Provider) route(endpoint string) *route {
	r := p.routes[endpoint]
	if r == nil {
		r = &route{}
		p.routes[endpoint] = r
	}
	return r
}

// Script appends answers to the queue of an endpoint; they are consumed one per request, in order.
func (p *Provider) Script(endpoint string, rs ...*Response) {
	p.mu.Lock()
	defer p.mu.Unlock()
	rt := p.route(endpoint)
	rt.script = append(rt.script, rs...)
}

// Default sets the answer an endpoint gives once its script is exhausted.
func (p *Provider) Default(endpoint string, r *Response) {
	p.mu.Lock()
	defer p.mu.Unlock()
	p.route(endpoint).def = r
}

// Handle sets a dynamic handler consulted once the script is exhausted (it wins over Default; returning nil falls
// through to Default).
func (p *Provider) Handle(endpoint string, h Handler) {
	p.mu.Lock()
	defer p.mu.Unlock()
	p.route(endpoint).handler = h
}

// Client returns a fresh *http.Client whose only transport is this provider.
func (p *Provider) Client() *http.Client { return &http.Client{Transport: p} }

// Log returns a snapshot of the request log (entries are copies: safe to read while requests are still in flight).
func (p *Provider) Log() []*Request {
	p.mu.Lock()
	defer p.mu.Unlock()
	out := make([]*Request, len(p.log))
	for i, e := range p.log {
		c := *e
		c.form = nil
		out[i] = &c
	}
	return out
}

// Count returns how many requests reached an endpoint ("" = all).
func (p *Provider) Count(endpoint string) int {
	p.mu.Lock()
	defer p.mu.Unlock()
	if endpoint == "" {
		return len(p.log)
	}
	if r := p.routes[endpoint]; r != nil {
		return r.count
	}
	return 0
}

// Requests returns the logged requests of one endpoint.
func (p *Provider) Requests(endpoint string) []*Request {
	var out []*Request
	for _, r := range p.Log() {
		if r.Endpoint == endpoint {
			out = append(out, r)
		}
	}
	return out
}

var notFound = &Response{Status: 404, Header: http.Header{"Content-Type": {"text/plain; charset=utf-8"}}, Body: []byte("404 page not found\n")}

// RoundTrip implements http.RoundTripper.
func (p *Provider) RoundTrip(req *http.Request) (*http.Response, error) {
	entry := &Request{Seq: mon.Seq(), Method: req.Method, Header: req.Header.Clone()}
	if req.URL != nil {
		entry.URL, entry.Host, entry.Path = req.URL.String(), req.URL.Host, req.URL.Path
	}
	if req.Body != nil {
		max := p.MaxRequestBody
		if max <= 0 {
			max = 1 << 20
		}
		b, _ := io.ReadAll(io.LimitReader(req.Body, int64(max)))
		_, _ = io.Copy(io.Discard, req.Body)
		_ = req.Body.Close()
		entry.Body = b
	}
	p.mu.Lock()
	endpoint, ok := p.byPath[entry.Path]
	if !ok || (p.StrictHost && entry.Host != p.host) {
		endpoint = Unknown
	}
	entry.Endpoint = endpoint
	rt := p.route(endpoint)
	entry.Index = rt.count
	rt.count++
	var resp *Response
	if len(rt.script) > 0 {
		resp = rt.script[0]
		rt.script = rt.script[1:]
	}
	handler, def := rt.handler, rt.def
	p.log = append(p.log, entry)
	p.mu.Unlock()
	if resp == nil && handler != nil {
		resp = handler(entry)
	}
	if resp == nil {
		resp = def
	}
	if resp == nil {
		resp = notFound
	}
	finish := func(status int, err error) {
		p.mu.Lock()
		entry.Status, entry.Note = status, resp.Note
		if err != nil {
			entry.Err = err.Error()
		}
		entry.DoneSeq = mon.Seq()
		p.mu.Unlock()
	}
	ctx := req.Context()
	if resp.Gate != nil {
		if err := resp.Gate.wait(ctx.Done()); err != nil {
			if ce := ctx.Err(); ce != nil {
				err = ce
			}
			finish(0, err)
			return nil, err
		}
	}
	if err := ctx.Err(); err != nil {
		finish(0, err)
		return nil, err
	}
	if resp.Abort == AbortConnect {
		finish(0, ErrAborted)
		return nil, ErrAborted
	}
	hdr := resp.Header.Clone()
	if hdr == nil {
		hdr = http.Header{}
	}
	cl := resp.ContentLength
	if cl == 0 {
		cl = int64(len(resp.Body))
	}
	var body io.ReadCloser
	if resp.Abort == AbortBody {
		n := resp.AbortAfter
		if n > len(resp.Body) {
			n = len(resp.Body)
		}
		body = &abortingBody{r: bytes.NewReader(resp.Body[:n])}
	} else {
		body = io.NopCloser(bytes.NewReader(resp.Body))
	}
	out := &http.Response{
		Status:        fmt.Sprintf("%d %s", resp.Status, http.StatusText(resp.Status)),
		StatusCode:    resp.Status,
		Proto:         "HTTP/1.1",
		ProtoMajor:    1,
		ProtoMinor:    1,
		Header:        hdr,
		Body:          body,
		ContentLength: cl,
		Request:       req,
	}
	finish(resp.Status, nil)
	return out, nil
}

type abortingBody struct{ r *bytes.Reader }

func (a *abortingBody) Read(b []byte) (int, error) {
	n, err := a.r.Read(b)
	if err == io.EOF {
		return n, io.ErrUnexpectedEOF
	}
	return n, err
}
func (a *abortingBody) Close() error { return nil }
