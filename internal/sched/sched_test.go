package sched

import (
	"sync"
	"testing"
)

func TestGoidAgrees(t *testing.T) {
	if !FastGoid() {
		t.Log("fast path not in use")
	}
	var wg sync.WaitGroup
	for i := 0; i < 200; i++ {
		wg.Add(1)
		go func() {
			defer wg.Done()
			if a, b := goid(), slowGoid(); a != b {
				t.Errorf("goid %d != %d", a, b)
			}
		}()
	}
	wg.Wait()
	t.Log("fast:", FastGoid())
}

func TestPreempt(t *testing.T) {
	var order []string
	res := Preempt(1, func() { Point("a0"); order = append(order, "a0"); Point("a1"); order = append(order, "a1") }, func() { order = append(order, "mid") }, 1e9)
	if !res.Reached || res.At != "a1" || len(order) != 3 || order[1] != "mid" {
		t.Fatalf("%+v %v", res, order)
	}
}
