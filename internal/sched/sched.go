// Package sched gives the checks schedule control INSIDE the library without touching its source.
//
// The library opens an OpenTelemetry span at the top of ~110 functions (handlers, validators, token builders,
// verifiers, client helpers). Install() registers a global TracerProvider whose spans call Point at start and end, so
// each of those places becomes a yield point - what a failpoint would be, but already compiled in. The harness's own
// boundary objects call Point as well: every vstore storage call (before the store takes its lock), every getter of
// vclient.Client and of vstore's auth requests. A Point is inert unless the calling goroutine was registered:
//
//   - Trace(fn) runs fn on the calling goroutine and returns the names of the points it passed;
//   - Preempt(k, a, mid) runs a on a goroutine of its own, parks it at its k-th point, runs mid to completion on the
//     calling goroutine, releases a and waits for it: one forced preemption of a by mid at a chosen place;
//   - Jitter(n) makes every n-th point of ANY goroutine yield the processor (wider interleavings under -race).
//
// Nothing here decides a verdict; a mid that cannot finish while a is parked (it needs something a holds) is reported
// as blocked, which callers count as inconclusive.
package sched

import (
	"context"
	"runtime"
	"strconv"
	"sync"
	"sync/atomic"
	"time"

	"go.opentelemetry.io/otel"
	"go.opentelemetry.io/otel/trace"
	"go.opentelemetry.io/otel/trace/noop"
)

type actor struct {
	n       int      // points passed so far
	names   []string // recorded names (Trace) / name of the park point
	parkAt  int      // -1 = never
	inStore int      // > 0 while the goroutine is inside a storage call (it may hold the store's lock): no yield points there
	parked  chan string
	resume  chan struct{}
}

var (
	active  atomic.Int64 // number of registered goroutines: the fast path of Point
	actors  sync.Map     // goroutine id -> *actor
	jitterN atomic.Int64
	jitterC atomic.Int64
	points  atomic.Int64 // all points passed since start (evidence)
)

// Points is the number of yield points passed by any goroutine since the process started.
func Points() int64 { return points.Load() }

func slowGoid() int64 {
	var buf [64]byte
	n := runtime.Stack(buf[:], false)
	// "goroutine 123 [running]:..."
	s := buf[len("goroutine "):n]
	i := 0
	for i < len(s) && s[i] >= '0' && s[i] <= '9' {
		i++
	}
	id, _ := strconv.ParseInt(string(s[:i]), 10, 64)
	return id
}

// Point marks a yield point. Safe to call from anywhere, at any time.
func Point(name string) {
	points.Add(1)
	if j := jitterN.Load(); j > 0 && jitterC.Add(1)%j == 0 {
		runtime.Gosched()
	}
	if active.Load() == 0 {
		return
	}
	v, ok := actors.Load(goid())
	if !ok {
		return
	}
	a := v.(*actor)
	if a.inStore > 0 {
		return
	}
	k := a.n
	a.n++
	if a.parkAt < 0 {
		a.names = append(a.names, name)
		return
	}
	if k == a.parkAt {
		a.parked <- name
		<-a.resume
	}
}

func nothing() {}

// Storage marks the entrance of a storage call: a yield point BEFORE the store takes its lock; until the returned
// function runs (deferred by the store, after its unlock) the goroutine passes no further yield points, because the
// store calls getters of request objects while it holds its lock and a goroutine parked there would block every other
// request at the storage - an artefact of the harness's single lock, not an interleaving of the library.
func Storage(name string) func() {
	Point("storage:" + name)
	if active.Load() == 0 {
		return nothing
	}
	v, ok := actors.Load(goid())
	if !ok {
		return nothing
	}
	a := v.(*actor)
	a.inStore++
	return func() { a.inStore-- }
}

// Jitter makes every n-th point yield the processor (0 switches it off).
func Jitter(n int) { jitterN.Store(int64(n)) }

// Trace runs fn on the calling goroutine and returns the points it passed, in order.
func Trace(fn func()) []string {
	a := &actor{parkAt: -1}
	id := goid()
	actors.Store(id, a)
	active.Add(1)
	defer func() { active.Add(-1); actors.Delete(id) }()
	fn()
	return a.names
}

// Result of one forced preemption.
type Result struct {
	Reached bool   // a reached its k-th point (otherwise it finished earlier and mid ran after it)
	At      string // name of that point
	Blocked bool   // mid did not finish while a was parked; a was released to let it
}

// Preempt runs a on a new goroutine until its k-th point (0-based), then runs mid on the calling goroutine, then lets a
// finish. patience bounds how long mid may run while a is parked before a is released (blocked = true).
func Preempt(k int, a func(), mid func(), patience time.Duration) Result {
	act := &actor{parkAt: k, parked: make(chan string, 1), resume: make(chan struct{})}
	done := make(chan struct{})
	active.Add(1)
	go func() {
		id := goid()
		actors.Store(id, act)
		defer func() { actors.Delete(id); active.Add(-1); close(done) }()
		a()
	}()
	var res Result
	select {
	case name := <-act.parked:
		res.Reached, res.At = true, name
	case <-done:
		mid()
		return res
	}
	midDone := make(chan struct{})
	go func() { defer close(midDone); mid() }()
	t := time.NewTimer(patience)
	select {
	case <-midDone:
		t.Stop()
		close(act.resume)
	case <-t.C:
		res.Blocked = true
		close(act.resume)
		<-midDone
	}
	<-done
	return res
}

// ---- OpenTelemetry: spans of the library as yield points ----

type provider struct{ noop.TracerProvider }

func (provider) Tracer(string, ...trace.TracerOption) trace.Tracer { return tracer{} }

type tracer struct{ noop.Tracer }

func (tracer) Start(ctx context.Context, name string, _ ...trace.SpanStartOption) (context.Context, trace.Span) {
	Point("span:" + name)
	return ctx, span{name: name}
}

type span struct {
	noop.Span
	name string
}

func (s span) End(...trace.SpanEndOption) { Point("end:" + s.name) }

var installOnce sync.Once

// Install registers the span-to-Point tracer provider process-wide (idempotent). Call it before the first request.
func Install() { installOnce.Do(func() { otel.SetTracerProvider(provider{}) }) }
