package sched

import (
	"sync"
	"sync/atomic"
	"unsafe"
)

// The identity of the calling goroutine is needed at every yield point while a goroutine is registered. Parsing it out
// of runtime.Stack walks the whole (deep) handler stack under the runtime's print lock - measured at more than half of
// the CPU of the forced-preemption parts. Faster: the goroutine descriptor is reachable through TLS, and the goroutine
// id is one of its words. Its offset is not a constant of the language, so it is CALIBRATED at start-up against the
// slow method on several goroutines, and every fast answer of the first calls is cross-checked; any disagreement
// switches the package back to the slow method for good. A wrong identity can therefore not go unnoticed, and the worst
// case is the old cost.

func getg() uintptr

//go:nocheckptr
func peek(g uintptr, off int) int64 { return *(*int64)(unsafe.Pointer(g + uintptr(off))) }

var (
	goidOff    atomic.Int64 // -1: use the slow method
	goidOnce   sync.Once
	crossCheck atomic.Int64 // the first fast answers are compared with the slow method
)

func init() { goidOff.Store(-1); crossCheck.Store(4096) }

func calibrate() {
	const probes = 8
	cands := map[int]int{}
	var mu sync.Mutex
	var wg sync.WaitGroup
	for i := 0; i < probes; i++ {
		wg.Add(1)
		go func() {
			defer wg.Done()
			id := slowGoid()
			g := getg()
			if g == 0 {
				return
			}
			mu.Lock()
			for o := 0; o < 400; o += 8 {
				if peek(g, o) == id {
					cands[o]++
				}
			}
			mu.Unlock()
		}()
	}
	wg.Wait()
	best := -1
	for o, n := range cands {
		if n == probes && (best == -1 || o < best) {
			best = o
		}
	}
	goidOff.Store(int64(best))
}

func goid() int64 {
	goidOnce.Do(calibrate)
	off := goidOff.Load()
	if off < 0 {
		return slowGoid()
	}
	id := peek(getg(), int(off))
	if crossCheck.Load() > 0 && crossCheck.Add(-1) >= 0 {
		if s := slowGoid(); s != id {
			goidOff.Store(-1) // never trust it again
			id = s
		}
	}
	return id
}

// FastGoid reports whether the calibrated fast path is in use (evidence only).
func FastGoid() bool { goidOnce.Do(calibrate); return goidOff.Load() >= 0 }
