//go:build !amd64

package sched

func goid() int64 { return slowGoid() }

// FastGoid reports whether the calibrated fast path is in use (evidence only).
func FastGoid() bool { return false }
