#include "textflag.h"

// func getg() uintptr
TEXT ·getg(SB),NOSPLIT,$0-8
	MOVQ (TLS), AX
	MOVQ AX, ret+0(FP)
	RET
