// Package opdrv builds a real op.Provider over vstore, exposes both routers
// (the Provider's own and RegisterLegacyServer(NewLegacyServer(...))), executes
// requests in-process through the recording ResponseWriter and contains the
// small "user agent" that follows authorize -> login -> callback and decodes
// query / raw fragment / form_post HTML the way a browser would.
package opdrv

import (
	"context"
	"encoding/json"
	"fmt"
	"io"
	"log/slog"
	"net/http"
	"net/http/httptest"
	"net/url"
	"strings"
	"time"

	"golang.org/x/net/html"

	"github.com/zitadel/oidc/v3/pkg/oidc"
	"github.com/zitadel/oidc/v3/pkg/op"

	"verif/internal/keys"
	"verif/internal/mon"
	"verif/internal/vclient"
	"verif/internal/vstore"

	jose "github.com/go-jose/go-jose/v4"
)

const (
	RouterProvider = 0
	RouterLegacy   = 1
)

var RouterNames = [2]string{"provider", "legacy"}

const DefaultIssuer = "https://op.verif.test"

var Discard = slog.New(slog.NewTextHandler(io.Discard, nil))

type Options struct {
	Issuer       string
	IssuerFn     func(insecure bool) (op.IssuerFromRequest, error)
	Config       op.Config
	Caps         vstore.Caps
	ProviderOpts []op.Option
	Endpoints    *op.Endpoints // LegacyServer endpoints; nil = copy of the defaults
	SigningKey   *keys.Key
	Store        *vstore.Store // reuse an existing store
	// WrapProvider, when set, puts an application-defined op.OpenIDProvider (embedding the real *op.Provider and
	// overriding some of its methods) in front of both routers, the way an application customises e.g. the
	// JWT-profile verifier
	WrapProvider func(*op.Provider) op.OpenIDProvider
	// ConfigPtr, when non-nil, is the application's own *op.Config variable: it is handed to op.NewProvider as is
	// (Config is ignored), so the caller may share it between several providers and rewrite it afterwards, the way an
	// application that builds one provider per tenant from one config variable does. nil = today's behaviour (every
	// world gets a private copy of Config).
	ConfigPtr *op.Config
}

type World struct {
	Store    *vstore.Store
	Storage  op.Storage
	Provider *op.Provider
	Handlers [2]http.Handler
	Issuer   string
	Host     string
	Opt      Options
}

// DefaultConfig enables everything that is optional.
func DefaultConfig() op.Config {
	c := op.Config{
		CodeMethodS256:           true,
		AuthMethodPost:           true,
		AuthMethodPrivateKeyJWT:  true,
		GrantTypeRefreshToken:    true,
		RequestObjectSupported:   true,
		DefaultLogoutRedirectURI: "https://op.verif.test/logged-out",
		DeviceAuthorization: op.DeviceAuthorizationConfig{
			Lifetime: 300e9, PollInterval: 5e9, UserFormPath: "/device", UserCode: op.UserCodeBase20,
		},
	}
	copy(c.CryptoKey[:], []byte("verif-crypto-key-0123456789abcdef"))
	return c
}

// DefaultEndpointsCopy returns a value copy of the library defaults (never the shared pointer).
func DefaultEndpointsCopy() op.Endpoints {
	return op.Endpoints{
		Authorization:       op.NewEndpoint("authorize"),
		Token:               op.NewEndpoint("oauth/token"),
		Introspection:       op.NewEndpoint("oauth/introspect"),
		Userinfo:            op.NewEndpoint("userinfo"),
		Revocation:          op.NewEndpoint("revoke"),
		EndSession:          op.NewEndpoint("end_session"),
		JwksURI:             op.NewEndpoint("keys"),
		DeviceAuthorization: op.NewEndpoint("/device_authorization"),
	}
}

func NewWorld(opt Options) (*World, error) {
	if opt.Issuer == "" {
		opt.Issuer = DefaultIssuer
	}
	if opt.SigningKey == nil {
		opt.SigningKey = keys.Get("op-sig-1", jose.RS256)
	}
	st := opt.Store
	if st == nil {
		st = vstore.New(opt.SigningKey)
	}
	w := &World{Store: st, Issuer: opt.Issuer, Opt: opt}
	w.Storage = st.As(opt.Caps)
	issuerFn := opt.IssuerFn
	if issuerFn == nil {
		issuerFn = op.StaticIssuer(opt.Issuer)
	}
	cfg := opt.Config
	cfgPtr := &cfg
	if opt.ConfigPtr != nil {
		cfgPtr = opt.ConfigPtr
	}
	opts := append([]op.Option{op.WithLogger(Discard)}, opt.ProviderOpts...)
	p, err := op.NewProvider(cfgPtr, w.Storage, issuerFn, opts...)
	if err != nil {
		return nil, err
	}
	w.Provider = p
	eps := DefaultEndpointsCopy()
	if opt.Endpoints != nil {
		eps = *opt.Endpoints
	}
	w.Handlers[RouterProvider] = p
	w.Handlers[RouterLegacy] = op.RegisterLegacyServer(op.NewLegacyServer(p, eps), op.AuthorizeCallbackHandler(p), op.WithFallbackLogger(Discard))
	if opt.WrapProvider != nil {
		wp := opt.WrapProvider(p)
		w.Handlers[RouterProvider] = op.CreateRouter(wp)
		w.Handlers[RouterLegacy] = op.RegisterLegacyServer(op.NewLegacyServer(wp, eps), op.AuthorizeCallbackHandler(wp), op.WithFallbackLogger(Discard))
	}
	if u, err := url.Parse(opt.Issuer); err == nil {
		w.Host = u.Host
	}
	return w, nil
}

func MustWorld(opt Options) *World {
	w, err := NewWorld(opt)
	if err != nil {
		panic("opdrv.MustWorld: " + err.Error())
	}
	return w
}

// Resp is what the monitors saw of one request.
type Resp struct {
	*mon.Recorder
	Panic    *mon.PanicInfo
	SeqStart int64
	SeqEnd   int64
	Router   int
}

// Do executes r against the chosen router in-process.
func (w *World) Do(router int, r *http.Request) *Resp {
	return Serve(w.Handlers[router], r, router)
}

func Serve(h http.Handler, r *http.Request, router int) *Resp {
	rec := mon.NewRecorder()
	resp := &Resp{Recorder: rec, Router: router, SeqStart: mon.Seq()}
	resp.Panic = mon.Catch(func() { h.ServeHTTP(rec, r) })
	resp.SeqEnd = mon.Seq()
	return resp
}

// JSON decodes the body as a JSON object (nil if it is not one).
func (r *Resp) JSON() map[string]any {
	var m map[string]any
	if err := json.Unmarshal(r.Body.Bytes(), &m); err != nil {
		return nil
	}
	return m
}

func (r *Resp) Str(key string) string {
	m := r.JSON()
	if m == nil {
		return ""
	}
	s, _ := m[key].(string)
	return s
}

// OAuthError returns the "error" member of a JSON error document.
func (r *Resp) OAuthError() string { return r.Str("error") }

func (r *Resp) Brief() string {
	b := r.Body.String()
	if len(b) > 300 {
		b = b[:300] + "..."
	}
	return fmt.Sprintf("%d loc=%q body=%q", r.Status, r.Location(), b)
}

// NewRequest builds a request; for GET the values go to the query, otherwise to a form body.
func (w *World) NewRequest(method, path string, vals url.Values) *http.Request {
	host := w.Host
	if host == "" {
		host = "op.verif.test"
	}
	target := "https://" + host + path
	var r *http.Request
	if method == http.MethodGet || method == http.MethodHead || method == http.MethodDelete {
		if len(vals) > 0 {
			if strings.Contains(target, "?") {
				target += "&" + vals.Encode()
			} else {
				target += "?" + vals.Encode()
			}
		}
		r = httptest.NewRequest(method, target, nil)
	} else {
		r = httptest.NewRequest(method, target, strings.NewReader(vals.Encode()))
		r.Header.Set("Content-Type", "application/x-www-form-urlencoded")
	}
	return r
}

// Basic sets HTTP Basic credentials the way RFC 6749 2.3.1 and the library's own client do (form-urlencoded first).
func Basic(r *http.Request, id, secret string) *http.Request {
	r.SetBasicAuth(url.QueryEscape(id), url.QueryEscape(secret))
	return r
}

// ---------- authorization flow ----------

type AuthParams struct {
	ClientID, RedirectURI, ResponseType, Scope, State, Nonce, ResponseMode string
	Challenge, ChallengeMethod, Prompt                                     string
	Extra                                                                  url.Values
}

func (p AuthParams) Values() url.Values {
	v := url.Values{}
	set := func(k, s string) {
		if s != "" {
			v.Set(k, s)
		}
	}
	set("client_id", p.ClientID)
	set("redirect_uri", p.RedirectURI)
	set("response_type", p.ResponseType)
	set("scope", p.Scope)
	set("state", p.State)
	set("nonce", p.Nonce)
	set("response_mode", p.ResponseMode)
	set("code_challenge", p.Challenge)
	set("code_challenge_method", p.ChallengeMethod)
	set("prompt", p.Prompt)
	for k, vs := range p.Extra {
		for _, x := range vs {
			v.Add(k, x)
		}
	}
	return v
}

// Authorize sends the authorization request; when the answer is the redirect to the
// login UI it returns the auth request id.
func (w *World) Authorize(router int, p AuthParams) (string, *Resp) {
	resp := w.Do(router, w.NewRequest("GET", "/authorize", p.Values()))
	return LoginRequestID(resp), resp
}

// LoginRequestID recognises the redirect to the harness' login UI.
func LoginRequestID(resp *Resp) string {
	if resp.Status == http.StatusFound && strings.HasPrefix(resp.Location(), vclient.LoginBase) {
		return strings.TrimPrefix(resp.Location(), vclient.LoginBase)
	}
	return ""
}

func (w *World) Callback(router int, reqID string) *Resp {
	return w.Do(router, w.NewRequest("GET", "/authorize/callback", url.Values{"id": {reqID}}))
}

// AuthResponse is a decoded authorization response as a user agent delivers it.
type AuthResponse struct {
	Mode     string     // "query", "fragment", "form_post", "" (none)
	Target   string     // redirect target without the response parameters (query mode: includes pre-existing query)
	Params   url.Values // the parameters the client would read
	RawLoc   string
	Forms    int
	FormErr  string
	PreQuery url.Values // full query of the Location (query and fragment mode)
}

// DecodeAuthResponse decodes what a browser would hand to the client at the redirect URI.
func DecodeAuthResponse(resp *Resp) AuthResponse {
	out := AuthResponse{Params: url.Values{}}
	if resp.Status >= 300 && resp.Status < 400 && resp.Location() != "" {
		loc := resp.Location()
		out.RawLoc = loc
		base := loc
		frag := ""
		if i := strings.Index(loc, "#"); i >= 0 {
			base, frag = loc[:i], loc[i+1:]
		}
		u, err := url.Parse(base)
		if err == nil {
			out.PreQuery = u.Query()
		}
		if frag != "" {
			out.Mode = "fragment"
			// a user agent hands the raw fragment to script, which parses it as a form
			if v, err := url.ParseQuery(frag); err == nil {
				out.Params = v
			} else {
				out.FormErr = err.Error()
			}
			out.Target = base
			return out
		}
		out.Mode = "query"
		if err == nil {
			out.Params = u.Query()
			u.RawQuery = ""
			out.Target = u.String()
		} else {
			out.Target = base
		}
		return out
	}
	if resp.Status == 200 && strings.Contains(resp.Body.String(), "<form") {
		out.Mode = "form_post"
		action, inputs, forms, err := ParseFormPost(resp.Body.String())
		out.Target, out.Params, out.Forms = action, inputs, forms
		if err != nil {
			out.FormErr = err.Error()
		}
	}
	return out
}

// ParseFormPost parses an auto-submitting form page with a real HTML parser.
func ParseFormPost(body string) (action string, inputs url.Values, forms int, err error) {
	inputs = url.Values{}
	doc, err := html.Parse(strings.NewReader(body))
	if err != nil {
		return "", inputs, 0, err
	}
	var walk func(n *html.Node, inForm bool)
	var stray []string
	walk = func(n *html.Node, inForm bool) {
		if n.Type == html.ElementNode {
			switch n.Data {
			case "form":
				forms++
				inForm = true
				if forms == 1 {
					for _, a := range n.Attr {
						if a.Key == "action" {
							action = a.Val
						}
					}
				}
			case "input":
				var name, val, typ string
				for _, a := range n.Attr {
					switch a.Key {
					case "name":
						name = a.Val
					case "value":
						val = a.Val
					case "type":
						typ = a.Val
					}
				}
				if inForm && forms == 1 {
					inputs.Add(name, val)
					if typ != "hidden" {
						stray = append(stray, "input type "+typ)
					}
				} else {
					stray = append(stray, "input outside form")
				}
			case "script", "img", "iframe", "a", "svg", "object", "embed", "link", "style":
				stray = append(stray, "element "+n.Data)
			}
			if n.Data != "body" && n.Data != "form" {
				for _, a := range n.Attr {
					if strings.HasPrefix(a.Key, "on") {
						stray = append(stray, "event handler on "+n.Data)
					}
				}
			}
		}
		for c := n.FirstChild; c != nil; c = c.NextSibling {
			walk(c, inForm)
		}
	}
	walk(doc, false)
	if len(stray) > 0 {
		err = fmt.Errorf("unexpected markup: %s", strings.Join(stray, ", "))
	}
	return action, inputs, forms, err
}

// permissiveSubject is an application-defined provider whose JWT-profile verifier carries a custom subject check
// that permits sub != iss (op.SubjectCheck, a documented option).
type permissiveSubject struct{ *op.Provider }

func (p permissiveSubject) JWTProfileVerifier(ctx context.Context) *op.JWTProfileVerifier {
	return op.NewJWTProfileVerifier(p.Storage(), op.IssuerFromContext(ctx), time.Hour, time.Second,
		op.SubjectCheck(func(*oidc.JWTTokenRequest) error { return nil }))
}

// PermissiveSubject is a WrapProvider function.
func PermissiveSubject(p *op.Provider) op.OpenIDProvider { return permissiveSubject{p} }
