package opdrv

import (
	"crypto/sha256"
	"encoding/json"
	"net/http"
	"net/url"
	"strings"
	"time"

	jose "github.com/go-jose/go-jose/v4"

	"github.com/zitadel/oidc/v3/pkg/oidc"
	"github.com/zitadel/oidc/v3/pkg/op"

	"verif/internal/keys"
	"verif/internal/vclient"
	"verif/internal/vstore"
)

// ClientAuth describes how a request presents client credentials.
type ClientAuth struct {
	Kind      string // "none", "basic", "post", "assertion", "idonly" (client_id in form only), "rawbasic" (header given verbatim)
	ID        string
	Secret    string
	Assertion string
	RawHeader string
}

func NoAuth() ClientAuth { return ClientAuth{Kind: "none"} }
func BasicAuth(id, secret string) ClientAuth {
	return ClientAuth{Kind: "basic", ID: id, Secret: secret}
}
func PostAuth(id, secret string) ClientAuth { return ClientAuth{Kind: "post", ID: id, Secret: secret} }
func IDOnly(id string) ClientAuth           { return ClientAuth{Kind: "idonly", ID: id} }
func AssertionAuth(assertion string) ClientAuth {
	return ClientAuth{Kind: "assertion", Assertion: assertion}
}

// Apply adds the credentials to form (before the request is built) and returns a header hook.
func (a ClientAuth) Apply(form url.Values) func(*http.Request) {
	switch a.Kind {
	case "post":
		form.Set("client_id", a.ID)
		form.Set("client_secret", a.Secret)
	case "idonly":
		form.Set("client_id", a.ID)
	case "assertion":
		form.Set("client_assertion", a.Assertion)
		form.Set("client_assertion_type", oidc.ClientAssertionTypeJWTAssertion)
	case "basic":
		return func(r *http.Request) { Basic(r, a.ID, a.Secret) }
	case "rawbasic":
		return func(r *http.Request) { r.Header.Set("Authorization", a.RawHeader) }
	}
	return func(*http.Request) {}
}

// Post sends a form POST with client authentication to path.
func (w *World) Post(router int, path string, form url.Values, auth ClientAuth) *Resp {
	f := url.Values{}
	for k, v := range form {
		f[k] = append([]string(nil), v...)
	}
	hook := auth.Apply(f)
	r := w.NewRequest("POST", path, f)
	hook(r)
	return w.Do(router, r)
}

func (w *World) Token(router int, form url.Values, auth ClientAuth) *Resp {
	return w.Post(router, "/oauth/token", form, auth)
}

func S256(verifier string) string {
	h := sha256.Sum256([]byte(verifier))
	return keys.B64(h[:])
}

// Verifier draws an RFC 7636 code_verifier: unreserved characters only, length from the legal boundary set
// {43, 44, 64, 127, 128} (the limits of section 4.1 and values next to them) or anywhere in between.
func Verifier(r interface{ IntN(int) int }) string {
	const alphabet = "ABCDEFGHIJKLMNOPQRSTUVWXYZabcdefghijklmnopqrstuvwxyz0123456789-._~"
	n := []int{43, 44, 64, 127, 128, 43 + r.IntN(86)}[r.IntN(6)]
	b := make([]byte, n)
	for i := range b {
		b[i] = alphabet[r.IntN(len(alphabet))]
	}
	return string(b)
}

// OtherVerifier is a legal verifier of the same length that differs from v in its last character only.
func OtherVerifier(v string) string {
	b := []byte(v)
	if b[len(b)-1] == 'A' {
		b[len(b)-1] = 'B'
	} else {
		b[len(b)-1] = 'A'
	}
	return string(b)
}

// Assertion builds a private_key_jwt / jwt-bearer assertion valid now.
func Assertion(k *keys.Key, iss, sub string, aud []string, iat, exp time.Time, extra map[string]any) string {
	m := map[string]any{"iss": iss, "sub": sub, "aud": aud, "iat": iat.Unix(), "exp": exp.Unix()}
	for kk, v := range extra {
		m[kk] = v
	}
	b, _ := json.Marshal(m)
	return keys.Sign(k, b, "")
}

func (w *World) ClientAssertion(k *keys.Key, clientID string) string {
	now := time.Now()
	return Assertion(k, clientID, clientID, []string{w.Issuer}, now.Add(-5*time.Second), now.Add(10*time.Minute), nil)
}

// LoginAndCallback plays the login UI for reqID and follows the callback.
func (w *World) LoginAndCallback(router int, reqID, user string) (AuthResponse, *Resp) {
	w.Store.CompleteLogin(reqID, user)
	resp := w.Callback(router, reqID)
	return DecodeAuthResponse(resp), resp
}

// CodeFlow runs authorize -> login -> callback and returns the code (or "" and the failing response).
func (w *World) CodeFlow(router int, p AuthParams, user string) (code string, ar AuthResponse, last *Resp) {
	reqID, resp := w.Authorize(router, p)
	if reqID == "" {
		return "", DecodeAuthResponse(resp), resp
	}
	ar, resp = w.LoginAndCallback(router, reqID, user)
	return ar.Params.Get("code"), ar, resp
}

func (w *World) ExchangeCode(router int, code, redirectURI, verifier string, auth ClientAuth) *Resp {
	f := url.Values{"grant_type": {"authorization_code"}, "code": {code}}
	if redirectURI != "" {
		f.Set("redirect_uri", redirectURI)
	}
	if verifier != "" {
		f.Set("code_verifier", verifier)
	}
	return w.Token(router, f, auth)
}

// ---------- standard client population ----------

const (
	WebRedirect    = "https://web.example/cb"
	Web2Redirect   = "https://web2.example/cb"
	PostRedirect   = "https://post.example/cb"
	NativeRedirect = "com.example.native:/cb"
	JWTRedirect    = "https://jwt.example/cb"
)

var allResp = []oidc.ResponseType{oidc.ResponseTypeCode, oidc.ResponseTypeIDTokenOnly, oidc.ResponseTypeIDToken}

// StdClients registers the standard population of clients and returns them by id.
func StdClients(st *vstore.Store) map[string]*vclient.Client {
	m := map[string]*vclient.Client{}
	add := func(c *vclient.Client) { st.AddClient(c); m[c.ID] = c }

	web := vclient.Confidential("web", "secret-web", WebRedirect)
	web.RespTypes = allResp
	web.Grants = []oidc.GrantType{oidc.GrantTypeCode, oidc.GrantTypeRefreshToken, oidc.GrantTypeTokenExchange, oidc.GrantTypeImplicit}
	web.PostLogout = []string{"https://web.example/logged-out"}
	add(web)

	web2 := vclient.Confidential("web2", "secret-web2", Web2Redirect)
	web2.RespTypes = allResp
	web2.Grants = []oidc.GrantType{oidc.GrantTypeCode, oidc.GrantTypeRefreshToken, oidc.GrantTypeTokenExchange, oidc.GrantTypeImplicit}
	web2.PostLogout = []string{"https://web2.example/logged-out"}
	add(web2)

	post := vclient.Confidential("post", "secret-post", PostRedirect)
	post.Auth = oidc.AuthMethodPost
	add(post)

	native := vclient.Public("native", NativeRedirect, "http://127.0.0.1/cb")
	add(native)

	jwt := vclient.Confidential("jwt", "", JWTRedirect)
	jwt.Auth = oidc.AuthMethodPrivateKeyJWT
	jwt.Grants = []oidc.GrantType{oidc.GrantTypeCode, oidc.GrantTypeRefreshToken, oidc.GrantTypeTokenExchange}
	add(jwt)
	st.AddClientKey("jwt", ClientKey("jwt"))

	svc := vclient.Confidential("svc", "secret-svc")
	svc.ServiceUser = true
	svc.Grants = []oidc.GrantType{oidc.GrantTypeClientCredentials, oidc.GrantTypeBearer, oidc.GrantTypeTokenExchange}
	svc.RespTypes = nil
	add(svc)
	st.AddClientKey("svc", ClientKey("svc"))

	dev := vclient.Confidential("dev", "secret-dev")
	dev.Grants = []oidc.GrantType{oidc.GrantTypeDeviceCode, oidc.GrantTypeRefreshToken}
	dev.RespTypes = nil
	add(dev)

	devpub := vclient.Public("devpub")
	devpub.Grants = []oidc.GrantType{oidc.GrantTypeDeviceCode, oidc.GrantTypeRefreshToken}
	devpub.RespTypes = nil
	add(devpub)
	return m
}

// ClientKey is the RS256 key registered for a private_key_jwt client.
func ClientKey(clientID string) *keys.Key {
	return keys.Get("ckey-"+clientID, jose.RS256)
}

// AuthFor returns the correct credential presentation for a standard client.
func (w *World) AuthFor(c *vclient.Client) ClientAuth {
	switch c.Auth {
	case oidc.AuthMethodNone:
		return IDOnly(c.ID)
	case oidc.AuthMethodPost:
		return PostAuth(c.ID, c.Secret)
	case oidc.AuthMethodPrivateKeyJWT:
		return AssertionAuth(w.ClientAssertion(ClientKey(c.ID), c.ID))
	}
	return BasicAuth(c.ID, c.Secret)
}

// Tokens is a decoded token response.
type Tokens struct {
	Access, Refresh, ID, TokenType, Scope, IssuedType string
	ExpiresIn                                         float64
	Raw                                               map[string]any
}

func DecodeTokens(r *Resp) *Tokens {
	m := r.JSON()
	if r.Status != 200 || m == nil {
		return nil
	}
	t := &Tokens{Raw: m}
	t.Access, _ = m["access_token"].(string)
	t.Refresh, _ = m["refresh_token"].(string)
	t.ID, _ = m["id_token"].(string)
	t.TokenType, _ = m["token_type"].(string)
	t.Scope, _ = m["scope"].(string)
	t.IssuedType, _ = m["issued_token_type"].(string)
	t.ExpiresIn, _ = m["expires_in"].(float64)
	return t
}

// MintCode obtains tokens through the real code flow for a standard client.
func (w *World) MintCode(router int, c *vclient.Client, scope, user string) *Tokens {
	p := AuthParams{ClientID: c.ID, RedirectURI: c.Redirects[0], ResponseType: "code", Scope: scope, State: "st"}
	verifier := ""
	if c.Auth == oidc.AuthMethodNone {
		verifier = "verifier-0123456789-0123456789-0123456789-abcdef"
		p.Challenge, p.ChallengeMethod = S256(verifier), "S256"
	}
	code, _, _ := w.CodeFlow(router, p, user)
	if code == "" {
		return nil
	}
	return DecodeTokens(w.ExchangeCode(router, code, c.Redirects[0], verifier, w.AuthFor(c)))
}

// OpaqueTokenID decrypts an opaque access token with the provider key and returns (tokenID, subject).
func (w *World) OpaqueTokenID(token string) (string, string, bool) {
	plain, err := w.Provider.Crypto().Decrypt(token)
	if err != nil {
		return "", "", false
	}
	// "<token id>:<subject>": token ids never contain a colon, a subject may
	id, sub, ok := strings.Cut(plain, ":")
	if !ok {
		return "", "", false
	}
	return id, sub, true
}

// TokenID resolves an access token string (opaque or JWT) to the stored token id.
func (w *World) TokenID(token string) string {
	if strings.Count(token, ".") == 2 {
		var c struct {
			JTI string `json:"jti"`
		}
		if json.Unmarshal(keys.PayloadOf(token), &c) == nil && c.JTI != "" {
			return c.JTI
		}
	}
	id, _, _ := w.OpaqueTokenID(token)
	return id
}

var _ = op.AccessTokenTypeJWT

// VerifyWithOPKey verifies a compact JWS against the provider's published signing key and returns the payload.
func (w *World) VerifyWithOPKey(token string) (map[string]any, error) {
	k := w.Store.SigningKeyOf()
	jws, err := jose.ParseSigned(token, []jose.SignatureAlgorithm{k.Alg})
	if err != nil {
		return nil, err
	}
	payload, err := jws.Verify(k.Public())
	if err != nil {
		return nil, err
	}
	var m map[string]any
	if err := json.Unmarshal(payload, &m); err != nil {
		return nil, err
	}
	return m, nil
}

// AudContains reports whether a decoded "aud" claim (string or array) contains v.
func AudContains(aud any, v string) bool {
	switch a := aud.(type) {
	case string:
		return a == v
	case []any:
		for _, x := range a {
			if s, ok := x.(string); ok && s == v {
				return true
			}
		}
	}
	return false
}
