// Package ev holds the verdict / evidence / replay / known-findings plumbing shared by all checks.
//
// Contract with the outside (MANIFEST.json): a check process prints
//
//	VIOLATION property=<id> replay=<path>
//
// on stdout for every distinct violation signature that is not listed in
// /verif/known_findings.json, prints "KNOWN-FINDING: property=<id> <what>" for
// every listed one it reproduced, rewrites /verif/evidence/<id>.json and exits
// 0 (held on everything explored), 1 (violation) or 2 (inconclusive: nothing
// can be said; no VIOLATION line is printed in that case).
package ev

import (
	"crypto/sha256"
	"encoding/hex"
	"encoding/json"
	"fmt"
	"math/rand/v2"
	"os"
	"path/filepath"
	"runtime"
	"sort"
	"strconv"
	"strings"
	"sync"
	"sync/atomic"
	"time"
)

// Root is the directory of the verification framework.
var Root = func() string {
	if r := os.Getenv("VERIF_ROOT"); r != "" {
		return r
	}
	return "/verif"
}()

// Out is where evidence and replay files go: Root, unless the scratch mode of ./check set VERIF_OUT.
var Out = func() string {
	if r := os.Getenv("VERIF_OUT"); r != "" {
		return r
	}
	return Root
}()

type Tier string

const (
	Quick    Tier = "quick"
	Thorough Tier = "thorough"
)

type knownFile struct {
	Known []struct {
		Property string `json:"property"`
		Key      string `json:"key"`
		What     string `json:"what"`
	} `json:"known"`
	Fixed []struct {
		Property string `json:"property"`
		Commit   string `json:"commit"`
		What     string `json:"what"`
	} `json:"fixed"`
}

// Run collects what one check process observed.
type Run struct {
	ID    string
	Tier  Tier
	Seed  int64
	Level string
	start time.Time

	mu           sync.Mutex
	evals        atomic.Int64
	inconclusive atomic.Int64
	distinct     map[string]struct{}
	hist         map[string]map[string]int64
	samples      []any
	maxSamples   int
	violations   map[string]string // signature -> replay path
	vioOrder     []string
	knownSeen    map[string]string
	known        map[string]string // key -> what
	extra        map[string]any
	assumptions  []string
	rule         string
	exhaustive   bool
	mandatory    map[string]bool
	harnessBugs  []string
	replayCase   int64 // -1: none
	replayData   json.RawMessage
}

// Start initialises a run from the environment: VERIF_TIER (quick|thorough),
// VERIF_SEED (int, default 1), and optional "--replay <path>" argument.
func Start(id, level string) *Run {
	r := &Run{
		ID: id, Level: level, start: time.Now(),
		distinct: map[string]struct{}{}, hist: map[string]map[string]int64{},
		violations: map[string]string{}, knownSeen: map[string]string{}, known: map[string]string{},
		extra: map[string]any{}, maxSamples: 8, mandatory: map[string]bool{}, replayCase: -1,
	}
	r.Tier = Quick
	if t := os.Getenv("VERIF_TIER"); t == "thorough" {
		r.Tier = Thorough
	}
	for i, a := range os.Args {
		if a == "thorough" || a == "quick" {
			r.Tier = Tier(a)
		}
		if a == "--replay" && i+1 < len(os.Args) {
			b, err := os.ReadFile(os.Args[i+1])
			if err != nil {
				fmt.Printf("INCONCLUSIVE property=%s cannot read replay file: %v\n", id, err)
				os.Exit(2)
			}
			var rp struct {
				Seed int64           `json:"seed"`
				Tier Tier            `json:"tier"`
				Case int64           `json:"case"`
				Data json.RawMessage `json:"witness"`
			}
			if err := json.Unmarshal(b, &rp); err == nil {
				r.replayCase = rp.Case
				r.replayData = rp.Data
				if rp.Tier != "" {
					r.Tier = rp.Tier
				}
				os.Setenv("VERIF_SEED", strconv.FormatInt(rp.Seed, 10))
			}
		}
	}
	r.Seed = 1
	if s := os.Getenv("VERIF_SEED"); s != "" {
		if v, err := strconv.ParseInt(s, 10, 64); err == nil {
			r.Seed = v
		}
	}
	var kf knownFile
	if b, err := os.ReadFile(filepath.Join(Root, "known_findings.json")); err == nil {
		if err := json.Unmarshal(b, &kf); err != nil {
			fmt.Printf("INCONCLUSIVE property=%s known_findings.json unreadable: %v\n", id, err)
			os.Exit(2)
		}
	}
	for _, k := range kf.Known {
		if k.Property == id {
			r.known[k.Key] = k.What
		}
	}
	return r
}

// ReplayCase returns the case index requested by --replay, or -1.
func (r *Run) ReplayCase() int64 { return r.replayCase }

// ReplayWitness returns the witness of the replay file (may be nil).
func (r *Run) ReplayWitness() json.RawMessage { return r.replayData }

// N picks the size for the current tier.
func (r *Run) N(quick, thorough int) int {
	if r.Tier == Thorough {
		return thorough
	}
	return quick
}

// Rand returns the deterministic PRNG of a worker / stream.
func (r *Run) Rand(stream uint64) *rand.Rand {
	return rand.New(rand.NewPCG(uint64(r.Seed), stream*0x9e3779b97f4a7c15+0x1234567))
}

func (r *Run) SetRule(rule string)     { r.rule = rule }
func (r *Run) SetExhaustive(b bool)    { r.exhaustive = b }
func (r *Run) Assume(a ...string)      { r.assumptions = append(r.assumptions, a...) }
func (r *Run) Eval()                   { r.evals.Add(1) }
func (r *Run) EvalN(n int)             { r.evals.Add(int64(n)) }
func (r *Run) Inconclusive(why string) { r.inconclusive.Add(1); r.Count("inconclusive", why) }

// Distinct records a non-trivial case under its dimension vector key.
func (r *Run) Distinct(key string) {
	r.mu.Lock()
	r.distinct[key] = struct{}{}
	r.mu.Unlock()
}

// Count increments a histogram bucket (what the monitors observed).
func (r *Run) Count(hist, bucket string) {
	r.mu.Lock()
	h := r.hist[hist]
	if h == nil {
		h = map[string]int64{}
		r.hist[hist] = h
	}
	h[bucket]++
	r.mu.Unlock()
}

func (r *Run) CountN(hist, bucket string, n int64) {
	r.mu.Lock()
	h := r.hist[hist]
	if h == nil {
		h = map[string]int64{}
		r.hist[hist] = h
	}
	h[bucket] += n
	r.mu.Unlock()
}

// Get returns a histogram bucket.
func (r *Run) Get(hist, bucket string) int64 {
	r.mu.Lock()
	defer r.mu.Unlock()
	return r.hist[hist][bucket]
}

// Sample keeps up to maxSamples literal cases for the evidence file.
func (r *Run) Sample(s any) {
	r.mu.Lock()
	if len(r.samples) < r.maxSamples {
		r.samples = append(r.samples, s)
	}
	r.mu.Unlock()
}

// SampleKind keeps one sample per kind (so that samples are diverse).
func (r *Run) SampleKind(kind string, s any) {
	r.mu.Lock()
	k := "sample:" + kind
	if _, ok := r.extra[k]; !ok && len(r.samples) < 12 {
		r.extra[k] = true
		r.samples = append(r.samples, map[string]any{"kind": kind, "case": s})
	}
	r.mu.Unlock()
}

func (r *Run) Extra(k string, v any) {
	r.mu.Lock()
	r.extra[k] = v
	r.mu.Unlock()
}

// Mandatory declares a scenario that must have been observed at least once for
// the run to count; Observed marks it.
func (r *Run) Mandatory(names ...string) {
	r.mu.Lock()
	for _, n := range names {
		if _, ok := r.mandatory[n]; !ok {
			r.mandatory[n] = false
		}
	}
	r.mu.Unlock()
}
func (r *Run) Observed(name string) {
	r.mu.Lock()
	r.mandatory[name] = true
	r.mu.Unlock()
}

// HarnessBug records a defect of the harness itself (a panic in /verif code, an
// impossible state): the run becomes INCONCLUSIVE, never a violation.
func (r *Run) HarnessBug(what string) {
	r.mu.Lock()
	if len(r.harnessBugs) < 20 {
		r.harnessBugs = append(r.harnessBugs, what)
	}
	r.mu.Unlock()
}

// Violation reports one violated case. key is the canonical signature of the
// failing input class / call site (compared against known_findings.json);
// witness is written to the replay file. Returns true if it is new.
func (r *Run) Violation(key string, caseIdx int64, what string, witness any) bool {
	r.mu.Lock()
	defer r.mu.Unlock()
	if w, ok := r.known[key]; ok {
		if _, seen := r.knownSeen[key]; !seen {
			r.knownSeen[key] = w
		}
		h := r.hist["known_finding_hits"]
		if h == nil {
			h = map[string]int64{}
			r.hist["known_finding_hits"] = h
		}
		h[key]++
		return false
	}
	if _, ok := r.violations[key]; ok {
		h := r.hist["violation_hits"]
		if h == nil {
			h = map[string]int64{}
			r.hist["violation_hits"] = h
		}
		h[key]++
		return false
	}
	sum := sha256.Sum256([]byte(key))
	name := fmt.Sprintf("%s-%s-%s.json", r.ID, r.Tier, hex.EncodeToString(sum[:6]))
	path := filepath.Join(Out, "replay", name)
	_ = os.MkdirAll(filepath.Dir(path), 0o755)
	doc := map[string]any{
		"property": r.ID, "key": key, "what": what, "seed": r.Seed, "tier": r.Tier,
		"case": caseIdx, "witness": witness,
	}
	b, err := json.MarshalIndent(doc, "", " ")
	if err != nil {
		b, _ = json.Marshal(map[string]any{"property": r.ID, "key": key, "what": what, "seed": r.Seed, "tier": r.Tier, "case": caseIdx, "witness": fmt.Sprintf("%+v", witness)})
	}
	_ = os.WriteFile(path, b, 0o644)
	r.violations[key] = path
	r.vioOrder = append(r.vioOrder, key)
	fmt.Printf("VIOLATION-DETAIL property=%s key=%q what=%q\n", r.ID, key, what)
	return true
}

// Violations returns the number of distinct unlisted violations so far.
func (r *Run) Violations() int {
	r.mu.Lock()
	defer r.mu.Unlock()
	return len(r.violations)
}

// Finish writes the evidence file, prints the verdict lines and exits.
func (r *Run) Finish() {
	r.mu.Lock()
	wall := time.Since(r.start).Seconds()
	cov := map[string]any{
		"evaluations":         r.evals.Load(),
		"distinct_nontrivial": len(r.distinct),
		"rule":                r.rule,
		"samples":             r.samples,
		"inconclusive_cases":  r.inconclusive.Load(),
		"observed":            r.hist,
		"exhaustive":          r.exhaustive,
		"go":                  runtime.Version(),
	}
	for k, v := range r.extra {
		if !strings.HasPrefix(k, "sample:") {
			cov[k] = v
		}
	}
	if len(r.samples) == 0 {
		cov["samples"] = []any{}
	}
	var missing []string
	for n, ok := range r.mandatory {
		if !ok {
			missing = append(missing, n)
		}
	}
	sort.Strings(missing)
	if len(missing) > 0 {
		cov["mandatory_scenarios_not_observed"] = missing
	}
	if len(r.harnessBugs) > 0 {
		cov["harness_bugs"] = r.harnessBugs
	}
	kf := []string{}
	for k := range r.knownSeen {
		kf = append(kf, k)
	}
	sort.Strings(kf)
	cov["known_findings_reproduced"] = kf
	doc := map[string]any{
		"property_id": r.ID, "tier": r.Tier, "seed": r.Seed, "level": r.Level,
		"coverage": cov, "assumptions": r.assumptions, "wall_s": wall,
		"violations": len(r.violations),
	}
	if len(r.assumptions) == 0 {
		doc["assumptions"] = []string{}
	}
	b, err := json.MarshalIndent(doc, "", " ")
	if err != nil {
		fmt.Printf("INCONCLUSIVE property=%s cannot marshal evidence: %v\n", r.ID, err)
		os.Exit(2)
	}
	_ = os.MkdirAll(filepath.Join(Out, "evidence"), 0o755)
	if err := os.WriteFile(filepath.Join(Out, "evidence", r.ID+".json"), append(b, '\n'), 0o644); err != nil {
		fmt.Printf("INCONCLUSIVE property=%s cannot write evidence: %v\n", r.ID, err)
		os.Exit(2)
	}
	for _, k := range kf {
		fmt.Printf("KNOWN-FINDING: property=%s %s [%s]\n", r.ID, r.knownSeen[k], k)
	}
	evals, inc := r.evals.Load(), r.inconclusive.Load()
	fmt.Printf("SUMMARY property=%s tier=%s seed=%d evaluations=%d distinct_nontrivial=%d inconclusive=%d violations=%d known=%d wall_s=%.1f\n",
		r.ID, r.Tier, r.Seed, evals, len(r.distinct), inc, len(r.violations), len(kf), wall)
	if len(r.violations) > 0 {
		for _, k := range r.vioOrder {
			fmt.Printf("VIOLATION property=%s replay=%s\n", r.ID, r.violations[k])
		}
		r.mu.Unlock()
		os.Exit(1)
	}
	r.mu.Unlock()
	switch {
	case len(r.harnessBugs) > 0:
		fmt.Printf("INCONCLUSIVE property=%s harness defect: %s\n", r.ID, r.harnessBugs[0])
		os.Exit(2)
	case len(missing) > 0:
		fmt.Printf("INCONCLUSIVE property=%s mandatory scenarios never observed: %v\n", r.ID, missing)
		os.Exit(2)
	case evals == 0 || len(r.distinct) < 2:
		fmt.Printf("INCONCLUSIVE property=%s observed nothing non-trivial\n", r.ID)
		os.Exit(2)
	case inc*20 > evals:
		fmt.Printf("INCONCLUSIVE property=%s %d of %d cases inconclusive (>5%%)\n", r.ID, inc, evals)
		os.Exit(2)
	}
	fmt.Printf("HELD property=%s on everything explored\n", r.ID)
	os.Exit(0)
}

// Parallel runs fn(worker, i) for i in [0,n) on up to 16 workers; the partition
// is deterministic (i mod workers), every worker owns its PRNG stream.
func Parallel(n int, workers int, fn func(worker int, i int)) {
	if workers <= 0 {
		workers = runtime.NumCPU()
		if workers > 16 {
			workers = 16
		}
	}
	if workers > n {
		workers = n
	}
	if workers <= 1 {
		for i := 0; i < n; i++ {
			fn(0, i)
		}
		return
	}
	var wg sync.WaitGroup
	for w := 0; w < workers; w++ {
		wg.Add(1)
		go func(w int) {
			defer wg.Done()
			for i := w; i < n; i += workers {
				fn(w, i)
			}
		}(w)
	}
	wg.Wait()
}

// CaseRand is the PRNG of case i: a pure function of (seed, stream, i), so a
// single case can be replayed without running its predecessors.
func (r *Run) CaseRand(stream uint64, i int) *rand.Rand {
	return rand.New(rand.NewPCG(uint64(r.Seed)^(stream<<32), uint64(i)*0x9e3779b97f4a7c15+stream))
}
