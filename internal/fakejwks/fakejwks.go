// Package fakejwks is a scripted, gated JWKS endpoint played by an http.RoundTripper.
//
// It stands in for the remote provider's jwks_uri when rp.NewRemoteKeySet is driven
// by a check. Every download (one RoundTrip) is answered according to a per-phase
// script: deliver the current document, answer 500, deliver truncated JSON, deliver
// `{"keys":5}`, fail the body read, or abort the connection; any of these may first
// be *held* behind a gate until the harness releases it, which is how interleavings
// are forced without sleeps. A held request honours the request context exactly like
// a real transport (cancellation aborts it with the context's error). Every download
// is logged with stamps from the one monotonic counter mon.Seq and with the identity
// of the caller whose context the request carries (see WithCaller).
//
// The server itself never starts goroutines and never sleeps.
package fakejwks

import (
	"bytes"
	"context"
	"errors"
	"fmt"
	"io"
	"net/http"
	"sync"

	"verif/internal/mon"
)

// Kind is what a download is answered with.
type Kind int

const (
	Deliver      Kind = iota // 200 + the current document
	Status500                // 500 + plain text
	Truncated                // 200 + the first half of the current document
	KeysNotArray             // 200 + {"keys":5}
	BodyReadErr              // 200, the body fails with io.ErrUnexpectedEOF after some bytes
	Abort                    // transport error (connection reset), no response
	OAuthErr400              // 400 + {"error":"server_error"} (decoded by the library as *oidc.Error)
	StatusBody               // Step.Status + Step.Body: any status code with any of the BodyKind documents
)

// BodyKind is the document of a StatusBody step.
type BodyKind int

const (
	BodyCurrent     BodyKind = iota // the JWKS document currently served
	BodyForeign                     // the alternative document (SetAltBody): a JWKS with a key nobody serves
	BodyEmptyObject                 // {}
	BodyMessage                     // {"message":"upstream down"} (a gateway's JSON error page, no "error" member)
	BodyEmptyKeys                   // {"keys":[]}
	BodyArray                       // []
	BodyEmpty                       // no bytes
	BodyHTML                        // an HTML error page
)

var bodyNames = map[BodyKind]string{BodyCurrent: "current-jwks", BodyForeign: "foreign-jwks", BodyEmptyObject: "empty-object", BodyMessage: "json-message",
	BodyEmptyKeys: "empty-keys", BodyArray: "json-array", BodyEmpty: "no-body", BodyHTML: "html"}

func (b BodyKind) String() string { return bodyNames[b] }

var kindNames = map[Kind]string{Deliver: "deliver", Status500: "http500", Truncated: "truncated", KeysNotArray: "keys-not-array",
	BodyReadErr: "body-read-error", Abort: "abort", OAuthErr400: "oauth-error-400", StatusBody: "status-body"}

func (k Kind) String() string { return kindNames[k] }

// Faulty tells whether a download of this kind can not yield keys.
func (k Kind) Faulty() bool { return k != Deliver }

// Step is the scripted behaviour of one download.
type Step struct {
	Kind   Kind
	Hold   bool     // park the request at a gate until Release / ReleaseAll (or until its context ends)
	Status int      // StatusBody only
	Body   BodyKind // StatusBody only
}

func (s Step) name() string {
	if s.Kind == StatusBody {
		return fmt.Sprintf("status-%d+%s", s.Status, s.Body)
	}
	return s.Kind.String()
}

func (s Step) String() string {
	if s.Hold {
		return "hold+" + s.name()
	}
	return s.name()
}

// EmptySet200 tells whether the step answers 200 with a well-formed but empty key set ({} or {"keys":[]}).
func (s Step) EmptySet200() bool {
	return s.Kind == StatusBody && s.Status == 200 && (s.Body == BodyEmptyObject || s.Body == BodyEmptyKeys)
}

// Faulty tells whether a download answered by this step can not yield the served keys: everything but Deliver and
// 200 + current document. (EmptySet200 is "faulty" in this sense too; the checks treat it as a class of its own.)
func (s Step) Faulty() bool {
	if s.Kind == StatusBody {
		return !(s.Status == 200 && s.Body == BodyCurrent)
	}
	return s.Kind != Deliver
}

// NonOKWithJWKS tells whether the step answers a status other than 200 with a body that is a well-formed JWKS document.
func (s Step) NonOKWithJWKS() bool {
	return s.Kind == StatusBody && s.Status != 200 && (s.Body == BodyCurrent || s.Body == BodyForeign || s.Body == BodyEmptyKeys)
}

// Download is one logged request.
type Download struct {
	Idx      int    `json:"idx"`   // index within the phase
	Owner    int    `json:"owner"` // caller id carried by the request context (-1: none)
	Step     string `json:"step"`
	Outcome  string `json:"outcome"` // deliver | http500 | ... | ctx-cancelled
	StartSeq int64  `json:"start"`
	EndSeq   int64  `json:"end"` // 0 while in flight
	Held     bool   `json:"held"`
	step     Step
	ok       bool
}

// OK tells whether the download handed a well-formed key set document to the client.
func (d Download) OK() bool { return d.ok }

// ScriptedFaulty tells whether the script meant this download to fail (whatever ended it in fact).
func (d Download) ScriptedFaulty() bool { return d.step.Faulty() }

// EmptySet tells whether the download answered 200 with a well-formed but empty key set.
func (d Download) EmptySet() bool {
	return d.step.EmptySet200() && d.Outcome != "ctx-cancelled" && d.EndSeq != 0
}

// ScriptStep returns the scripted step of the download.
func (d Download) ScriptStep() Step { return d.step }

// Cancelled tells whether the download ended because its request context ended.
func (d Download) Cancelled() bool { return d.Outcome == "ctx-cancelled" }

type callerKey struct{}

// WithCaller tags a caller's context; a download started under (a descendant of) it is attributed to id.
func WithCaller(ctx context.Context, id int) context.Context {
	return context.WithValue(ctx, callerKey{}, id)
}

// CallerOf returns the tag, or -1.
func CallerOf(ctx context.Context) int {
	if v, ok := ctx.Value(callerKey{}).(int); ok {
		return v
	}
	return -1
}

// Server is the endpoint. The zero value is not usable; call New.
type Server struct {
	mu         sync.Mutex
	body       []byte
	alt        []byte
	script     []Step
	def        Step
	log        []*Download
	gates      map[int]chan struct{}
	releaseAll bool
	waiting    int // requests currently parked at a closed gate
	total      int // downloads over the whole life of the server
}

func New() *Server { return &Server{gates: map[int]chan struct{}{}} }

// SetAltBody installs the document of BodyForeign steps (kept across phases).
func (s *Server) SetAltBody(b []byte) {
	s.mu.Lock()
	s.alt = append([]byte(nil), b...)
	s.mu.Unlock()
}

// Client returns an *http.Client whose every request is answered by s.
func (s *Server) Client() *http.Client { return &http.Client{Transport: s} }

// BeginPhase installs the document served from now on and the script of the next downloads
// (download i of the phase follows script[i], later ones def), and starts a new log.
// It must be called while no request is in flight.
func (s *Server) BeginPhase(body []byte, script []Step, def Step) {
	s.mu.Lock()
	defer s.mu.Unlock()
	s.body = append([]byte(nil), body...)
	s.script = append([]Step(nil), script...)
	s.def = def
	s.log = nil
	s.gates = map[int]chan struct{}{}
	s.releaseAll = false
	s.waiting = 0
}

func (s *Server) gateLocked(idx int) chan struct{} {
	g, ok := s.gates[idx]
	if !ok {
		g = make(chan struct{})
		if s.releaseAll {
			close(g)
		}
		s.gates[idx] = g
	}
	return g
}

// Release opens the gate of download idx of the phase (before or after it arrived). Idempotent.
func (s *Server) Release(idx int) {
	s.mu.Lock()
	defer s.mu.Unlock()
	g := s.gateLocked(idx)
	select {
	case <-g:
	default:
		close(g)
	}
}

// ReleaseAll opens every gate of the phase, present and future.
func (s *Server) ReleaseAll() {
	s.mu.Lock()
	defer s.mu.Unlock()
	s.releaseAll = true
	for _, g := range s.gates {
		select {
		case <-g:
		default:
			close(g)
		}
	}
}

// Waiting returns the number of requests parked at a closed gate right now.
func (s *Server) Waiting() int {
	s.mu.Lock()
	defer s.mu.Unlock()
	return s.waiting
}

// InFlight returns the number of requests that entered RoundTrip and did not leave it yet.
func (s *Server) InFlight() int {
	s.mu.Lock()
	defer s.mu.Unlock()
	n := 0
	for _, d := range s.log {
		if d.EndSeq == 0 {
			n++
		}
	}
	return n
}

// Log returns a copy of the phase's request log.
func (s *Server) Log() []Download {
	s.mu.Lock()
	defer s.mu.Unlock()
	out := make([]Download, len(s.log))
	for i, d := range s.log {
		out[i] = *d
	}
	return out
}

// Total returns the number of downloads since New.
func (s *Server) Total() int {
	s.mu.Lock()
	defer s.mu.Unlock()
	return s.total
}

type failingBody struct {
	r io.Reader
}

func (f *failingBody) Read(p []byte) (int, error) {
	n, err := f.r.Read(p)
	if err == io.EOF {
		return n, io.ErrUnexpectedEOF
	}
	return n, err
}
func (f *failingBody) Close() error { return nil }

// RoundTrip implements http.RoundTripper.
func (s *Server) RoundTrip(req *http.Request) (*http.Response, error) {
	ctx := req.Context()
	s.mu.Lock()
	idx := len(s.log)
	step := s.def
	if idx < len(s.script) {
		step = s.script[idx]
	}
	d := &Download{Idx: idx, Owner: CallerOf(ctx), Step: step.String(), StartSeq: mon.Seq(), step: step}
	s.log = append(s.log, d)
	s.total++
	var gate chan struct{}
	if step.Hold {
		gate = s.gateLocked(idx)
		select {
		case <-gate:
			gate = nil
		default:
			d.Held = true
			s.waiting++
		}
	}
	s.mu.Unlock()

	finish := func(outcome string, ok bool) {
		s.mu.Lock()
		d.Outcome, d.ok = outcome, ok
		d.EndSeq = mon.Seq()
		s.mu.Unlock()
	}
	if gate != nil {
		select {
		case <-gate:
			s.mu.Lock()
			s.waiting--
			s.mu.Unlock()
		case <-ctx.Done():
			s.mu.Lock()
			s.waiting--
			s.mu.Unlock()
			finish("ctx-cancelled", false)
			return nil, ctx.Err()
		}
	}
	// a real transport refuses to work for a context that is already over
	if err := ctx.Err(); err != nil {
		finish("ctx-cancelled", false)
		return nil, err
	}
	s.mu.Lock()
	body, alt := s.body, s.alt
	s.mu.Unlock()
	mk := func(code int, b []byte, ctype string) *http.Response {
		return &http.Response{
			StatusCode: code, Status: fmt.Sprintf("%d %s", code, http.StatusText(code)),
			Proto: "HTTP/1.1", ProtoMajor: 1, ProtoMinor: 1,
			Header:        http.Header{"Content-Type": []string{ctype}},
			Body:          io.NopCloser(bytes.NewReader(b)),
			ContentLength: int64(len(b)), Request: req,
		}
	}
	switch step.Kind {
	case StatusBody:
		var b []byte
		ctype := "application/json"
		switch step.Body {
		case BodyCurrent:
			b = body
		case BodyForeign:
			b = alt
		case BodyEmptyObject:
			b = []byte(`{}`)
		case BodyMessage:
			b = []byte(`{"message":"upstream down"}`)
		case BodyEmptyKeys:
			b = []byte(`{"keys":[]}`)
		case BodyArray:
			b = []byte(`[]`)
		case BodyEmpty:
			b = nil
		case BodyHTML:
			b, ctype = []byte("<html><head><title>502 Bad Gateway</title></head><body><center><h1>502 Bad Gateway</h1></center></body></html>"), "text/html"
		}
		resp := mk(step.Status, b, ctype) // note: a 3xx carries no Location header, so the client hands it back as it is
		finish(step.name(), !step.Faulty())
		return resp, nil
	case Deliver:
		resp := mk(200, body, "application/json")
		finish("deliver", true)
		return resp, nil
	case Status500:
		resp := mk(500, []byte("internal server error"), "text/plain")
		finish("http500", false)
		return resp, nil
	case OAuthErr400:
		resp := mk(400, []byte(`{"error":"server_error","error_description":"jwks unavailable"}`), "application/json")
		finish("oauth-error-400", false)
		return resp, nil
	case Truncated:
		resp := mk(200, body[:len(body)/2], "application/json")
		finish("truncated", false)
		return resp, nil
	case KeysNotArray:
		resp := mk(200, []byte(`{"keys":5}`), "application/json")
		finish("keys-not-array", false)
		return resp, nil
	case BodyReadErr:
		resp := mk(200, nil, "application/json")
		resp.Body = &failingBody{r: bytes.NewReader(body[:len(body)/3])}
		resp.ContentLength = -1
		finish("body-read-error", false)
		return resp, nil
	default:
		finish("abort", false)
		return nil, errors.New("fakejwks: read tcp: connection reset by peer")
	}
}
