package vstore

import "sync"

// Strict deletes: by default DeleteAuthRequest is idempotent (deleting an auth request that is already gone answers
// nil, as a `DELETE ... WHERE id = ?` does). A storage may just as well report that nothing was deleted (a
// compare-and-delete, `RowsAffected() == 0`, a key-value store's ErrKeyNotFound): SetStrictDelete(true) makes
// DeleteAuthRequest of an unknown id fail with the store's not-found error (which implements the library's
// op.StorageNotFoundError marker). It is a storage-side failure that is not an injected fault: journaled with Err,
// Fault unset. Off (the zero value, nothing registered) = today's behaviour.

var strictDeletes sync.Map // *Store -> struct{}

// SetStrictDelete switches the strict DeleteAuthRequest on or off for this store.
func (s *Store) SetStrictDelete(on bool) {
	if on {
		strictDeletes.Store(s, struct{}{})
		return
	}
	strictDeletes.Delete(s)
}

func (s *Store) strictDelete() bool {
	_, ok := strictDeletes.Load(s)
	return ok
}
