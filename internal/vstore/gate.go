package vstore

import "sync"

// Gates: a check can park a function at the entrance of a storage call to force an interleaving ("request A has
// looked the refresh token up; now request B runs to completion; then A's rotation call enters the storage").
// The function runs on the goroutine of the calling handler BEFORE the store takes its lock, so it may use the
// store and the provider freely (e.g. serve a complete second request). No gate installed = today's behaviour.
//
// Gated calls so far: CreateAccessAndRefreshTokens (args: the current refresh token).

var gates sync.Map // *Store -> func(method string, args ...string)

// SetGate installs f as the store's gate (nil removes it).
func (s *Store) SetGate(f func(method string, args ...string)) {
	if f == nil {
		gates.Delete(s)
		return
	}
	gates.Store(s, f)
}

func (s *Store) gate(method string, args ...string) {
	if f, ok := gates.Load(s); ok {
		f.(func(string, ...string))(method, args...)
	}
}
