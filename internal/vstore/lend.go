package vstore

import (
	"slices"
	"sync"
)

// Lent slices: by default every request object the store hands to the framework (auth-request snapshot, device
// authorization state) carries private copies of the stored string lists (audience, amr, scopes). An in-memory
// storage - the repository's example storage is one - just as well hands out the lists it holds: several request
// objects then carry the SAME slice (e.g. the tenant's list of resource servers as audience of every grant of that
// tenant), and such a slice usually has spare capacity (it was grown by append). Nothing in op.Storage forbids that;
// the lists stay owned by the storage, the framework may read them.
//
// SetLendSlices(true) makes the store hand out the stored slices themselves (same backing array, same length, same
// capacity) instead of clones; what the lists are is up to the check (EditAuthReq / EditDevice). Off (the zero value,
// nothing registered) = today's behaviour. Kept outside the Store struct (like the gates) so that the struct is untouched.

var lentSlices sync.Map // *Store -> struct{}

// SetLendSlices switches handing out the stored slices (instead of clones) on or off for this store.
func (s *Store) SetLendSlices(on bool) {
	if on {
		lentSlices.Store(s, struct{}{})
		return
	}
	lentSlices.Delete(s)
}

// lend returns x itself when SetLendSlices is on, a clone otherwise.
func (s *Store) lend(x []string) []string {
	if _, ok := lentSlices.Load(s); ok {
		return x
	}
	return slices.Clone(x)
}
