package vstore

import "slices"

// Harness-side editors (not journaled): what a login UI / device approval page
// writes into the stored request besides "done" — authentication time, amr, acr,
// additional audiences. Additive helpers (first used by C06); they change nothing
// unless called.

// EditAuthReq applies fn to the stored authorization request under the store lock.
// It returns false when the request does not exist (any more).
func (s *Store) EditAuthReq(reqID string, fn func(*AuthReq)) bool {
	s.mu.Lock()
	defer s.mu.Unlock()
	r := s.authReqs[reqID]
	if r == nil {
		return false
	}
	fn(r)
	return true
}

// EditDevice applies fn to the stored device authorization under the store lock
// and invalidates the shared snapshot.
func (s *Store) EditDevice(deviceCode string, fn func(*Device)) bool {
	s.mu.Lock()
	defer s.mu.Unlock()
	d := s.devices[deviceCode]
	if d == nil {
		return false
	}
	fn(d)
	d.version++
	return true
}

// PublishedKeys returns the keys currently served by KeySet (harness view).
func (s *Store) PublishedKeys() []string {
	s.mu.Lock()
	defer s.mu.Unlock()
	out := make([]string, len(s.pubKeys))
	for i, k := range s.pubKeys {
		out[i] = k.Kid + "/" + string(k.Alg)
	}
	return out
}

// CodesOf returns the authorization codes currently stored for an auth request (harness-side view).
func (s *Store) CodesOf(reqID string) []string {
	s.mu.Lock()
	defer s.mu.Unlock()
	var out []string
	for c, id := range s.codes {
		if id == reqID {
			out = append(out, c)
		}
	}
	slices.Sort(out)
	return out
}
