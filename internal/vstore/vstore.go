// Package vstore is the storage the harness fully controls: a race-free
// in-memory op.Storage with every optional capability, a journal of every call
// stamped by the global event counter, and a fault plan consulted before each
// operation (a failed call has no effect).
//
// Policy (a careful, realistic storage — the oracles never demand more than
// this): token look-ups are by token id and compare the subject handed in;
// introspection checks the caller is in the token's audience before filling
// anything; DeleteAuthRequest removes the code; refresh tokens rotate;
// ValidateTokenExchangeRequest vets liveness of subject/actor tokens; RevokeToken
// refuses a foreign client with invalid_client; expiry is decided by stored
// absolute times that the harness keeps hours away from "now".
package vstore

import (
	"context"
	"errors"
	"fmt"
	"slices"
	"strings"
	"sync"
	"sync/atomic"
	"time"

	jose "github.com/go-jose/go-jose/v4"
	"golang.org/x/text/language"

	"github.com/zitadel/oidc/v3/pkg/oidc"
	"github.com/zitadel/oidc/v3/pkg/op"

	"verif/internal/keys"
	"verif/internal/mon"
	"verif/internal/sched"
	"verif/internal/vclient"
)

// Entry is one journaled storage call.
type Entry struct {
	Seq    int64  `json:"seq"`
	Method string `json:"m"`
	A      string `json:"a,omitempty"`
	B      string `json:"b,omitempty"`
	C      string `json:"c,omitempty"`
	Obj    any    `json:"obj,omitempty"`
	Err    string `json:"err,omitempty"`
	Fault  bool   `json:"fault,omitempty"`
	Ret    string `json:"ret,omitempty"`
}

// Mutating reports whether the method changes grant state (the list of C09).
func (e Entry) Mutating() bool {
	switch e.Method {
	case "CreateAuthRequest", "SaveAuthCode", "DeleteAuthRequest", "CreateAccessToken", "CreateAccessAndRefreshTokens",
		"RevokeToken", "TerminateSession", "TerminateSessionFromRequest", "StoreDeviceAuthorization", "CreateTokenExchangeRequest":
		return true
	}
	return false
}

type FaultKind int

const (
	FaultPlain FaultKind = iota
	FaultDeadline
	FaultOIDCServerError
	NumFaultKinds
)

var ErrInjected = errors.New("vstore: injected storage failure")

func (k FaultKind) Err() error {
	switch k {
	case FaultDeadline:
		return fmt.Errorf("vstore injected: %w", context.DeadlineExceeded)
	case FaultOIDCServerError:
		return oidc.ErrServerError().WithDescription("vstore injected").WithParent(ErrInjected)
	}
	return ErrInjected
}

// FaultPlan: fail the At-th call (1-based, counted since Arm) and/or every call of Method.
type FaultPlan struct {
	At     int
	Method string
	Kind   FaultKind
	// Err, when non-nil, is the error value the fault answers with instead of Kind.Err() (nil = today's behaviour):
	// a storage may fail with any Go error - every *oidc.Error type, wrapped ones, op.StatusError, own error types.
	Err error
	// From, when > 0, fails every call from the From-th on (1-based, counted since Arm; 0 = today's behaviour): a
	// context-aware backend whose context has ended gives up on every call it is handed from then on.
	From int
	// OnCall, when non-nil, is told the number (1-based, counted since Arm) and the method of every storage call at
	// its entrance, before the plan decides about a fault (nil = today's behaviour). It runs under the store's lock:
	// it must not call the store. E.g. ending the context of the running request exactly at a chosen storage call.
	OnCall func(n int, method string)
}

type User struct {
	ID, Name, Given, Family, Email, Phone, Username string
	EmailVerified, PhoneVerified                    bool
	Locale                                          language.Tag
	Address                                         *oidc.UserInfoAddress
}

type AuthReq struct {
	ID           string
	ClientID     string
	RedirectURI  string
	State        string
	Nonce        string
	Scopes       []string
	ResponseType oidc.ResponseType
	ResponseMode oidc.ResponseMode
	Challenge    *oidc.CodeChallenge
	Subject      string
	AuthTime     time.Time
	IsDone       bool
	ACR          string
	AMR          []string
	Audience     []string
	SessionState string
	HintUser     string
	Orig         oidc.AuthRequest
}

// AuthReqSnap is the immutable snapshot handed to the framework.
type AuthReqSnap struct{ r AuthReq }

func (a *AuthReqSnap) GetID() string { sched.Point("authreq:GetID"); return a.r.ID }
func (a *AuthReqSnap) GetACR() string { sched.Point("authreq:GetACR"); return a.r.ACR }
func (a *AuthReqSnap) GetAMR() []string { sched.Point("authreq:GetAMR"); return a.r.AMR }
func (a *AuthReqSnap) GetAudience() []string { sched.Point("authreq:GetAudience"); return a.r.Audience }
func (a *AuthReqSnap) GetAuthTime() time.Time { sched.Point("authreq:GetAuthTime"); return a.r.AuthTime }
func (a *AuthReqSnap) GetClientID() string { sched.Point("authreq:GetClientID"); return a.r.ClientID }
func (a *AuthReqSnap) GetCodeChallenge() *oidc.CodeChallenge { sched.Point("authreq:GetCodeChallenge"); return a.r.Challenge }
func (a *AuthReqSnap) GetNonce() string { sched.Point("authreq:GetNonce"); return a.r.Nonce }
func (a *AuthReqSnap) GetRedirectURI() string { sched.Point("authreq:GetRedirectURI"); return a.r.RedirectURI }
func (a *AuthReqSnap) GetResponseType() oidc.ResponseType { sched.Point("authreq:GetResponseType"); return a.r.ResponseType }
func (a *AuthReqSnap) GetResponseMode() oidc.ResponseMode { sched.Point("authreq:GetResponseMode"); return a.r.ResponseMode }
func (a *AuthReqSnap) GetScopes() []string { sched.Point("authreq:GetScopes"); return a.r.Scopes }
func (a *AuthReqSnap) GetState() string { sched.Point("authreq:GetState"); return a.r.State }
func (a *AuthReqSnap) GetSubject() string { sched.Point("authreq:GetSubject"); return a.r.Subject }
func (a *AuthReqSnap) Done() bool { sched.Point("authreq:Done"); return a.r.IsDone }
func (a *AuthReqSnap) Record() AuthReq                       { return a.r }

// AuthReqSnapSS additionally implements op.AuthRequestSessionState.
type AuthReqSnapSS struct{ *AuthReqSnap }

func (a AuthReqSnapSS) GetSessionState() string { sched.Point("authreq:GetSessionState"); return a.r.SessionState }

type Token struct {
	ID        string
	Subject   string
	ClientID  string
	Audience  []string
	Scopes    []string
	Expiry    time.Time
	Issued    time.Time
	AuthTime  time.Time
	AMR       []string
	Revoked   bool
	RefreshID string
	Flow      string
	Actor     string // token exchange only: the actor (subject of the actor token) the request was made for
}

type Refresh struct {
	ID       string // the refresh token string itself
	ClientID string
	Subject  string
	Scopes   []string
	Audience []string
	AMR      []string
	AuthTime time.Time
	Expiry   time.Time
	Live     bool
	AccessID string
	Actor    string // token exchange only, see Token.Actor
}

// RefreshReq is handed out per call (it has a setter, so never shared).
type RefreshReq struct {
	r      Refresh
	scopes []string
	alias  func([]string)
}

func (r *RefreshReq) GetAMR() []string       { return r.r.AMR }
func (r *RefreshReq) GetAudience() []string  { return r.r.Audience }
func (r *RefreshReq) GetAuthTime() time.Time { return r.r.AuthTime }
func (r *RefreshReq) GetClientID() string    { return r.r.ClientID }
func (r *RefreshReq) GetScopes() []string    { return r.scopes }
func (r *RefreshReq) GetSubject() string     { return r.r.Subject }
func (r *RefreshReq) SetCurrentScopes(scopes []string) {
	r.scopes = scopes
	if r.alias != nil {
		// AliasRefresh: like the repository's example storage, the request object IS the stored token, so
		// narrowing the current scopes narrows (or, if the library calls it too early, widens) the stored grant.
		r.alias(scopes)
	}
}
func (r *RefreshReq) OriginalScopes() []string { return r.r.Scopes }
func (r *RefreshReq) RefreshTokenID() string   { return r.r.ID }

// CCReq is the TokenRequest of the client_credentials grant.
type CCReq struct {
	ClientID string
	Scopes   []string
}

func (c *CCReq) GetSubject() string    { return c.ClientID }
func (c *CCReq) GetAudience() []string { return []string{c.ClientID} }
func (c *CCReq) GetScopes() []string   { return c.Scopes }

type Device struct {
	DeviceCode string
	UserCode   string
	ClientID   string
	Scopes     []string
	Expires    time.Time
	Done       bool
	Denied     bool
	Subject    string
	AuthTime   time.Time
	AMR        []string
	// Audience is what the approval page / storage registers as DeviceAuthorizationState.Audience (set through
	// EditDevice; nil = none, today's behaviour): e.g. the API the device talks to, with or without the client.
	Audience []string
	version  int
	snap     *op.DeviceAuthorizationState
	snapVer  int
}

// TEPolicy is what ValidateTokenExchangeRequest decides.
type TEPolicy int

const (
	TEAllow TEPolicy = iota
	TEVeto
	TEImpersonate
)

// Store is the controlled storage. Use As(caps) to obtain the op.Storage value
// with the desired optional capabilities.
type Store struct {
	mu sync.Mutex

	journal   []Entry
	journalOn bool
	calls     int // since Arm
	plan      *FaultPlan
	fired     int

	clients    map[string]*vclient.Client
	clientKeys map[string]map[string]*jose.JSONWebKey
	users      map[string]*User
	authReqs   map[string]*AuthReq
	codes      map[string]string
	tokens     map[string]*Token
	refresh    map[string]*Refresh
	devices    map[string]*Device
	userCodes  map[string]string
	n          int

	signing *keys.Key
	pubKeys []*keys.Key

	// knobs
	AccessTTL       time.Duration
	RefreshTTL      time.Duration
	SharedSnapshots bool
	// BlockDeviceLookup makes GetDeviceAuthorizatonState behave like a query that hangs: it returns (with the context's
	// error) only when the context it was handed ends. A context WITHOUT a deadline would make it hang for ever;
	// that is recorded (DeviceLookupsWithoutDeadline) and answered at once with a wrapped context.DeadlineExceeded.
	BlockDeviceLookup            atomic.Bool
	DeviceLookupsWithoutDeadline atomic.Int64
	// StubTerminateSession: the storage ends sessions only through the optional TerminateSessionFromRequest; the
	// plain TerminateSession of the Storage interface is a stub that does nothing (a storage written against the newer
	// interface). Only meaningful together with Caps.Extras.
	StubTerminateSession bool
	// NaiveSecrets makes AuthorizeClientIDSecret a plain string comparison with the stored secret, as the
	// repository's example storage does: a client stored without a secret "matches" the empty secret. The default
	// (false) refuses every client that has no secret.
	NaiveSecrets bool
	SessionState    string // non-empty: auth requests implement AuthRequestSessionState with this value (SessionStateFromState: "ss-"+state of the request)
	PrivateClaims   map[string]any
	UserinfoClaims  map[string]any
	TEPolicy        TEPolicy
	TEImpersonateAs string
	TEActorClaim    bool // token exchange: private claims / userinfo of the issued JWT carry "act":{"sub":<actor>} (zero: no such claim)
	TEUISubByScope  bool // SetUserinfoFromTokenExchangeRequest sets UserInfo.Subject only when "openid" is among the decided scopes (as SetUserinfoFromScopes does); zero: always set
	TENoRefreshVet  bool // ValidateTokenExchangeRequest does not re-check refresh-token subjects/actors (it trusts the framework's TokenRequestByRefreshToken look-up); zero: re-checked
	TEJWTTypeOK     bool // ValidateTokenExchangeRequest lets urn:...:jwt typed tokens pass (they were verified by a TokenExchangeTokensVerifierStorage wrapper); zero: refused
	JWTProfileType  op.AccessTokenType
	LogoutRedirect  string // returned by TerminateSessionFromRequest when non-empty
	HealthErr       error
	KeySetErr       error
	DupUserCodes    int // number of times StoreDeviceAuthorization answers ErrDuplicateUserCode first
	// RotateOnRead, when non-empty, makes every SigningKey() call hand out the next key of this ring (the ring's
	// keys must also be published through SetSigningKey(..., published...)): a rotation between any two reads.
	RotateOnRead []*keys.Key
	rotateN      int
	// TEVetoAtCreate makes the storage's CreateTokenExchangeRequest hook (the second token-exchange hook, after
	// ValidateTokenExchangeRequest passed) refuse the request with invalid_target.
	TEVetoAtCreate bool
	// TEVetoAtClaims makes the storage's claim hooks for token exchange (GetPrivateClaimsFromTokenExchangeRequest,
	// SetUserinfoFromTokenExchangeRequest) refuse with access_denied: a storage-side rejection that is not a fault
	// (journaled with Err, Fault unset). They run only where the issued token carries claims (JWT access token, ID token).
	TEVetoAtClaims bool
	// TEGrantNil makes ValidateTokenExchangeRequest grant NO scope by calling SetCurrentScopes(nil) (a storage that
	// builds the granted list with `var granted []string` + append and grants nothing).
	TEGrantNil bool
	// TENoDefaultType: ValidateTokenExchangeRequest leaves an absent requested_token_type as it is (a storage that
	// decides subject and scopes only and leaves the choice of the token type to the provider); zero: access_token is set.
	TENoDefaultType bool
	// StrictJWTProfileScopes makes ValidateJWTProfileScopes refuse (invalid_scope) a request naming a scope outside
	// KnownScopes instead of silently dropping it; off by default.
	StrictJWTProfileScopes bool
	// StrictClientCredentialsScopes makes ClientCredentialsTokenRequest refuse (invalid_scope) a scope outside
	// KnownScopes instead of silently dropping it; off by default.
	StrictClientCredentialsScopes bool
	// RefuseClaimsFor names a user whose claims the storage withholds: SetUserinfoFromScopes and
	// GetPrivateClaimsFromScopes answer access_denied for that user id (a storage-side rejection that is not a
	// fault: journaled with Err, Fault unset); empty = never.
	RefuseClaimsFor string
	// AliasRefresh makes RefreshTokenRequest.SetCurrentScopes write through to the stored refresh token (the
	// example storage's request object aliases its stored token); off by default.
	AliasRefresh bool
}

func New(signing *keys.Key) *Store {
	s := &Store{
		journalOn:  true,
		clients:    map[string]*vclient.Client{},
		clientKeys: map[string]map[string]*jose.JSONWebKey{},
		users:      map[string]*User{},
		authReqs:   map[string]*AuthReq{},
		codes:      map[string]string{},
		tokens:     map[string]*Token{},
		refresh:    map[string]*Refresh{},
		devices:    map[string]*Device{},
		userCodes:  map[string]string{},
		signing:    signing,
		pubKeys:    []*keys.Key{signing},
		AccessTTL:  5 * time.Hour,
		RefreshTTL: 24 * time.Hour,
	}
	s.AddUser(&User{ID: "user-1", Name: "Ada One", Given: "Ada", Family: "One", Email: "ada@example.com", EmailVerified: true, Phone: "+41 11 111 11 11", PhoneVerified: true, Username: "ada", Locale: language.German,
		Address: &oidc.UserInfoAddress{Formatted: "1 Main St", Locality: "Bern", Country: "CH"}})
	s.AddUser(&User{ID: "user-2", Name: "Bob Two", Given: "Bob", Family: "Two", Email: "bob@example.com", Phone: "+41 22 222 22 22", Username: "bob", Locale: language.English})
	return s
}

// ---------- configuration (harness side, not journaled) ----------

func (s *Store) AddClient(c *vclient.Client) {
	s.mu.Lock()
	s.clients[c.ID] = c
	s.mu.Unlock()
}

func (s *Store) Client(id string) *vclient.Client {
	s.mu.Lock()
	defer s.mu.Unlock()
	return s.clients[id]
}

func (s *Store) AddClientKey(clientID string, k *keys.Key) {
	s.mu.Lock()
	m := s.clientKeys[clientID]
	if m == nil {
		m = map[string]*jose.JSONWebKey{}
		s.clientKeys[clientID] = m
	}
	jwk := k.JWK()
	m[k.Kid] = &jwk
	s.mu.Unlock()
}

func (s *Store) AddUser(u *User) {
	s.mu.Lock()
	s.users[u.ID] = u
	s.mu.Unlock()
}

func (s *Store) SetSigningKey(k *keys.Key, published ...*keys.Key) {
	s.mu.Lock()
	s.signing = k
	if len(published) == 0 {
		published = []*keys.Key{k}
	}
	s.pubKeys = published
	s.mu.Unlock()
}

func (s *Store) SigningKeyOf() *keys.Key {
	s.mu.Lock()
	defer s.mu.Unlock()
	return s.signing
}

// ---------- journal & faults ----------

func (s *Store) Journal() []Entry {
	s.mu.Lock()
	defer s.mu.Unlock()
	return slices.Clone(s.journal)
}

// JournalSince returns entries with Seq > seq.
func (s *Store) JournalSince(seq int64) []Entry {
	s.mu.Lock()
	defer s.mu.Unlock()
	i := len(s.journal)
	for i > 0 && s.journal[i-1].Seq > seq {
		i--
	}
	return slices.Clone(s.journal[i:])
}

func (s *Store) ResetJournal() {
	s.mu.Lock()
	s.journal = nil
	s.mu.Unlock()
}

func (s *Store) SetJournal(on bool) {
	s.mu.Lock()
	s.journalOn = on
	s.mu.Unlock()
}

// Arm installs a fault plan (nil disarms) and resets the call counter.
func (s *Store) Arm(p *FaultPlan) {
	s.mu.Lock()
	s.plan = p
	s.calls = 0
	s.fired = 0
	s.mu.Unlock()
}

// Calls returns the number of storage calls since Arm; Fired how many faults fired.
func (s *Store) Calls() int { s.mu.Lock(); defer s.mu.Unlock(); return s.calls }
func (s *Store) Fired() int { s.mu.Lock(); defer s.mu.Unlock(); return s.fired }

// enter must be called with s.mu held. It journals the call and decides whether the fault fires.
func (s *Store) enter(method, a, b, c string, obj any) (int, error) {
	s.calls++
	var ferr error
	if p := s.plan; p != nil {
		if p.OnCall != nil {
			p.OnCall(s.calls, method)
		}
		if (p.At > 0 && s.calls == p.At) || (p.Method != "" && p.Method == method) || (p.From > 0 && s.calls >= p.From) {
			ferr = p.Kind.Err()
			if p.Err != nil {
				ferr = p.Err
			}
			s.fired++
		}
	}
	idx := -1
	if s.journalOn {
		e := Entry{Seq: mon.Seq(), Method: method, A: a, B: b, C: c, Obj: obj}
		if ferr != nil {
			e.Err = ferr.Error()
			e.Fault = true
		}
		s.journal = append(s.journal, e)
		idx = len(s.journal) - 1
	}
	return idx, ferr
}

func (s *Store) leave(idx int, ret string, err error) {
	if idx < 0 || idx >= len(s.journal) {
		return
	}
	s.journal[idx].Ret = ret
	if err != nil {
		s.journal[idx].Err = err.Error()
	}
}

type notFound struct{ what string }

func (n notFound) Error() string { return "vstore: " + n.what + " not found" }
func (n notFound) IsNotFound()   {}

func (s *Store) id(prefix string) string {
	s.n++
	return fmt.Sprintf("%s-%d", prefix, s.n)
}

// ---------- harness-side state manipulation (the "login UI", the clock) ----------

// CompleteLogin marks an auth request as authenticated by user (what a login UI does).
func (s *Store) CompleteLogin(reqID, user string) bool {
	s.mu.Lock()
	defer s.mu.Unlock()
	r := s.authReqs[reqID]
	if r == nil {
		return false
	}
	r.IsDone = true
	r.Subject = user
	r.AuthTime = time.Now().Add(-time.Minute).Truncate(time.Second)
	r.AMR = []string{"pwd"}
	return true
}

func (s *Store) AuthReqRecord(reqID string) (AuthReq, bool) {
	s.mu.Lock()
	defer s.mu.Unlock()
	r := s.authReqs[reqID]
	if r == nil {
		return AuthReq{}, false
	}
	return *r, true
}

func (s *Store) CodeOwner(code string) (string, bool) {
	s.mu.Lock()
	defer s.mu.Unlock()
	id, ok := s.codes[code]
	return id, ok
}

func (s *Store) TokenRecord(id string) (Token, bool) {
	s.mu.Lock()
	defer s.mu.Unlock()
	t := s.tokens[id]
	if t == nil {
		return Token{}, false
	}
	return *t, true
}

func (s *Store) RefreshRecord(id string) (Refresh, bool) {
	s.mu.Lock()
	defer s.mu.Unlock()
	t := s.refresh[id]
	if t == nil {
		return Refresh{}, false
	}
	return *t, true
}

// ExpireToken moves the stored expiry of an access token far into the past.
func (s *Store) ExpireToken(id string) {
	s.mu.Lock()
	if t := s.tokens[id]; t != nil {
		t.Expiry = time.Now().Add(-48 * time.Hour)
	}
	s.mu.Unlock()
}

func (s *Store) ExpireRefresh(id string) {
	s.mu.Lock()
	if t := s.refresh[id]; t != nil {
		t.Expiry = time.Now().Add(-48 * time.Hour)
	}
	s.mu.Unlock()
}

func (s *Store) DeviceByUserCode(uc string) (Device, bool) {
	s.mu.Lock()
	defer s.mu.Unlock()
	dc, ok := s.userCodes[uc]
	if !ok {
		return Device{}, false
	}
	return *s.devices[dc], true
}

func (s *Store) DeviceRecord(dc string) (Device, bool) {
	s.mu.Lock()
	defer s.mu.Unlock()
	d := s.devices[dc]
	if d == nil {
		return Device{}, false
	}
	return *d, true
}

func (s *Store) ApproveDevice(deviceCode, user string) bool {
	s.mu.Lock()
	defer s.mu.Unlock()
	d := s.devices[deviceCode]
	if d == nil {
		return false
	}
	d.Done, d.Denied, d.Subject = true, false, user
	d.AuthTime = time.Now().Add(-time.Minute).Truncate(time.Second)
	d.AMR = []string{"pwd"}
	d.version++
	return true
}

func (s *Store) DenyDevice(deviceCode string) bool {
	s.mu.Lock()
	defer s.mu.Unlock()
	d := s.devices[deviceCode]
	if d == nil {
		return false
	}
	d.Denied, d.Done = true, false
	d.version++
	return true
}

func (s *Store) ExpireDevice(deviceCode string) bool {
	s.mu.Lock()
	defer s.mu.Unlock()
	d := s.devices[deviceCode]
	if d == nil {
		return false
	}
	d.Expires = time.Now().Add(-24 * time.Hour)
	d.version++
	return true
}

func (s *Store) tokenLive(t *Token) bool {
	return t != nil && !t.Revoked && time.Now().Before(t.Expiry)
}

func (s *Store) refreshLive(r *Refresh) bool {
	return r != nil && r.Live && time.Now().Before(r.Expiry)
}

// TokenLive / RefreshLive are the harness view of liveness (the reference for the model).
func (s *Store) TokenLive(id string) bool {
	s.mu.Lock()
	defer s.mu.Unlock()
	return s.tokenLive(s.tokens[id])
}
func (s *Store) RefreshLive(id string) bool {
	s.mu.Lock()
	defer s.mu.Unlock()
	return s.refreshLive(s.refresh[id])
}

// ---------- op.AuthStorage ----------

func (s *Store) CreateAuthRequest(ctx context.Context, req *oidc.AuthRequest, userID string) (op.AuthRequest, error) {
	defer sched.Storage("CreateAuthRequest")()
	s.mu.Lock()
	defer s.mu.Unlock()
	var cp oidc.AuthRequest
	if req != nil {
		cp = *req
		cp.Scopes = slices.Clone(req.Scopes)
		cp.Prompt = slices.Clone(req.Prompt)
	}
	idx, ferr := s.enter("CreateAuthRequest", cp.ClientID, cp.RedirectURI, userID, cp)
	if ferr != nil {
		return nil, ferr
	}
	if req == nil {
		err := errors.New("vstore: nil auth request")
		s.leave(idx, "", err)
		return nil, err
	}
	if slices.Contains(req.Prompt, oidc.PromptNone) {
		// a login UI cannot be shown: a careful storage refuses here
		err := oidc.ErrLoginRequired()
		s.leave(idx, "", err)
		return nil, err
	}
	r := &AuthReq{
		ID: s.id("ar"), ClientID: req.ClientID, RedirectURI: req.RedirectURI, State: req.State, Nonce: req.Nonce,
		Scopes: slices.Clone([]string(req.Scopes)), ResponseType: req.ResponseType, ResponseMode: req.ResponseMode,
		Audience: []string{req.ClientID}, SessionState: s.SessionState, HintUser: userID, Orig: cp,
	}
	if s.SessionState == SessionStateFromState {
		// a session state of its own per request, derived from the request's state (carries the request's marker)
		r.SessionState = "ss-" + req.State
	}
	if req.CodeChallenge != "" {
		r.Challenge = &oidc.CodeChallenge{Challenge: req.CodeChallenge, Method: req.CodeChallengeMethod}
	}
	s.authReqs[r.ID] = r
	s.leave(idx, r.ID, nil)
	return s.snap(r), nil
}

// SessionStateFromState as Store.SessionState gives every auth request the session state "ss-" + its state parameter.
const SessionStateFromState = "@from-state"

func (s *Store) snap(r *AuthReq) op.AuthRequest {
	c := *r
	c.Scopes = s.lend(r.Scopes) // lend = slices.Clone unless SetLendSlices (lend.go)
	c.AMR = s.lend(r.AMR)
	c.Audience = s.lend(r.Audience)
	if r.Challenge != nil {
		ch := *r.Challenge
		c.Challenge = &ch
	}
	sn := &AuthReqSnap{r: c}
	if s.SessionState != "" {
		return AuthReqSnapSS{sn}
	}
	return sn
}

func (s *Store) AuthRequestByID(ctx context.Context, id string) (op.AuthRequest, error) {
	defer sched.Storage("AuthRequestByID")()
	s.mu.Lock()
	defer s.mu.Unlock()
	idx, ferr := s.enter("AuthRequestByID", id, "", "", nil)
	if ferr != nil {
		return nil, ferr
	}
	r := s.authReqs[id]
	if r == nil {
		err := notFound{"auth request"}
		s.leave(idx, "", err)
		return nil, err
	}
	return s.snap(r), nil
}

func (s *Store) AuthRequestByCode(ctx context.Context, code string) (op.AuthRequest, error) {
	defer sched.Storage("AuthRequestByCode")()
	s.mu.Lock()
	defer s.mu.Unlock()
	idx, ferr := s.enter("AuthRequestByCode", code, "", "", nil)
	if ferr != nil {
		return nil, ferr
	}
	id, ok := s.codes[code]
	if !ok || s.authReqs[id] == nil {
		err := notFound{"code"}
		s.leave(idx, "", err)
		return nil, err
	}
	s.leave(idx, id, nil)
	return s.snap(s.authReqs[id]), nil
}

func (s *Store) SaveAuthCode(ctx context.Context, id, code string) error {
	defer sched.Storage("SaveAuthCode")()
	s.mu.Lock()
	defer s.mu.Unlock()
	idx, ferr := s.enter("SaveAuthCode", id, code, "", nil)
	if ferr != nil {
		return ferr
	}
	if s.authReqs[id] == nil {
		err := notFound{"auth request"}
		s.leave(idx, "", err)
		return err
	}
	s.codes[code] = id
	return nil
}

func (s *Store) DeleteAuthRequest(ctx context.Context, id string) error {
	defer sched.Storage("DeleteAuthRequest")()
	s.mu.Lock()
	defer s.mu.Unlock()
	idx, ferr := s.enter("DeleteAuthRequest", id, "", "", nil)
	if ferr != nil {
		return ferr
	}
	if s.authReqs[id] == nil && s.strictDelete() { // strict.go; off by default
		err := notFound{"auth request"}
		s.leave(idx, "", err)
		return err
	}
	delete(s.authReqs, id)
	for c, rid := range s.codes {
		if rid == id {
			delete(s.codes, c)
		}
	}
	return nil
}

type reqInfo struct {
	flow, client, subject string
	scopes, audience, amr []string
	authTime              time.Time
}

func describe(req op.TokenRequest) (reqInfo, error) {
	switch r := req.(type) {
	case nil:
		return reqInfo{}, errors.New("vstore: nil token request")
	case op.AuthRequest:
		return reqInfo{"auth_request", r.GetClientID(), r.GetSubject(), r.GetScopes(), r.GetAudience(), r.GetAMR(), r.GetAuthTime()}, nil
	case *RefreshReq:
		return reqInfo{"refresh", r.GetClientID(), r.GetSubject(), r.GetScopes(), r.GetAudience(), r.GetAMR(), r.GetAuthTime()}, nil
	case op.TokenExchangeRequest:
		aud := r.GetAudience()
		if len(aud) == 0 {
			aud = []string{r.GetClientID()}
		}
		return reqInfo{"token_exchange", r.GetClientID(), r.GetSubject(), r.GetScopes(), aud, r.GetAMR(), r.GetAuthTime()}, nil
	case *oidc.JWTTokenRequest:
		return reqInfo{"jwt_profile", r.Issuer, r.GetSubject(), r.GetScopes(), []string{r.Issuer}, nil, time.Time{}}, nil
	case *op.DeviceAuthorizationState:
		// do not call GetAudience(): it writes to the receiver
		aud := slices.Clone(r.Audience)
		if !slices.Contains(aud, r.ClientID) {
			aud = append(aud, r.ClientID)
		}
		return reqInfo{"device", r.ClientID, r.Subject, r.Scopes, aud, r.AMR, r.AuthTime}, nil
	case *CCReq:
		return reqInfo{"client_credentials", r.ClientID, r.ClientID, r.Scopes, []string{r.ClientID}, nil, time.Time{}}, nil
	}
	return reqInfo{"unknown", "", req.GetSubject(), req.GetScopes(), req.GetAudience(), nil, time.Time{}}, nil
}

// teActor is the actor of a token exchange request ("" for every other kind of request).
func teActor(req op.TokenRequest) string {
	if te, ok := req.(op.TokenExchangeRequest); ok {
		return te.GetExchangeActor()
	}
	return ""
}

func (s *Store) mint(info reqInfo) *Token {
	now := time.Now()
	t := &Token{
		ID: s.id("at"), Subject: info.subject, ClientID: info.client, Audience: slices.Clone(info.audience),
		Scopes: slices.Clone(info.scopes), Expiry: now.Add(s.AccessTTL).Truncate(time.Second), Issued: now, AuthTime: info.authTime,
		AMR: slices.Clone(info.amr), Flow: info.flow,
	}
	if !slices.Contains(t.Audience, info.client) && info.client != "" {
		t.Audience = append(t.Audience, info.client)
	}
	s.tokens[t.ID] = t
	return t
}

func (s *Store) CreateAccessToken(ctx context.Context, req op.TokenRequest) (string, time.Time, error) {
	defer sched.Storage("CreateAccessToken")()
	s.mu.Lock()
	defer s.mu.Unlock()
	info, derr := describe(req)
	idx, ferr := s.enter("CreateAccessToken", info.flow, info.client, info.subject, strings.Join(info.scopes, " "))
	if ferr != nil {
		return "", time.Time{}, ferr
	}
	if derr != nil {
		s.leave(idx, "", derr)
		return "", time.Time{}, derr
	}
	t := s.mint(info)
	t.Actor = teActor(req)
	s.leave(idx, t.ID, nil)
	return t.ID, t.Expiry, nil
}

func (s *Store) CreateAccessAndRefreshTokens(ctx context.Context, req op.TokenRequest, current string) (string, string, time.Time, error) {
	s.gate("CreateAccessAndRefreshTokens", current) // no-op unless a check installed a gate (gate.go)
	defer sched.Storage("CreateAccessAndRefreshTokens")()
	s.mu.Lock()
	defer s.mu.Unlock()
	info, derr := describe(req)
	idx, ferr := s.enter("CreateAccessAndRefreshTokens", info.flow+"|"+info.client+"|"+info.subject, current, strings.Join(info.scopes, " "), nil)
	if ferr != nil {
		return "", "", time.Time{}, ferr
	}
	if derr != nil {
		s.leave(idx, "", derr)
		return "", "", time.Time{}, derr
	}
	if current != "" {
		old := s.refresh[current]
		if !s.rotatable(old) { // = refreshLive(old) unless SetLaxRefresh (laxrefresh.go)
			err := errors.New("vstore: current refresh token unknown or dead")
			s.leave(idx, "", err)
			return "", "", time.Time{}, err
		}
		old.Live = false
		if at := s.tokens[old.AccessID]; at != nil {
			at.Revoked = true
		}
	}
	t := s.mint(info)
	s.n++
	r := &Refresh{
		ID: fmt.Sprintf("rt-%d-%s", s.n, keys.B64([]byte(fmt.Sprintf("%08x", s.n*2654435761)))), ClientID: info.client, Subject: info.subject,
		Scopes: slices.Clone(info.scopes), Audience: slices.Clone(t.Audience), AMR: slices.Clone(info.amr), AuthTime: info.authTime,
		Expiry: time.Now().Add(s.RefreshTTL), Live: true, AccessID: t.ID,
	}
	s.refresh[r.ID] = r
	t.RefreshID = r.ID
	t.Actor, r.Actor = teActor(req), teActor(req)
	s.leave(idx, t.ID+"|"+r.ID, nil)
	return t.ID, r.ID, t.Expiry, nil
}

func (s *Store) TokenRequestByRefreshToken(ctx context.Context, refreshToken string) (op.RefreshTokenRequest, error) {
	defer sched.Storage("TokenRequestByRefreshToken")()
	s.mu.Lock()
	defer s.mu.Unlock()
	idx, ferr := s.enter("TokenRequestByRefreshToken", refreshToken, "", "", nil)
	if ferr != nil {
		s.leave(idx, s.laxNote(refreshToken), nil)
		return s.laxGrant(refreshToken), ferr // nil unless SetLaxRefresh (laxrefresh.go)
	}
	r := s.refresh[refreshToken]
	if !s.refreshLive(r) {
		err := notFound{"refresh token"}
		s.leave(idx, s.laxNote(refreshToken), err)
		return s.laxGrant(refreshToken), err // nil unless SetLaxRefresh
	}
	c := *r
	c.Scopes = slices.Clone(r.Scopes)
	c.Audience = slices.Clone(r.Audience)
	c.AMR = slices.Clone(r.AMR)
	rr := &RefreshReq{r: c, scopes: slices.Clone(r.Scopes)}
	if s.AliasRefresh {
		rr.alias = func(sc []string) {
			s.mu.Lock()
			if cur := s.refresh[refreshToken]; cur != nil {
				cur.Scopes = slices.Clone(sc)
			}
			s.mu.Unlock()
		}
	}
	return rr, nil
}

func (s *Store) terminate(userID, clientID string) {
	for _, t := range s.tokens {
		if t.Subject == userID && t.ClientID == clientID {
			t.Revoked = true
		}
	}
	for _, r := range s.refresh {
		if r.Subject == userID && r.ClientID == clientID {
			r.Live = false
		}
	}
}

func (s *Store) TerminateSession(ctx context.Context, userID, clientID string) error {
	defer sched.Storage("TerminateSession")()
	s.mu.Lock()
	defer s.mu.Unlock()
	_, ferr := s.enter("TerminateSession", userID, clientID, "", nil)
	if ferr != nil {
		return ferr
	}
	if s.StubTerminateSession {
		return nil
	}
	s.terminate(userID, clientID)
	return nil
}

func (s *Store) RevokeToken(ctx context.Context, tokenOrID, userID, clientID string) *oidc.Error {
	defer sched.Storage("RevokeToken")()
	s.mu.Lock()
	defer s.mu.Unlock()
	idx, ferr := s.enter("RevokeToken", tokenOrID, userID, clientID, nil)
	if ferr != nil {
		var oe *oidc.Error
		if errors.As(ferr, &oe) {
			return oe
		}
		return oidc.ErrServerError().WithParent(ferr)
	}
	if t := s.tokens[tokenOrID]; t != nil {
		if t.ClientID != clientID {
			err := oidc.ErrInvalidClient().WithDescription("token was not issued for this client")
			s.leave(idx, "", err)
			return err
		}
		t.Revoked = true
		s.leave(idx, "access", nil)
		return nil
	}
	if r := s.refresh[tokenOrID]; r != nil {
		if r.ClientID != clientID {
			err := oidc.ErrInvalidClient().WithDescription("token was not issued for this client")
			s.leave(idx, "", err)
			return err
		}
		r.Live = false
		if at := s.tokens[r.AccessID]; at != nil {
			at.Revoked = true
		}
		s.leave(idx, "refresh", nil)
		return nil
	}
	s.leave(idx, "unknown", nil)
	return nil
}

func (s *Store) GetRefreshTokenInfo(ctx context.Context, clientID, token string) (string, string, error) {
	defer sched.Storage("GetRefreshTokenInfo")()
	s.mu.Lock()
	defer s.mu.Unlock()
	idx, ferr := s.enter("GetRefreshTokenInfo", clientID, token, "", nil)
	if ferr != nil {
		return "", "", ferr
	}
	r := s.refresh[token]
	if r == nil {
		s.leave(idx, "", op.ErrInvalidRefreshToken)
		return "", "", op.ErrInvalidRefreshToken
	}
	return r.Subject, r.ID, nil
}

func (s *Store) SigningKey(ctx context.Context) (op.SigningKey, error) {
	defer sched.Storage("SigningKey")()
	s.mu.Lock()
	defer s.mu.Unlock()
	idx, ferr := s.enter("SigningKey", "", "", "", nil)
	if ferr != nil {
		return nil, ferr
	}
	k := s.signing
	if len(s.RotateOnRead) > 0 {
		// a key rotation may happen between any two reads: every read hands out the next key of the ring
		k = s.RotateOnRead[s.rotateN%len(s.RotateOnRead)]
		s.rotateN++
	}
	s.leave(idx, k.Kid+"/"+string(k.Alg), nil)
	return keys.OPSigningKey{K: k}, nil
}

func (s *Store) SignatureAlgorithms(ctx context.Context) ([]jose.SignatureAlgorithm, error) {
	defer sched.Storage("SignatureAlgorithms")()
	s.mu.Lock()
	defer s.mu.Unlock()
	_, ferr := s.enter("SignatureAlgorithms", "", "", "", nil)
	if ferr != nil {
		return nil, ferr
	}
	algs := []jose.SignatureAlgorithm{s.signing.Alg}
	for _, k := range s.RotateOnRead {
		if !slices.Contains(algs, k.Alg) {
			algs = append(algs, k.Alg)
		}
	}
	return algs, nil
}

func (s *Store) KeySet(ctx context.Context) ([]op.Key, error) {
	defer sched.Storage("KeySet")()
	s.mu.Lock()
	defer s.mu.Unlock()
	_, ferr := s.enter("KeySet", "", "", "", nil)
	if ferr != nil {
		return nil, ferr
	}
	if s.KeySetErr != nil {
		return nil, s.KeySetErr
	}
	out := make([]op.Key, len(s.pubKeys))
	for i, k := range s.pubKeys {
		out[i] = keys.OPPublicKey{K: k}
	}
	return out, nil
}

// ---------- op.OPStorage ----------

func (s *Store) GetClientByClientID(ctx context.Context, clientID string) (op.Client, error) {
	defer sched.Storage("GetClientByClientID")()
	s.mu.Lock()
	defer s.mu.Unlock()
	idx, ferr := s.enter("GetClientByClientID", clientID, "", "", nil)
	if ferr != nil {
		return nil, ferr
	}
	c := s.clients[clientID]
	if c == nil {
		err := notFound{"client"}
		s.leave(idx, "", err)
		return nil, err
	}
	return c.AsOP(), nil
}

func (s *Store) AuthorizeClientIDSecret(ctx context.Context, clientID, clientSecret string) error {
	defer sched.Storage("AuthorizeClientIDSecret")()
	s.mu.Lock()
	defer s.mu.Unlock()
	idx, ferr := s.enter("AuthorizeClientIDSecret", clientID, "", "", nil)
	if ferr != nil {
		return ferr
	}
	c := s.clients[clientID]
	if c == nil {
		err := notFound{"client"}
		s.leave(idx, "", err)
		return err
	}
	if (c.Secret == "" && !s.NaiveSecrets) || c.Secret != clientSecret {
		err := errors.New("vstore: invalid secret")
		s.leave(idx, "", err)
		return err
	}
	s.leave(idx, "ok", nil)
	return nil
}

func (s *Store) fillUser(ui *oidc.UserInfo, userID string, scopes []string) {
	u := s.users[userID]
	for _, sc := range scopes {
		switch sc {
		case oidc.ScopeOpenID:
			ui.Subject = userID
		case oidc.ScopeProfile:
			if u != nil {
				ui.Name, ui.GivenName, ui.FamilyName, ui.PreferredUsername = u.Name, u.Given, u.Family, u.Username
				ui.Locale = oidc.NewLocale(u.Locale)
			}
		case oidc.ScopeEmail:
			if u != nil {
				ui.Email, ui.EmailVerified = u.Email, oidc.Bool(u.EmailVerified)
			}
		case oidc.ScopePhone:
			if u != nil {
				ui.PhoneNumber, ui.PhoneNumberVerified = u.Phone, u.PhoneVerified
			}
		case oidc.ScopeAddress:
			if u != nil && u.Address != nil {
				a := *u.Address
				ui.Address = &a
			}
		}
	}
	for k, v := range s.UserinfoClaims {
		ui.AppendClaims(k, v)
	}
}

func (s *Store) SetUserinfoFromScopes(ctx context.Context, ui *oidc.UserInfo, userID, clientID string, scopes []string) error {
	defer sched.Storage("SetUserinfoFromScopes")()
	s.mu.Lock()
	defer s.mu.Unlock()
	idx, ferr := s.enter("SetUserinfoFromScopes", userID, clientID, strings.Join(scopes, " "), nil)
	if ferr != nil {
		return ferr
	}
	if s.RefuseClaimsFor != "" && userID == s.RefuseClaimsFor {
		err := oidc.ErrAccessDenied().WithDescription("vstore: claims of this user are withheld")
		s.leave(idx, "", err)
		return err
	}
	s.fillUser(ui, userID, scopes)
	return nil
}

func (s *Store) SetUserinfoFromToken(ctx context.Context, ui *oidc.UserInfo, tokenID, subject, origin string) error {
	defer sched.Storage("SetUserinfoFromToken")()
	s.mu.Lock()
	defer s.mu.Unlock()
	idx, ferr := s.enter("SetUserinfoFromToken", tokenID, subject, origin, nil)
	if ferr != nil {
		return ferr
	}
	t := s.tokens[tokenID]
	if !s.tokenLive(t) || t.Subject != subject {
		err := errors.New("vstore: token invalid or expired")
		s.leave(idx, "", err)
		return err
	}
	ui.Subject = t.Subject
	s.fillUser(ui, t.Subject, t.Scopes)
	s.leave(idx, "ok", nil)
	return nil
}

func (s *Store) SetIntrospectionFromToken(ctx context.Context, resp *oidc.IntrospectionResponse, tokenID, subject, clientID string) error {
	defer sched.Storage("SetIntrospectionFromToken")()
	s.mu.Lock()
	defer s.mu.Unlock()
	idx, ferr := s.enter("SetIntrospectionFromToken", tokenID, subject, clientID, nil)
	if ferr != nil {
		return ferr
	}
	t := s.tokens[tokenID]
	if !s.tokenLive(t) || t.Subject != subject {
		err := errors.New("vstore: token invalid or expired")
		s.leave(idx, "", err)
		return err
	}
	if !slices.Contains(t.Audience, clientID) {
		err := errors.New("vstore: caller not in token audience")
		s.leave(idx, "", err)
		return err
	}
	ui := new(oidc.UserInfo)
	ui.Subject = t.Subject
	s.fillUser(ui, t.Subject, t.Scopes)
	resp.SetUserInfo(ui)
	resp.Scope = slices.Clone(t.Scopes)
	resp.ClientID = t.ClientID
	resp.Subject = t.Subject
	resp.Audience = slices.Clone(t.Audience)
	resp.Expiration = oidc.FromTime(t.Expiry)
	resp.IssuedAt = oidc.FromTime(t.Issued)
	resp.JWTID = t.ID
	s.leave(idx, "ok", nil)
	return nil
}

func (s *Store) GetPrivateClaimsFromScopes(ctx context.Context, userID, clientID string, scopes []string) (map[string]any, error) {
	defer sched.Storage("GetPrivateClaimsFromScopes")()
	s.mu.Lock()
	defer s.mu.Unlock()
	idx, ferr := s.enter("GetPrivateClaimsFromScopes", userID, clientID, strings.Join(scopes, " "), nil)
	if ferr != nil {
		return nil, ferr
	}
	if s.RefuseClaimsFor != "" && userID == s.RefuseClaimsFor {
		err := oidc.ErrAccessDenied().WithDescription("vstore: claims of this user are withheld")
		s.leave(idx, "", err)
		return nil, err
	}
	out := map[string]any{}
	for k, v := range s.PrivateClaims {
		out[k] = v
	}
	return out, nil
}

func (s *Store) GetKeyByIDAndClientID(ctx context.Context, keyID, clientID string) (*jose.JSONWebKey, error) {
	defer sched.Storage("GetKeyByIDAndClientID")()
	s.mu.Lock()
	defer s.mu.Unlock()
	idx, ferr := s.enter("GetKeyByIDAndClientID", keyID, clientID, "", nil)
	if ferr != nil {
		return nil, ferr
	}
	k := s.clientKeys[clientID][keyID]
	if k == nil {
		err := notFound{"client key"}
		s.leave(idx, "", err)
		return nil, err
	}
	c := *k
	return &c, nil
}

// KnownScopes are what ValidateJWTProfileScopes lets through.
var KnownScopes = []string{oidc.ScopeOpenID, oidc.ScopeProfile, oidc.ScopeEmail, oidc.ScopePhone, oidc.ScopeAddress, oidc.ScopeOfflineAccess, "api"}

func (s *Store) ValidateJWTProfileScopes(ctx context.Context, userID string, scopes []string) ([]string, error) {
	defer sched.Storage("ValidateJWTProfileScopes")()
	s.mu.Lock()
	defer s.mu.Unlock()
	idx, ferr := s.enter("ValidateJWTProfileScopes", userID, strings.Join(scopes, " "), "", nil)
	if ferr != nil {
		return nil, ferr
	}
	var out []string
	for _, sc := range scopes {
		if slices.Contains(KnownScopes, sc) {
			out = append(out, sc)
		} else if s.StrictJWTProfileScopes {
			err := oidc.ErrInvalidScope().WithDescription("vstore: scope " + sc + " not allowed for this service user")
			s.leave(idx, "", err)
			return nil, err
		}
	}
	return out, nil
}

func (s *Store) Health(ctx context.Context) error {
	defer sched.Storage("Health")()
	s.mu.Lock()
	defer s.mu.Unlock()
	_, ferr := s.enter("Health", "", "", "", nil)
	if ferr != nil {
		return ferr
	}
	return s.HealthErr
}

// ---------- optional capabilities (reached through the adapter types in caps.go) ----------

func (s *Store) clientCredentials(ctx context.Context, clientID, secret string) (op.Client, error) {
	defer sched.Storage("ClientCredentials")()
	s.mu.Lock()
	defer s.mu.Unlock()
	idx, ferr := s.enter("ClientCredentials", clientID, "", "", nil)
	if ferr != nil {
		return nil, ferr
	}
	c := s.clients[clientID]
	if c == nil || !c.ServiceUser || c.Secret == "" || c.Secret != secret {
		err := errors.New("vstore: invalid client credentials")
		s.leave(idx, "", err)
		return nil, err
	}
	s.leave(idx, "ok", nil)
	return c.AsOP(), nil
}

func (s *Store) clientCredentialsTokenRequest(ctx context.Context, clientID string, scopes []string) (op.TokenRequest, error) {
	defer sched.Storage("ClientCredentialsTokenRequest")()
	s.mu.Lock()
	defer s.mu.Unlock()
	idx, ferr := s.enter("ClientCredentialsTokenRequest", clientID, strings.Join(scopes, " "), "", nil)
	if ferr != nil {
		return nil, ferr
	}
	var out []string
	for _, sc := range scopes {
		if slices.Contains(KnownScopes, sc) {
			out = append(out, sc)
		} else if s.StrictClientCredentialsScopes && sc != "" {
			err := oidc.ErrInvalidScope().WithDescription("vstore: scope " + sc + " not allowed for this client")
			s.leave(idx, "", err)
			return nil, err
		}
	}
	return &CCReq{ClientID: clientID, Scopes: out}, nil
}

// TEDecision records what the policy decided for a request (for the C15 oracle).
type TEDecision struct {
	Subject   string
	Scopes    []string
	Requested oidc.TokenType
	Veto      string
}

func (s *Store) vetTEToken(kind string, tt oidc.TokenType, idOrToken, subject string) error {
	switch tt {
	case oidc.AccessTokenType:
		t := s.tokens[idOrToken]
		if !s.tokenLive(t) || t.Subject != subject {
			return oidc.ErrInvalidRequest().WithDescription(kind + "_token is not live")
		}
	case oidc.RefreshTokenType:
		if s.TENoRefreshVet {
			break
		}
		r := s.refresh[idOrToken]
		if !s.refreshLive(r) || r.Subject != subject {
			return oidc.ErrInvalidRequest().WithDescription(kind + "_token is not live")
		}
	case oidc.IDTokenType:
		// verified (signature, issuer, expiry) by the framework
	case oidc.JWTTokenType:
		if !s.TEJWTTypeOK {
			return oidc.ErrInvalidRequest().WithDescription(kind + "_token_type not accepted")
		}
	default:
		return oidc.ErrInvalidRequest().WithDescription(kind + "_token_type not accepted")
	}
	return nil
}

func (s *Store) validateTokenExchangeRequest(ctx context.Context, req op.TokenExchangeRequest) error {
	defer sched.Storage("ValidateTokenExchangeRequest")()
	s.mu.Lock()
	defer s.mu.Unlock()
	idx, ferr := s.enter("ValidateTokenExchangeRequest", req.GetExchangeSubject(), string(req.GetExchangeSubjectTokenType()), string(req.GetRequestedTokenType()), nil)
	if ferr != nil {
		return ferr
	}
	fail := func(err error) error { s.leave(idx, "", err); return err }
	if s.TEPolicy == TEVeto {
		return fail(oidc.ErrInvalidTarget().WithDescription("vstore policy veto"))
	}
	if err := s.vetTEToken("subject", req.GetExchangeSubjectTokenType(), req.GetExchangeSubjectTokenIDOrToken(), req.GetExchangeSubject()); err != nil {
		return fail(err)
	}
	if req.GetExchangeActorTokenIDOrToken() != "" || req.GetExchangeActor() != "" {
		if err := s.vetTEToken("actor", req.GetExchangeActorTokenType(), req.GetExchangeActorTokenIDOrToken(), req.GetExchangeActor()); err != nil {
			return fail(err)
		}
	}
	if req.GetRequestedTokenType() == "" && !s.TENoDefaultType {
		req.SetRequestedTokenType(oidc.AccessTokenType)
	}
	var allowed []string
	for _, sc := range req.GetScopes() {
		if slices.Contains(KnownScopes, sc) {
			allowed = append(allowed, sc)
		}
	}
	if len(allowed) == 0 {
		allowed = []string{oidc.ScopeOpenID}
	}
	if s.TEGrantNil {
		allowed = nil
	}
	req.SetCurrentScopes(allowed)
	if s.TEPolicy == TEImpersonate && s.TEImpersonateAs != "" {
		req.SetSubject(s.TEImpersonateAs)
	}
	s.leave(idx, req.GetSubject()+"|"+strings.Join(allowed, " ")+"|"+string(req.GetRequestedTokenType()), nil)
	return nil
}

func (s *Store) createTokenExchangeRequest(ctx context.Context, req op.TokenExchangeRequest) error {
	defer sched.Storage("CreateTokenExchangeRequest")()
	s.mu.Lock()
	defer s.mu.Unlock()
	idx, ferr := s.enter("CreateTokenExchangeRequest", req.GetSubject(), req.GetClientID(), "", nil)
	if ferr != nil {
		return ferr
	}
	if s.TEVetoAtCreate {
		err := oidc.ErrInvalidTarget().WithDescription("vstore policy veto at CreateTokenExchangeRequest")
		s.leave(idx, "", err)
		return err
	}
	return nil
}

func (s *Store) getPrivateClaimsFromTokenExchangeRequest(ctx context.Context, req op.TokenExchangeRequest) (map[string]any, error) {
	defer sched.Storage("GetPrivateClaimsFromTokenExchangeRequest")()
	s.mu.Lock()
	defer s.mu.Unlock()
	idx, ferr := s.enter("GetPrivateClaimsFromTokenExchangeRequest", req.GetSubject(), "", "", nil)
	if ferr != nil {
		return nil, ferr
	}
	if s.TEVetoAtClaims {
		err := oidc.ErrAccessDenied().WithDescription("vstore policy veto at GetPrivateClaimsFromTokenExchangeRequest")
		s.leave(idx, "", err)
		return nil, err
	}
	out := map[string]any{}
	for k, v := range s.PrivateClaims {
		out[k] = v
	}
	if s.TEActorClaim && req.GetExchangeActor() != "" {
		out["act"] = map[string]any{"sub": req.GetExchangeActor()}
	}
	return out, nil
}

func (s *Store) setUserinfoFromTokenExchangeRequest(ctx context.Context, ui *oidc.UserInfo, req op.TokenExchangeRequest) error {
	defer sched.Storage("SetUserinfoFromTokenExchangeRequest")()
	s.mu.Lock()
	defer s.mu.Unlock()
	idx, ferr := s.enter("SetUserinfoFromTokenExchangeRequest", req.GetSubject(), "", "", nil)
	if ferr != nil {
		return ferr
	}
	if s.TEVetoAtClaims {
		err := oidc.ErrAccessDenied().WithDescription("vstore policy veto at SetUserinfoFromTokenExchangeRequest")
		s.leave(idx, "", err)
		return err
	}
	if !s.TEUISubByScope {
		ui.Subject = req.GetSubject()
	}
	s.fillUser(ui, req.GetSubject(), req.GetScopes())
	if s.TEActorClaim && req.GetExchangeActor() != "" {
		ui.AppendClaims("act", map[string]any{"sub": req.GetExchangeActor()})
	}
	return nil
}

func (s *Store) storeDeviceAuthorization(ctx context.Context, clientID, deviceCode, userCode string, expires time.Time, scopes []string) error {
	defer sched.Storage("StoreDeviceAuthorization")()
	s.mu.Lock()
	defer s.mu.Unlock()
	idx, ferr := s.enter("StoreDeviceAuthorization", clientID, deviceCode, userCode, strings.Join(scopes, " "))
	if ferr != nil {
		return ferr
	}
	if s.DupUserCodes > 0 {
		s.DupUserCodes--
		s.leave(idx, "", op.ErrDuplicateUserCode)
		return op.ErrDuplicateUserCode
	}
	if _, ok := s.userCodes[userCode]; ok {
		s.leave(idx, "", op.ErrDuplicateUserCode)
		return op.ErrDuplicateUserCode
	}
	if _, ok := s.devices[deviceCode]; ok {
		err := errors.New("vstore: duplicate device code")
		s.leave(idx, "", err)
		return err
	}
	s.devices[deviceCode] = &Device{DeviceCode: deviceCode, UserCode: userCode, ClientID: clientID, Scopes: slices.Clone(scopes), Expires: expires}
	s.userCodes[userCode] = deviceCode
	return nil
}

func (s *Store) getDeviceAuthorizatonState(ctx context.Context, clientID, deviceCode string) (*op.DeviceAuthorizationState, error) {
	defer sched.Storage("GetDeviceAuthorizatonState")()
	if s.BlockDeviceLookup.Load() {
		var err error
		if _, ok := ctx.Deadline(); !ok {
			s.DeviceLookupsWithoutDeadline.Add(1)
			err = fmt.Errorf("vstore: hanging look-up under a context without deadline (it would never return): %w", context.DeadlineExceeded)
		} else {
			<-ctx.Done() // outside the lock
			err = ctx.Err()
		}
		s.mu.Lock()
		defer s.mu.Unlock()
		idx, ferr := s.enter("GetDeviceAuthorizatonState", clientID, deviceCode, "", nil)
		if ferr != nil {
			return nil, ferr
		}
		s.leave(idx, "", err)
		return nil, err
	}
	defer sched.Storage("GetDeviceAuthorizatonState")()
	s.mu.Lock()
	defer s.mu.Unlock()
	idx, ferr := s.enter("GetDeviceAuthorizatonState", clientID, deviceCode, "", nil)
	if ferr != nil {
		return nil, ferr
	}
	if err := ctx.Err(); err != nil {
		s.leave(idx, "", err)
		return nil, err
	}
	d := s.devices[deviceCode]
	if d == nil || d.ClientID != clientID {
		err := errors.New("vstore: device code not found for client")
		s.leave(idx, "", err)
		return nil, err
	}
	if s.SharedSnapshots && d.snap != nil && d.snapVer == d.version {
		return d.snap, nil
	}
	st := &op.DeviceAuthorizationState{
		ClientID: d.ClientID, Scopes: s.lend(d.Scopes), Expires: d.Expires, Done: d.Done, Denied: d.Denied,
		Subject: d.Subject, AMR: s.lend(d.AMR), AuthTime: d.AuthTime, // lend = slices.Clone unless SetLendSlices (lend.go)
		Audience: s.lend(d.Audience), // nil unless a check registered one (EditDevice)
	}
	d.snap, d.snapVer = st, d.version
	state := "pending"
	if d.Denied {
		state = "denied"
	} else if d.Done {
		state = "done"
	}
	s.leave(idx, state, nil)
	return st, nil
}

func (s *Store) terminateSessionFromRequest(ctx context.Context, r *op.EndSessionRequest) (string, error) {
	defer sched.Storage("TerminateSessionFromRequest")()
	s.mu.Lock()
	defer s.mu.Unlock()
	_, ferr := s.enter("TerminateSessionFromRequest", r.UserID, r.ClientID, r.RedirectURI, nil)
	if ferr != nil {
		return "", ferr
	}
	s.terminate(r.UserID, r.ClientID)
	if s.LogoutRedirect != "" {
		return s.LogoutRedirect, nil
	}
	return r.RedirectURI, nil
}

func (s *Store) setUserinfoFromRequest(ctx context.Context, ui *oidc.UserInfo, req op.IDTokenRequest, scopes []string) error {
	defer sched.Storage("SetUserinfoFromRequest")()
	s.mu.Lock()
	defer s.mu.Unlock()
	_, ferr := s.enter("SetUserinfoFromRequest", req.GetSubject(), req.GetClientID(), strings.Join(scopes, " "), nil)
	if ferr != nil {
		return ferr
	}
	ui.AppendClaims("verif_from_request", true)
	// like the example storage: the optional hook fills the user claims of the scopes it is handed
	s.fillUser(ui, req.GetSubject(), scopes)
	return nil
}

func (s *Store) getPrivateClaimsFromRequest(ctx context.Context, req op.TokenRequest, scopes []string) (map[string]any, error) {
	defer sched.Storage("GetPrivateClaimsFromRequest")()
	s.mu.Lock()
	defer s.mu.Unlock()
	_, ferr := s.enter("GetPrivateClaimsFromRequest", req.GetSubject(), strings.Join(scopes, " "), "", nil)
	if ferr != nil {
		return nil, ferr
	}
	out := map[string]any{"verif_from_request": true}
	for k, v := range s.PrivateClaims {
		out[k] = v
	}
	return out, nil
}

func (s *Store) jwtProfileTokenType(ctx context.Context, req op.TokenRequest) (op.AccessTokenType, error) {
	defer sched.Storage("JWTProfileTokenType")()
	s.mu.Lock()
	defer s.mu.Unlock()
	_, ferr := s.enter("JWTProfileTokenType", req.GetSubject(), "", "", nil)
	if ferr != nil {
		return 0, ferr
	}
	return s.JWTProfileType, nil
}
