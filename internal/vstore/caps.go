package vstore

import (
	"context"
	"time"

	"github.com/zitadel/oidc/v3/pkg/oidc"
	"github.com/zitadel/oidc/v3/pkg/op"
)

// The framework discovers optional storage capabilities by interface assertion
// on the dynamic type, so every subset needs its own type.

type Caps struct {
	CC, TE, Dev bool // ClientCredentialsStorage, TokenExchangeStorage, DeviceAuthorizationStorage
	Extras      bool // CanTerminateSessionFromRequest, CanSetUserinfoFromRequest, CanGetPrivateClaimsFromRequest, JWTProfileTokenStorage
}

func (c Caps) String() string {
	b := func(x bool, s string) string {
		if x {
			return s
		}
		return "-"
	}
	return b(c.CC, "C") + b(c.TE, "T") + b(c.Dev, "D") + b(c.Extras, "X")
}

// AllCaps enumerates the 8 subsets of {CC, TE, Dev} (Extras off).
func AllCaps() []Caps {
	var out []Caps
	for i := 0; i < 8; i++ {
		out = append(out, Caps{CC: i&1 != 0, TE: i&2 != 0, Dev: i&4 != 0})
	}
	return out
}

var Full = Caps{CC: true, TE: true, Dev: true}

type ccCap struct{ s *Store }

func (c ccCap) ClientCredentials(ctx context.Context, clientID, secret string) (op.Client, error) {
	return c.s.clientCredentials(ctx, clientID, secret)
}
func (c ccCap) ClientCredentialsTokenRequest(ctx context.Context, clientID string, scopes []string) (op.TokenRequest, error) {
	return c.s.clientCredentialsTokenRequest(ctx, clientID, scopes)
}

type teCap struct{ s *Store }

func (c teCap) ValidateTokenExchangeRequest(ctx context.Context, r op.TokenExchangeRequest) error {
	return c.s.validateTokenExchangeRequest(ctx, r)
}
func (c teCap) CreateTokenExchangeRequest(ctx context.Context, r op.TokenExchangeRequest) error {
	return c.s.createTokenExchangeRequest(ctx, r)
}
func (c teCap) GetPrivateClaimsFromTokenExchangeRequest(ctx context.Context, r op.TokenExchangeRequest) (map[string]any, error) {
	return c.s.getPrivateClaimsFromTokenExchangeRequest(ctx, r)
}
func (c teCap) SetUserinfoFromTokenExchangeRequest(ctx context.Context, ui *oidc.UserInfo, r op.TokenExchangeRequest) error {
	return c.s.setUserinfoFromTokenExchangeRequest(ctx, ui, r)
}

type devCap struct{ s *Store }

func (c devCap) StoreDeviceAuthorization(ctx context.Context, clientID, deviceCode, userCode string, expires time.Time, scopes []string) error {
	return c.s.storeDeviceAuthorization(ctx, clientID, deviceCode, userCode, expires, scopes)
}
func (c devCap) GetDeviceAuthorizatonState(ctx context.Context, clientID, deviceCode string) (*op.DeviceAuthorizationState, error) {
	return c.s.getDeviceAuthorizatonState(ctx, clientID, deviceCode)
}

type xCap struct{ s *Store }

func (c xCap) TerminateSessionFromRequest(ctx context.Context, r *op.EndSessionRequest) (string, error) {
	return c.s.terminateSessionFromRequest(ctx, r)
}
func (c xCap) SetUserinfoFromRequest(ctx context.Context, ui *oidc.UserInfo, req op.IDTokenRequest, scopes []string) error {
	return c.s.setUserinfoFromRequest(ctx, ui, req, scopes)
}
func (c xCap) GetPrivateClaimsFromRequest(ctx context.Context, req op.TokenRequest, scopes []string) (map[string]any, error) {
	return c.s.getPrivateClaimsFromRequest(ctx, req, scopes)
}
func (c xCap) JWTProfileTokenType(ctx context.Context, req op.TokenRequest) (op.AccessTokenType, error) {
	return c.s.jwtProfileTokenType(ctx, req)
}

type (
	s000 struct{ *Store }
	s100 struct {
		*Store
		ccCap
	}
	s010 struct {
		*Store
		teCap
	}
	s110 struct {
		*Store
		ccCap
		teCap
	}
	s001 struct {
		*Store
		devCap
	}
	s101 struct {
		*Store
		ccCap
		devCap
	}
	s011 struct {
		*Store
		teCap
		devCap
	}
	s111 struct {
		*Store
		ccCap
		teCap
		devCap
	}
	x000 struct {
		*Store
		xCap
	}
	x111 struct {
		*Store
		ccCap
		teCap
		devCap
		xCap
	}
	x001 struct {
		*Store
		devCap
		xCap
	}
	x110 struct {
		*Store
		ccCap
		teCap
		xCap
	}
)

// As returns the op.Storage whose dynamic type implements exactly the requested capabilities.
func (s *Store) As(c Caps) op.Storage {
	if c.Extras {
		switch {
		case c.CC && c.TE && c.Dev:
			return x111{s, ccCap{s}, teCap{s}, devCap{s}, xCap{s}}
		case c.CC && c.TE:
			return x110{s, ccCap{s}, teCap{s}, xCap{s}}
		case c.Dev:
			return x001{s, devCap{s}, xCap{s}}
		default:
			return x000{s, xCap{s}}
		}
	}
	switch {
	case c.CC && c.TE && c.Dev:
		return s111{s, ccCap{s}, teCap{s}, devCap{s}}
	case c.CC && c.TE:
		return s110{s, ccCap{s}, teCap{s}}
	case c.CC && c.Dev:
		return s101{s, ccCap{s}, devCap{s}}
	case c.TE && c.Dev:
		return s011{s, teCap{s}, devCap{s}}
	case c.CC:
		return s100{s, ccCap{s}}
	case c.TE:
		return s010{s, teCap{s}}
	case c.Dev:
		return s001{s, devCap{s}}
	}
	return s000{s}
}

// compile-time checks
var (
	_ op.Storage                        = s000{}
	_ op.ClientCredentialsStorage       = s100{}
	_ op.TokenExchangeStorage           = s010{}
	_ op.DeviceAuthorizationStorage     = s001{}
	_ op.CanTerminateSessionFromRequest = x000{}
	_ op.CanSetUserinfoFromRequest      = x000{}
	_ op.CanGetPrivateClaimsFromRequest = x000{}
	_ op.JWTProfileTokenStorage         = x000{}
	_ op.AuthRequest                    = (*AuthReqSnap)(nil)
	_ op.AuthRequestSessionState        = AuthReqSnapSS{}
	_ op.RefreshTokenRequest            = (*RefreshReq)(nil)
)
