package vstore

import (
	"slices"
	"sync"
	"time"

	"github.com/zitadel/oidc/v3/pkg/op"
)

// Lax refresh look-up: a storage that keeps rejected refresh tokens around (expired ones wait for a clean-up job,
// rotated ones are kept for replay detection) and whose TokenRequestByRefreshToken hands back the record it found
// TOGETHER with the error that rejects it - `return grant, ErrExpired` is ordinary Go, and nothing in op.Storage
// forbids a non-nil request next to a non-nil error. The same holds for a look-up that fails half-way (fault plan):
// the record read so far comes back with the error. Such a storage's rotation call trusts the look-up for the expiry
// (it only checks that the presented token has not been rotated away, which it needs for atomic rotation).
//
// Off (the default) = today's behaviour: every rejected look-up returns a nil request, the rotation call re-checks
// liveness and expiry. Kept outside the Store struct (like the gates) so that the struct is untouched.

var laxRefresh sync.Map // *Store -> struct{}

// SetLaxRefresh switches the lax refresh look-up on or off for this store.
func (s *Store) SetLaxRefresh(on bool) {
	if on {
		laxRefresh.Store(s, struct{}{})
	} else {
		laxRefresh.Delete(s)
	}
}

// LaxRefresh reports whether the lax refresh look-up is on.
func (s *Store) LaxRefresh() bool {
	_, ok := laxRefresh.Load(s)
	return ok
}

// LaxGrantNote is the journal Ret of a TokenRequestByRefreshToken call that returned a request next to its error.
const LaxGrantNote = "request-returned-with-error"

// laxGrant (s.mu held) is the request a lax look-up returns next to its error: the record of the token if the store
// has one, otherwise - and always when the knob is off - a nil interface.
func (s *Store) laxGrant(refreshToken string) op.RefreshTokenRequest {
	if !s.LaxRefresh() {
		return nil
	}
	r := s.refresh[refreshToken]
	if r == nil {
		return nil
	}
	c := *r
	c.Scopes = slices.Clone(r.Scopes)
	c.Audience = slices.Clone(r.Audience)
	c.AMR = slices.Clone(r.AMR)
	return &RefreshReq{r: c, scopes: slices.Clone(r.Scopes)}
}

// laxNote (s.mu held) is the journal note for a rejected look-up.
func (s *Store) laxNote(refreshToken string) string {
	if s.LaxRefresh() && s.refresh[refreshToken] != nil {
		return LaxGrantNote
	}
	return ""
}

// rotatable (s.mu held) decides whether the rotation call accepts old as the current refresh token: live and not
// expired; with the lax look-up on, the expiry is the look-up's business and only the Live flag is checked.
func (s *Store) rotatable(old *Refresh) bool {
	if s.LaxRefresh() {
		return old != nil && old.Live
	}
	return old != nil && old.Live && time.Now().Before(old.Expiry)
}
