// Package vclient is an op.Client implementation whose every registration
// dimension is a plain field. A Client value is immutable after registration:
// the getters hand out the underlying slices, so a library write into them is
// visible to snapshot comparison and to the race detector.
package vclient

import (
	"time"

	"verif/internal/sched"

	"github.com/zitadel/oidc/v3/pkg/oidc"
	"github.com/zitadel/oidc/v3/pkg/op"
)

type Client struct {
	ID              string
	Secret          string // "" = no secret registered
	Redirects       []string
	PostLogout      []string
	AppType         op.ApplicationType
	Auth            oidc.AuthMethod
	RespTypes       []oidc.ResponseType
	Grants          []oidc.GrantType
	TokenType       op.AccessTokenType
	IDTokenTTL      time.Duration
	Dev             bool
	UserinfoInIDTok bool
	Skew            time.Duration
	LoginPrefix     string // LoginURL(id) = LoginPrefix + id
	ExtraScopes     []string
	Globs           bool // opted into HasRedirectGlobs
	RedirectGlobs   []string
	PostLogoutGlobs []string
	// ServiceUser: the client may use client_credentials / jwt-bearer as itself.
	ServiceUser bool
	// DropIDTokenScopes: scopes RestrictAdditionalIdTokenScopes removes (nil = the scopes pass unchanged).
	DropIDTokenScopes []string
	// GlobGetterPoints: the two getters of GlobClient are yield points of internal/sched as well, like every getter
	// of Client (zero value: they are not, as before).
	GlobGetterPoints bool
}

func (c *Client) GetID() string          { sched.Point("client:GetID"); return c.ID }
func (c *Client) RedirectURIs() []string { sched.Point("client:RedirectURIs"); return c.Redirects }
func (c *Client) PostLogoutRedirectURIs() []string {
	sched.Point("client:PostLogoutRedirectURIs")
	return c.PostLogout
}
func (c *Client) ApplicationType() op.ApplicationType {
	sched.Point("client:ApplicationType")
	return c.AppType
}
func (c *Client) AuthMethod() oidc.AuthMethod { sched.Point("client:AuthMethod"); return c.Auth }
func (c *Client) ResponseTypes() []oidc.ResponseType {
	sched.Point("client:ResponseTypes")
	return c.RespTypes
}
func (c *Client) GrantTypes() []oidc.GrantType { sched.Point("client:GrantTypes"); return c.Grants }
func (c *Client) LoginURL(id string) string {
	sched.Point("client:LoginURL")
	return c.LoginPrefix + id
}
func (c *Client) AccessTokenType() op.AccessTokenType {
	sched.Point("client:AccessTokenType")
	return c.TokenType
}
func (c *Client) IDTokenLifetime() time.Duration {
	sched.Point("client:IDTokenLifetime")
	return c.IDTokenTTL
}
func (c *Client) DevMode() bool { sched.Point("client:DevMode"); return c.Dev }
func (c *Client) IDTokenUserinfoClaimsAssertion() bool {
	sched.Point("client:IDTokenUserinfoClaimsAssertion")
	return c.UserinfoInIDTok
}
func (c *Client) ClockSkew() time.Duration { sched.Point("client:ClockSkew"); return c.Skew }
func (c *Client) RestrictAdditionalIdTokenScopes() func(scopes []string) []string {
	if len(c.DropIDTokenScopes) == 0 {
		return func(scopes []string) []string { return scopes }
	}
	drop := c.DropIDTokenScopes
	return func(scopes []string) []string {
		out := make([]string, 0, len(scopes))
		for _, s := range scopes {
			keep := true
			for _, d := range drop {
				if d == s {
					keep = false
				}
			}
			if keep {
				out = append(out, s)
			}
		}
		return out
	}
}
func (c *Client) RestrictAdditionalAccessTokenScopes() func(scopes []string) []string {
	return func(scopes []string) []string { return scopes }
}
func (c *Client) IsScopeAllowed(scope string) bool {
	for _, s := range c.ExtraScopes {
		if s == scope {
			return true
		}
	}
	return false
}

// GlobClient is what the storage returns for clients that opted into globs
// (the framework discovers the capability by interface assertion).
type GlobClient struct{ *Client }

func (g GlobClient) RedirectURIGlobs() []string {
	if g.Client.GlobGetterPoints {
		sched.Point("client:RedirectURIGlobs")
	}
	return g.Client.RedirectGlobs
}
func (g GlobClient) PostLogoutRedirectURIGlobs() []string {
	if g.Client.GlobGetterPoints {
		sched.Point("client:PostLogoutRedirectURIGlobs")
	}
	return g.Client.PostLogoutGlobs
}

// AsOP returns the value to hand to the framework.
func (c *Client) AsOP() op.Client {
	if c.Globs {
		return GlobClient{c}
	}
	return c
}

// LoginBase is the unique prefix by which the harness recognises a redirect to the login UI.
const LoginBase = "https://login.verif.invalid/ui/login?authRequestID="

// Confidential returns a web client with Basic auth and all user-facing grants.
func Confidential(id, secret string, redirects ...string) *Client {
	return &Client{
		ID: id, Secret: secret, Redirects: redirects, AppType: op.ApplicationTypeWeb,
		Auth:      oidc.AuthMethodBasic,
		RespTypes: []oidc.ResponseType{oidc.ResponseTypeCode},
		Grants:    []oidc.GrantType{oidc.GrantTypeCode, oidc.GrantTypeRefreshToken},
		TokenType: op.AccessTokenTypeBearer, IDTokenTTL: time.Hour, LoginPrefix: LoginBase,
	}
}

// Public returns a native public client (PKCE).
func Public(id string, redirects ...string) *Client {
	return &Client{
		ID: id, Redirects: redirects, AppType: op.ApplicationTypeNative,
		Auth:      oidc.AuthMethodNone,
		RespTypes: []oidc.ResponseType{oidc.ResponseTypeCode},
		Grants:    []oidc.GrantType{oidc.GrantTypeCode, oidc.GrantTypeRefreshToken},
		TokenType: op.AccessTokenTypeBearer, IDTokenTTL: time.Hour, LoginPrefix: LoginBase,
	}
}
