// Package keys provides signing keys of every family used by the checks and a
// small JWT forging toolkit (honest signing through go-jose as well as raw
// compact-serialisation assembly for hostile tokens).
package keys

import (
	"crypto"
	"crypto/ecdsa"
	"crypto/ed25519"
	"crypto/elliptic"
	"crypto/hmac"
	"crypto/rand"
	"crypto/rsa"
	"crypto/sha256"
	"crypto/sha512"
	"crypto/x509"
	"encoding/base64"
	"encoding/json"
	"encoding/pem"
	"fmt"
	"hash"
	"sync"

	jose "github.com/go-jose/go-jose/v4"
)

// Key is a private key with the algorithm it is meant to sign with.
type Key struct {
	Kid  string
	Alg  jose.SignatureAlgorithm
	Priv crypto.Signer // *rsa.PrivateKey, *ecdsa.PrivateKey, ed25519.PrivateKey
	Use  string        // "sig", "enc" or ""
	// RawUse makes OPPublicKey.Use() report Use literally (so that a published key without a declared
	// use can be modelled); the zero value keeps the historical mapping "" -> "sig".
	RawUse bool
}

func (k *Key) Public() crypto.PublicKey { return k.Priv.Public() }

// JWK returns the public JSON Web Key.
func (k *Key) JWK() jose.JSONWebKey {
	return jose.JSONWebKey{Key: k.Public(), KeyID: k.Kid, Algorithm: string(k.Alg), Use: k.Use}
}

// op.SigningKey / op.Key adapters.
type OPSigningKey struct{ K *Key }

func (s OPSigningKey) SignatureAlgorithm() jose.SignatureAlgorithm { return s.K.Alg }
func (s OPSigningKey) Key() any                                    { return s.K.Priv }
func (s OPSigningKey) ID() string                                  { return s.K.Kid }

type OPPublicKey struct{ K *Key }

func (p OPPublicKey) ID() string                         { return p.K.Kid }
func (p OPPublicKey) Algorithm() jose.SignatureAlgorithm { return p.K.Alg }
func (p OPPublicKey) Use() string {
	if p.K.RawUse {
		return p.K.Use
	}
	if p.K.Use == "" {
		return "sig"
	}
	return p.K.Use
}
func (p OPPublicKey) Key() any { return p.K.Public() }

var (
	poolMu sync.Mutex
	pool   = map[string]*Key{}
)

// Get returns the (process-wide cached) key "name" for alg. Different names give
// different keys; the same name always the same key within one process.
func Get(name string, alg jose.SignatureAlgorithm) *Key {
	id := name + "/" + string(alg)
	poolMu.Lock()
	if k, ok := pool[id]; ok {
		poolMu.Unlock()
		return k
	}
	poolMu.Unlock()
	k := generate(name, alg)
	poolMu.Lock()
	defer poolMu.Unlock()
	if e, ok := pool[id]; ok {
		return e
	}
	pool[id] = k
	return k
}

func generate(name string, alg jose.SignatureAlgorithm) *Key {
	var priv crypto.Signer
	var err error
	switch alg {
	case jose.RS256, jose.RS384, jose.RS512, jose.PS256, jose.PS384, jose.PS512:
		priv, err = rsa.GenerateKey(rand.Reader, 2048)
	case jose.ES256:
		priv, err = ecdsa.GenerateKey(elliptic.P256(), rand.Reader)
	case jose.ES384:
		priv, err = ecdsa.GenerateKey(elliptic.P384(), rand.Reader)
	case jose.ES512:
		priv, err = ecdsa.GenerateKey(elliptic.P521(), rand.Reader)
	case jose.EdDSA:
		var p ed25519.PrivateKey
		_, p, err = ed25519.GenerateKey(rand.Reader)
		priv = p
	default:
		panic("keys: unsupported alg " + string(alg))
	}
	if err != nil {
		panic(err)
	}
	return &Key{Kid: name, Alg: alg, Priv: priv, Use: "sig"}
}

// With returns a shallow copy with another kid / alg / use (same private key).
func (k *Key) With(kid string, alg jose.SignatureAlgorithm, use string) *Key {
	c := *k
	c.Kid, c.Alg, c.Use = kid, alg, use
	return &c
}

// AllAlgs are the asymmetric algorithms go-jose supports.
var AllAlgs = []jose.SignatureAlgorithm{jose.RS256, jose.RS384, jose.RS512, jose.PS256, jose.PS384, jose.PS512, jose.ES256, jose.ES384, jose.ES512, jose.EdDSA}

// Sign produces an honest compact JWS over payload with header {alg, kid, typ?}.
func Sign(k *Key, payload []byte, typ string) string {
	return SignAs(k, k.Alg, k.Kid, payload, typ)
}

// SignAs signs with an explicit alg and kid header (kid "" omits the header).
func SignAs(k *Key, alg jose.SignatureAlgorithm, kid string, payload []byte, typ string) string {
	opts := &jose.SignerOptions{}
	if typ != "" {
		opts = opts.WithType(jose.ContentType(typ))
	}
	signer, err := jose.NewSigner(jose.SigningKey{Algorithm: alg, Key: &jose.JSONWebKey{Key: k.Priv, KeyID: kid}}, opts)
	if err != nil {
		panic(fmt.Sprintf("keys.SignAs(%s): %v", alg, err))
	}
	jws, err := signer.Sign(payload)
	if err != nil {
		panic(err)
	}
	s, err := jws.CompactSerialize()
	if err != nil {
		panic(err)
	}
	return s
}

// SignJSON marshals v and signs it.
func SignJSON(k *Key, v any) string {
	b, err := json.Marshal(v)
	if err != nil {
		panic(err)
	}
	return Sign(k, b, "JWT")
}

// SignFull returns the full (JSON-capable) JWS object.
func SignFull(k *Key, alg jose.SignatureAlgorithm, kid string, payload []byte) *jose.JSONWebSignature {
	signer, err := jose.NewSigner(jose.SigningKey{Algorithm: alg, Key: &jose.JSONWebKey{Key: k.Priv, KeyID: kid}}, &jose.SignerOptions{})
	if err != nil {
		panic(err)
	}
	jws, err := signer.Sign(payload)
	if err != nil {
		panic(err)
	}
	return jws
}

// MultiSign returns a general-JSON JWS with one signature per key.
func MultiSign(payload []byte, ks ...*Key) string {
	var sigs []jose.SigningKey
	for _, k := range ks {
		sigs = append(sigs, jose.SigningKey{Algorithm: k.Alg, Key: &jose.JSONWebKey{Key: k.Priv, KeyID: k.Kid}})
	}
	signer, err := jose.NewMultiSigner(sigs, &jose.SignerOptions{})
	if err != nil {
		panic(err)
	}
	jws, err := signer.Sign(payload)
	if err != nil {
		panic(err)
	}
	return jws.FullSerialize()
}

func B64(b []byte) string { return base64.RawURLEncoding.EncodeToString(b) }
func UnB64(s string) []byte {
	b, _ := base64.RawURLEncoding.DecodeString(s)
	return b
}

// Raw assembles header.payload.signature from raw parts.
func Raw(header, payload, sig []byte) string {
	return B64(header) + "." + B64(payload) + "." + B64(sig)
}

// HeaderJSON builds a protected header.
func HeaderJSON(alg, kid string, extra map[string]any) []byte {
	h := map[string]any{"alg": alg}
	if kid != "" {
		h["kid"] = kid
	}
	for k, v := range extra {
		h[k] = v
	}
	b, _ := json.Marshal(h)
	return b
}

// HMACSign makes an HS* token keyed with arbitrary bytes (e.g. an encoding of a public key).
func HMACSign(alg string, kid string, key, payload []byte) string {
	var hf func() hash.Hash
	switch alg {
	case "HS256":
		hf = sha256.New
	case "HS384":
		hf = sha512.New384
	default:
		hf = sha512.New
	}
	hdr := HeaderJSON(alg, kid, nil)
	signing := B64(hdr) + "." + B64(payload)
	m := hmac.New(hf, key)
	m.Write([]byte(signing))
	return signing + "." + B64(m.Sum(nil))
}

// PublicEncodings returns byte encodings of a public key an attacker might use as HMAC secret.
func PublicEncodings(k *Key) [][]byte {
	var out [][]byte
	if der, err := x509.MarshalPKIXPublicKey(k.Public()); err == nil {
		out = append(out, der)
		out = append(out, pem.EncodeToMemory(&pem.Block{Type: "PUBLIC KEY", Bytes: der}))
	}
	if rk, ok := k.Public().(*rsa.PublicKey); ok {
		der := x509.MarshalPKCS1PublicKey(rk)
		out = append(out, der)
		out = append(out, pem.EncodeToMemory(&pem.Block{Type: "RSA PUBLIC KEY", Bytes: der}))
		out = append(out, rk.N.Bytes())
	}
	jwk := k.JWK()
	if b, err := jwk.MarshalJSON(); err == nil {
		out = append(out, b)
	}
	return out
}

// PEM encodings of private keys for the client helpers.
func (k *Key) PKCS1PEM() []byte {
	rk, ok := k.Priv.(*rsa.PrivateKey)
	if !ok {
		return nil
	}
	return pem.EncodeToMemory(&pem.Block{Type: "RSA PRIVATE KEY", Bytes: x509.MarshalPKCS1PrivateKey(rk)})
}

func (k *Key) PKCS8PEM() []byte {
	der, err := x509.MarshalPKCS8PrivateKey(k.Priv)
	if err != nil {
		return nil
	}
	return pem.EncodeToMemory(&pem.Block{Type: "PRIVATE KEY", Bytes: der})
}

// Split returns the three parts of a compact token (nil if not three parts).
func Split(tok string) []string {
	var parts []string
	start := 0
	for i := 0; i < len(tok); i++ {
		if tok[i] == '.' {
			parts = append(parts, tok[start:i])
			start = i + 1
		}
	}
	parts = append(parts, tok[start:])
	return parts
}

// PayloadOf decodes the payload part of a compact token.
func PayloadOf(tok string) []byte {
	p := Split(tok)
	if len(p) != 3 {
		return nil
	}
	return UnB64(p[1])
}

// HeaderOf decodes the protected header of a compact token.
func HeaderOf(tok string) map[string]any {
	p := Split(tok)
	if len(p) != 3 {
		return nil
	}
	var h map[string]any
	_ = json.Unmarshal(UnB64(p[0]), &h)
	return h
}
