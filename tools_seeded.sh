#!/bin/bash
# Runs the checks against every seeded property-breaking change under /verif/seeded/<name>/ in SCRATCH worktrees
# (never in /repo) and writes seeded/RESULTS.json + prints a table.
#
#   ./tools_seeded.sh [-t quick|thorough] [-j N] [name ...]
#
# For each seeded change: git worktree of /repo HEAD -> git apply patch.diff -> ./check <property> <tier> in scratch
# mode (VERIF_REPO_DIR/VERIF_OUT) for the property the change breaks plus any extra checks listed in meta.json
# ("also_checks") -> detected iff exit 1 with a VIOLATION line. The worktree and its output are removed afterwards.
set -u
cd "$(dirname "$0")" || exit 2
TIER=quick; JOBS=3
while getopts "t:j:" o; do case $o in t) TIER=$OPTARG;; j) JOBS=$OPTARG;; esac; done
shift $((OPTIND-1))
names=("$@")
[ ${#names[@]} -eq 0 ] && names=($(ls seeded | grep -v -E '\.(json|md)$'))
export GOFLAGS=-mod=mod GOPROXY=off
mkdir -p /tmp/seeded-results
run_one() {
  name=$1; tier=$2
  d=seeded/$name
  [ -f "$d/patch.diff" ] || { echo "$name: no patch.diff"; return; }
  prop=$(jq -r .property "$d/meta.json")
  also=$(jq -r '(.also_checks // []) | join(" ")' "$d/meta.json")
  wt=/tmp/seedwt-$name
  git -C /repo worktree remove --force "$wt" >/dev/null 2>&1; rm -rf "$wt"
  git -C /repo worktree add -q --detach "$wt" HEAD || { echo "$name: worktree failed"; return; }
  if ! git -C "$wt" apply "$PWD/$d/patch.diff" 2>/tmp/seeded-results/$name.apply; then
    echo "{\"name\":\"$name\",\"property\":\"$prop\",\"applies\":false}" > /tmp/seeded-results/$name.json
    git -C /repo worktree remove --force "$wt"; return
  fi
  res="[]"
  for p in $prop $also; do
    out=/tmp/seedout-$name-$p
    rm -rf "$out"
    t0=$(date +%s)
    VERIF_REPO_DIR=$wt VERIF_OUT=$out ./check "$p" "$tier" > /tmp/seeded-results/$name.$p.out 2>&1
    rc=$?
    t1=$(date +%s)
    keys=$(grep -o 'key="[^"]*"' /tmp/seeded-results/$name.$p.out | sed 's/^key="//; s/"$//' | sort -u | head -8 | jq -R . | jq -s -c .)
    res=$(echo "$res" | jq -c --arg p "$p" --argjson rc $rc --argjson keys "${keys:-[]}" --argjson s $((t1-t0)) '. + [{check:$p, exit:$rc, detected:($rc==1), keys:$keys, wall_s:$s}]')
    rm -rf "$out"
  done
  echo "{\"name\":\"$name\",\"property\":\"$prop\",\"tier\":\"$tier\",\"applies\":true,\"runs\":$res}" > /tmp/seeded-results/$name.json
  git -C /repo worktree remove --force "$wt"
}
export -f run_one
printf '%s\n' "${names[@]}" | xargs -P "$JOBS" -I{} bash -c "run_one {} $TIER"
jq -s 'sort_by(.name)' $(for n in "${names[@]}"; do echo /tmp/seeded-results/$n.json; done) > /tmp/seeded-results/ALL.json
# merge into the committed table (entries of other names are kept)
if [ -f seeded/RESULTS.$TIER.json ]; then
  jq -s '(.[0] + .[1]) | group_by(.name) | map(.[-1]) | sort_by(.name)' seeded/RESULTS.$TIER.json /tmp/seeded-results/ALL.json > /tmp/seeded-results/MERGED.json && cp /tmp/seeded-results/MERGED.json seeded/RESULTS.$TIER.json
else
  cp /tmp/seeded-results/ALL.json seeded/RESULTS.$TIER.json
fi
jq -r '.[] | [.name, .property, (if .applies then (.runs | map(.check + ":" + (if .detected then "DETECTED" else "missed(rc=" + (.exit|tostring) + ")" end)) | join(" ")) else "PATCH-DOES-NOT-APPLY" end)] | @tsv' /tmp/seeded-results/ALL.json
