#!/opt/veriftools/pyvenv/bin/python
"""Validate MANIFEST.json and evidence/*.json against the schemas in /root/.vp."""
import json, sys, glob, jsonschema
ok = True
def check(path, schema):
    global ok
    try:
        jsonschema.validate(json.load(open(path)), json.load(open(schema)))
        print("valid  ", path)
    except Exception as e:
        ok = False
        print("INVALID", path, str(e).splitlines()[0])
check("/verif/MANIFEST.json", "/root/.vp/MANIFEST.schema.json")
for f in sorted(glob.glob("/verif/evidence/*.json")):
    check(f, "/root/.vp/EVIDENCE.schema.json")
m = json.load(open("/verif/MANIFEST.json"))
props = [json.loads(l)["id"] for l in open("/verif/properties.jsonl")]
claimed = [c["property_id"] for c in m["checks"]]
na = [c["property_id"] for c in m.get("not_applicable", [])]
for p in props:
    if (p in claimed) == (p in na):
        ok = False
        print("property", p, "must be exactly one of claimed / not_applicable")
sys.exit(0 if ok else 1)
