#!/bin/bash
# Imports a candidate change produced by a seeding sub-agent after confirming it independently:
#   ./tools_seed_import.sh <src dir> <name> <property> "<what it changes / which clause it breaks>" "<what it needs to manifest>"
# Confirmation = tools_seed_confirm.sh (clean tree: demo passes; with patch: builds, pinned suite as baseline, demo fails).
# Only confirmed changes are kept, as /verif/seeded/<name>/{patch.diff, demo.sh, demo files, notes.md, meta.json}.
set -u
cd "$(dirname "$0")" || exit 2
src=$1; name=$2; prop=$3; what=$4; needs=$5
res=$(./tools_seed_confirm.sh "$src" "$name" | tail -n +1)
echo "$res" | jq -c '{name, confirmed, patch_applies, builds, suite_as_baseline, demo_exit_clean, demo_exit_with_change}'
if [ "$(echo "$res" | jq -r .confirmed)" != "true" ]; then echo "NOT CONFIRMED: $name (kept nothing)"; exit 1; fi
d=seeded/$name
rm -rf "$d"; mkdir -p "$d"
for f in "$src"/*; do
  case "$(basename "$f")" in *.log|*.out) ;; *) cp -r "$f" "$d/";; esac
done
jq -n --arg name "$name" --arg prop "$prop" --arg what "$what" --arg needs "$needs" --argjson confirm "$res" \
  '{name:$name, property:$prop, origin:"independent sub-agent given only the property text and its own scratch worktree of /repo", breaks:$what, needs_to_manifest:$needs,
    demo:"bash demo.sh <checkout> (exit 0 = demonstration passes)", confirmed_by:"tools_seed_confirm.sh", confirmation:$confirm}' > "$d/meta.json"
echo "imported $d"
