#!/bin/bash
# Confirms a candidate property-breaking change independently of whoever wrote it:
#   ./tools_seed_confirm.sh <dir with patch.diff + demo.sh> [name]
# 1. clean scratch worktree of /repo HEAD: demo.sh must PASS (exit 0)
# 2. worktree + patch.diff: `go build ./...` must succeed, the pinned suite must pass exactly as the baseline does
#    (every BASELINE.json stable_pass test passes), and demo.sh must FAIL (exit != 0)
# Prints one JSON object; exit 0 iff all of that holds. Removes its worktrees.
set -u
src=$(cd "$1" && pwd); name=${2:-$(basename "$src")}
export GOFLAGS=-mod=mod GOPROXY=off
A=/tmp/confirm-$name-clean; B=/tmp/confirm-$name-mut
for w in $A $B; do git -C /repo worktree remove --force $w >/dev/null 2>&1; rm -rf $w; git -C /repo worktree add -q --detach $w HEAD || exit 2; done
cleanup() { for w in $A $B; do git -C /repo worktree remove --force $w >/dev/null 2>&1; rm -rf $w; done; }
trap cleanup EXIT
applies=true; builds=false; suite=false; demo_clean=-1; demo_mut=-1; missing=""
git -C $B apply "$src/patch.diff" 2>/tmp/confirm-$name.apply || applies=false
if $applies; then
  # only non-test library files may be touched
  touched=$(git -C $B status --porcelain | awk '{print $2}' | tr '\n' ' ')
  (cd $B && go build ./... >/tmp/confirm-$name.build 2>&1) && builds=true
  if $builds; then
    (cd $B && go test -json -vet=off -count=1 -timeout 25m ./... > /tmp/confirm-$name.json 2>/dev/null)
    missing=$(python3 - "$name" <<'PY'
import json,sys
b=json.load(open('/root/.vp/BASELINE.json'))
passed=set();failed=set()
for l in open('/tmp/confirm-%s.json'%sys.argv[1]):
    l=l.strip()
    if not l.startswith('{'): continue
    try: e=json.loads(l)
    except Exception: continue
    if e.get('Test') is None: continue
    t=e['Package']+'::'+e['Test']
    if e.get('Action')=='pass': passed.add(t)
    elif e.get('Action')=='fail': failed.add(t)
passed-=failed
print(' '.join(t for t in b['stable_pass'] if t not in passed))
PY
)
    [ -z "$missing" ] && suite=true
  fi
  # the suite run must not have left anything behind that demo.sh could trip over
  git -C $B stash -q 2>/dev/null; git -C $B stash pop -q 2>/dev/null
  bash "$src/demo.sh" $A > /tmp/confirm-$name.demo-clean 2>&1; demo_clean=$?
  bash "$src/demo.sh" $B > /tmp/confirm-$name.demo-mut 2>&1; demo_mut=$?
fi
ok=false
if $applies && $builds && $suite && [ $demo_clean -eq 0 ] && [ $demo_mut -ne 0 ]; then ok=true; fi
jq -n --arg name "$name" --argjson applies $applies --argjson builds $builds --argjson suite $suite --arg missing "$missing" \
   --argjson dc $demo_clean --argjson dm $demo_mut --argjson ok $ok --arg touched "${touched:-}" --arg head "$(git -C /repo rev-parse --short HEAD)" \
   '{name:$name, repo_head:$head, patch_applies:$applies, touched:$touched, builds:$builds, suite_as_baseline:$suite, suite_missing:$missing, demo_exit_clean:$dc, demo_exit_with_change:$dm, confirmed:$ok}'
$ok
