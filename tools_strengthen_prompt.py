#!/usr/bin/env python3
"""Prints the strengthener brief for a property and a list of missed seeded changes: ./tools_strengthen_prompt.py C05 C05-r6m1 C05-r6m2"""
import json, sys
pid = sys.argv[1]; names = sys.argv[2:]
s = open('/verif/.prompts/strengthen.md').read()
lines = []
for n in names:
    m = json.load(open(f'/verif/seeded/{n}/meta.json'))
    lines.append(f"* `{n}` — {m['breaks']}\n  needs: {m['needs_to_manifest']}")
print(s.replace('__MISSES__', "\n".join(lines)).replace('__ID__', pid).replace('__id__', pid.lower()))
