#!/bin/bash
# ./tools_seed_batch.sh <round tag e.g. r3> <tsv: property \t i \t breaks \t needs>  — imports /tmp/seed-out/<P>/m<i> as seeded/<P>-<tag>m<i>
cd "$(dirname "$0")" || exit 2
tag=$1; tsv=$2
while IFS=$'\t' read -r p i what needs; do
  [ -z "$p" ] && continue
  src=/tmp/seed-out/$p/m$i
  [ -x "$src/demo.sh" ] || chmod +x "$src/demo.sh" 2>/dev/null
  ./tools_seed_import.sh "$src" "$p-${tag}m$i" "$p" "$what" "$needs" 2>&1 | tail -2
done < "$tsv"
